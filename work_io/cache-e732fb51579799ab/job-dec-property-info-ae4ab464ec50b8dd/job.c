#include "v_rt.h"
struct S0_class_std__ios_base__Init;
struct S1;
struct S2;
struct S3_class_std__runtime_error;
struct S4_class_OpenVolumeMesh__IO__detail__parse_;
struct S5_class_std__vector;
struct S6_class_OpenVolumeMesh__IO__detail__Decode;
struct S7_struct_OpenVolumeMesh__IO__detail__Prope;
struct S8_class_std____cxx11__basic_string;
struct S9_union_anon;
struct S10;
struct A0;
struct A1;
struct A2;
struct A3;
struct A4;
struct A5;
struct A6;
struct A7;
struct A8;
struct A9;
struct A10;
struct A11;
struct A12;
struct S0_class_std__ios_base__Init { u8 f0; };
struct S1 { u8* f0; u8* f1; u8* f2; };
struct A13 { u8* e[5]; };
struct S2 { struct A13 f0; };
struct S11_class_std__exception { fnptr_t* f0; };
struct S12_struct_std____cxx11__basic_string_char__ { u8* f0; };
struct S13_struct_std____cow_string { struct S12_struct_std____cxx11__basic_string_char__ f0; };
struct S3_class_std__runtime_error { struct S11_class_std__exception f0; struct S13_struct_std____cow_string f1; };
struct S14_class_OpenVolumeMesh__IO__detail__io_err { struct S3_class_std__runtime_error f0; };
struct S4_class_OpenVolumeMesh__IO__detail__parse_ { struct S14_class_OpenVolumeMesh__IO__detail__io_err f0; };
struct S15_struct_std___Vector_base_unsigned_char__ { u8* f0; u8* f1; u8* f2; };
struct S16_struct_std___Vector_base_unsigned_char__ { struct S15_struct_std___Vector_base_unsigned_char__ f0; };
struct S17_struct_std___Vector_base { struct S16_struct_std___Vector_base_unsigned_char__ f0; };
struct S5_class_std__vector { struct S17_struct_std___Vector_base f0; };
struct S6_class_OpenVolumeMesh__IO__detail__Decode { struct S5_class_std__vector f0; u8* f1; u8* f2; };
struct A14 { u8 e[16]; };
struct S9_union_anon { struct A14 f0; };
struct S8_class_std____cxx11__basic_string { struct S12_struct_std____cxx11__basic_string_char__ f0; u64 f1; struct S9_union_anon f2; };
struct S7_struct_OpenVolumeMesh__IO__detail__Prope { u8 f0; struct S8_class_std____cxx11__basic_string f1; struct S8_class_std____cxx11__basic_string f2; struct S5_class_std__vector f3; };
struct S10 { u8* f0; u32 f1; };
struct A0 { u8 e[64]; };
struct A1 { u8 e[26]; };
struct A2 { u8 e[49]; };
struct A3 { u8 e[55]; };
struct A4 { u8 e[40]; };
struct A5 { u8 e[201]; };
struct A6 { u8 e[72]; };
struct A7 { u8 e[87]; };
struct A8 { u8 e[88]; };
struct A9 { u8 e[24]; };
struct A10 { u8 e[19]; };
struct A11 { u8 e[42]; };
struct A12 { u8 e[38]; };
extern struct A0 _ZL5g_raw;
extern struct A1 _str_74;
extern struct A2 _str_84;
extern struct A3 _str_85;
extern struct A4 _str_86;
extern struct A5 _str_90;
extern struct A6 _str_91;
extern struct A7 _str_92;
extern struct A8 _str_93;
extern struct A9 _str_94;
extern struct S0_class_std__ios_base__Init _ZStL8__ioinit;
extern struct A10 _str_5;
extern struct A10 _str_59;
extern struct A11 _ZTSN14OpenVolumeMesh2IO6detail11parse_errorE;
extern struct S1 _ZTIN14OpenVolumeMesh2IO6detail11parse_errorE;
extern u64 _ZN14OpenVolumeMesh2IO6detail9ovmb_sizeINS1_10FileHeaderEEE;
extern u64 _ZN14OpenVolumeMesh2IO6detail9ovmb_sizeINS1_9ArraySpanEEE;
extern u64 _ZN14OpenVolumeMesh2IO6detail9ovmb_sizeINS1_11ChunkHeaderEEE;
extern u64 _ZN14OpenVolumeMesh2IO6detail9ovmb_sizeINS1_15PropChunkHeaderEEE;
extern u64 _ZN14OpenVolumeMesh2IO6detail9ovmb_sizeINS1_17VertexChunkHeaderEEE;
extern u64 _ZN14OpenVolumeMesh2IO6detail9ovmb_sizeINS1_15TopoChunkHeaderEEE;
extern struct S2 _ZTVN14OpenVolumeMesh2IO6detail11parse_errorE;
extern u64 _ZGVN14OpenVolumeMesh2IO6detail9ovmb_sizeINS1_10FileHeaderEEE;
extern u64 _ZN14OpenVolumeMesh2IO6detail9ovmb_sizeINS1_8TopoTypeEEE;
extern u64 _ZGVN14OpenVolumeMesh2IO6detail9ovmb_sizeINS1_11ChunkHeaderEEE;
extern u64 _ZN14OpenVolumeMesh2IO6detail9ovmb_sizeINS1_9ChunkTypeEEE;
extern u64 _ZN14OpenVolumeMesh2IO6detail9ovmb_sizeINS1_10ChunkFlagsEEE;
extern u64 _ZGVN14OpenVolumeMesh2IO6detail9ovmb_sizeINS1_15PropChunkHeaderEEE;
extern u64 _ZGVN14OpenVolumeMesh2IO6detail9ovmb_sizeINS1_17VertexChunkHeaderEEE;
extern u64 _ZGVN14OpenVolumeMesh2IO6detail9ovmb_sizeINS1_15TopoChunkHeaderEEE;
extern u64 _ZN14OpenVolumeMesh2IO6detail9ovmb_sizeINS1_10TopoEntityEEE;
extern u64 _ZN14OpenVolumeMesh2IO6detail9ovmb_sizeINS1_11IntEncodingEEE;
extern struct S0_class_std__ios_base__Init _ZStL8__ioinit_94;
extern u8* _ZTVN10__cxxabiv120__si_class_type_infoE;
extern struct A12 _ZTSN14OpenVolumeMesh2IO6detail8io_errorE;
extern u8* _ZTISt13runtime_error;
extern struct S1 _ZTIN14OpenVolumeMesh2IO6detail8io_errorE;
extern struct S0_class_std__ios_base__Init _ZStL8__ioinit_107;
extern u8 __dso_handle;
u32 v_nondet_u32(void);
void v_assume(u1);
u32 v_param(u32);
u8 v_nondet_u8(void);
u32 __gxx_personality_v0(void);
u8* _Znwm(u64);
u8* __cxa_begin_catch(u8*);
void __cxa_end_catch(void);
void v_assert(u1, u8*);
void v_witness(u8*);
void _ZdlPv(u8*);
u8* __cxa_allocate_exception(u64);
void _ZNSt13runtime_errorD2Ev(struct S3_class_std__runtime_error*);
void __cxa_throw(u8*, u8*, u8*);
void __cxa_free_exception(u8*);
void _ZN14OpenVolumeMesh2IO6detail11parse_errorD0Ev(struct S4_class_OpenVolumeMesh__IO__detail__parse_*);
u8* _ZNKSt13runtime_error4whatEv(struct S3_class_std__runtime_error*);
void _ZNSt6vectorIhSaIhEE17_M_default_appendEm(struct S5_class_std__vector*, u64);
void harness_property_info(void);
void _ZN18Case_property_infoILj0EE3runEv(void);
void _GLOBAL__sub_I_Decoder_cc(void);
void _ZNSt8ios_base4InitC1Ev(struct S0_class_std__ios_base__Init*);
void _ZNSt8ios_base4InitD1Ev(struct S0_class_std__ios_base__Init*);
u32 __cxa_atexit(fnptr_t, u8*, u8*);
u8 _ZN14OpenVolumeMesh2IO6detail7Decoder2u8Ev(struct S6_class_OpenVolumeMesh__IO__detail__Decode*);
u32 _ZN14OpenVolumeMesh2IO6detail7Decoder3u32Ev(struct S6_class_OpenVolumeMesh__IO__detail__Decode*);
void _ZN14OpenVolumeMesh2IO6detail11parse_errorCI2St13runtime_errorEPKc(struct S4_class_OpenVolumeMesh__IO__detail__parse_*, u8*);
void _ZNSt13runtime_errorC2EPKc(struct S3_class_std__runtime_error*, u8*);
void _ZN14OpenVolumeMesh2IO6detail7Decoder4needEm(struct S6_class_OpenVolumeMesh__IO__detail__Decode*, u64);
void _ZN14OpenVolumeMesh2IO6detail7Decoder4readEPcm(struct S6_class_OpenVolumeMesh__IO__detail__Decode*, u8*, u64);
void _ZN14OpenVolumeMesh2IO6detail7Decoder4readEPhm(struct S6_class_OpenVolumeMesh__IO__detail__Decode*, u8*, u64);
void __cxx_global_var_init(void);
void __cxx_global_var_init_2(void);
void __cxx_global_var_init_3(void);
void __cxx_global_var_init_4(void);
void __cxx_global_var_init_5(void);
u32 __cxa_guard_acquire(u64*);
void __cxa_guard_release(u64*);
void _ZN14OpenVolumeMesh2IO6detail4readERNS1_7DecoderERNS1_12PropertyInfoE(struct S6_class_OpenVolumeMesh__IO__detail__Decode*, struct S7_struct_OpenVolumeMesh__IO__detail__Prope*);
void _GLOBAL__sub_I_Encoder_cc(void);
void _GLOBAL__sub_I_WriteBuffer_cc(void);
void _ZSt20__throw_length_errorPKc(u8*);
void v_throw_std(u32);
void _ZSt17__throw_bad_allocv(void);
void _ZNSt7__cxx1112basic_stringIcSt11char_traitsIcESaIcEE9_M_mutateEmmPKcm(struct S8_class_std____cxx11__basic_string*, u64, u64, u8*, u64);
void _ZNSt7__cxx1112basic_stringIcSt11char_traitsIcESaIcEE6resizeEmc(struct S8_class_std____cxx11__basic_string*, u64, u8);
void v_run_static_init(void);
struct A0 _ZL5g_raw = {0};
struct A1 _str_74 = {{((u8)118ULL), ((u8)101ULL), ((u8)99ULL), ((u8)116ULL), ((u8)111ULL), ((u8)114ULL), ((u8)58ULL), ((u8)58ULL), ((u8)95ULL), ((u8)77ULL), ((u8)95ULL), ((u8)100ULL), ((u8)101ULL), ((u8)102ULL), ((u8)97ULL), ((u8)117ULL), ((u8)108ULL), ((u8)116ULL), ((u8)95ULL), ((u8)97ULL), ((u8)112ULL), ((u8)112ULL), ((u8)101ULL), ((u8)110ULL), ((u8)100ULL), ((u8)0ULL)}};
struct A2 _str_84 = {{((u8)111ULL), ((u8)117ULL), ((u8)116ULL), ((u8)32ULL), ((u8)33ULL), ((u8)61ULL), ((u8)32ULL), ((u8)79ULL), ((u8)84ULL), ((u8)72ULL), ((u8)69ULL), ((u8)82ULL), ((u8)32ULL), ((u8)64ULL), ((u8)47ULL), ((u8)118ULL), ((u8)101ULL), ((u8)114ULL), ((u8)105ULL), ((u8)102ULL), ((u8)47ULL), ((u8)104ULL), ((u8)97ULL), ((u8)114ULL), ((u8)110ULL), ((u8)101ULL), ((u8)115ULL), ((u8)115ULL), ((u8)47ULL), ((u8)67ULL), ((u8)48ULL), ((u8)55ULL), ((u8)95ULL), ((u8)100ULL), ((u8)101ULL), ((u8)99ULL), ((u8)111ULL), ((u8)100ULL), ((u8)101ULL), ((u8)114ULL), ((u8)46ULL), ((u8)99ULL), ((u8)112ULL), ((u8)112ULL), ((u8)58ULL), ((u8)50ULL), ((u8)52ULL), ((u8)51ULL), ((u8)0ULL)}};
struct A3 _str_85 = {{((u8)111ULL), ((u8)117ULL), ((u8)116ULL), ((u8)32ULL), ((u8)61ULL), ((u8)61ULL), ((u8)32ULL), ((u8)80ULL), ((u8)65ULL), ((u8)82ULL), ((u8)83ULL), ((u8)69ULL), ((u8)95ULL), ((u8)69ULL), ((u8)82ULL), ((u8)82ULL), ((u8)79ULL), ((u8)82ULL), ((u8)32ULL), ((u8)64ULL), ((u8)47ULL), ((u8)118ULL), ((u8)101ULL), ((u8)114ULL), ((u8)105ULL), ((u8)102ULL), ((u8)47ULL), ((u8)104ULL), ((u8)97ULL), ((u8)114ULL), ((u8)110ULL), ((u8)101ULL), ((u8)115ULL), ((u8)115ULL), ((u8)47ULL), ((u8)67ULL), ((u8)48ULL), ((u8)55ULL), ((u8)95ULL), ((u8)100ULL), ((u8)101ULL), ((u8)99ULL), ((u8)111ULL), ((u8)100ULL), ((u8)101ULL), ((u8)114ULL), ((u8)46ULL), ((u8)99ULL), ((u8)112ULL), ((u8)112ULL), ((u8)58ULL), ((u8)50ULL), ((u8)53ULL), ((u8)48ULL), ((u8)0ULL)}};
struct A4 _str_86 = {{((u8)112ULL), ((u8)114ULL), ((u8)111ULL), ((u8)112ULL), ((u8)101ULL), ((u8)114ULL), ((u8)116ULL), ((u8)121ULL), ((u8)32ULL), ((u8)105ULL), ((u8)110ULL), ((u8)102ULL), ((u8)111ULL), ((u8)58ULL), ((u8)32ULL), ((u8)109ULL), ((u8)97ULL), ((u8)108ULL), ((u8)102ULL), ((u8)111ULL), ((u8)114ULL), ((u8)109ULL), ((u8)101ULL), ((u8)100ULL), ((u8)32ULL), ((u8)45ULL), ((u8)62ULL), ((u8)32ULL), ((u8)112ULL), ((u8)97ULL), ((u8)114ULL), ((u8)115ULL), ((u8)101ULL), ((u8)95ULL), ((u8)101ULL), ((u8)114ULL), ((u8)114ULL), ((u8)111ULL), ((u8)114ULL), ((u8)0ULL)}};
struct A5 _str_90 = {{((u8)111ULL), ((u8)117ULL), ((u8)116ULL), ((u8)32ULL), ((u8)61ULL), ((u8)61ULL), ((u8)32ULL), ((u8)79ULL), ((u8)75ULL), ((u8)32ULL), ((u8)38ULL), ((u8)38ULL), ((u8)32ULL), ((u8)40ULL), ((u8)117ULL), ((u8)105ULL), ((u8)110ULL), ((u8)116ULL), ((u8)56ULL), ((u8)95ULL), ((u8)116ULL), ((u8)41ULL), ((u8)112ULL), ((u8)105ULL), ((u8)46ULL), ((u8)101ULL), ((u8)110ULL), ((u8)116ULL), ((u8)105ULL), ((u8)116ULL), ((u8)121ULL), ((u8)95ULL), ((u8)116ULL), ((u8)121ULL), ((u8)112ULL), ((u8)101ULL), ((u8)32ULL), ((u8)61ULL), ((u8)61ULL), ((u8)32ULL), ((u8)98ULL), ((u8)121ULL), ((u8)116ULL), ((u8)101ULL), ((u8)115ULL), ((u8)91ULL), ((u8)48ULL), ((u8)93ULL), ((u8)32ULL), ((u8)38ULL), ((u8)38ULL), ((u8)32ULL), ((u8)112ULL), ((u8)105ULL), ((u8)46ULL), ((u8)110ULL), ((u8)97ULL), ((u8)109ULL), ((u8)101ULL), ((u8)46ULL), ((u8)115ULL), ((u8)105ULL), ((u8)122ULL), ((u8)101ULL), ((u8)40ULL), ((u8)41ULL), ((u8)32ULL), ((u8)61ULL), ((u8)61ULL), ((u8)32ULL), ((u8)108ULL), ((u8)48ULL), ((u8)32ULL), ((u8)38ULL), ((u8)38ULL), ((u8)32ULL), ((u8)112ULL), ((u8)105ULL), ((u8)46ULL), ((u8)100ULL), ((u8)97ULL), ((u8)116ULL), ((u8)97ULL), ((u8)95ULL), ((u8)116ULL), ((u8)121ULL), ((u8)112ULL), ((u8)101ULL), ((u8)95ULL), ((u8)110ULL), ((u8)97ULL), ((u8)109ULL), ((u8)101ULL), ((u8)46ULL), ((u8)115ULL), ((u8)105ULL), ((u8)122ULL), ((u8)101ULL), ((u8)40ULL), ((u8)41ULL), ((u8)32ULL), ((u8)61ULL), ((u8)61ULL), ((u8)32ULL), ((u8)108ULL), ((u8)49ULL), ((u8)32ULL), ((u8)38ULL), ((u8)38ULL), ((u8)32ULL), ((u8)112ULL), ((u8)105ULL), ((u8)46ULL), ((u8)115ULL), ((u8)101ULL), ((u8)114ULL), ((u8)105ULL), ((u8)97ULL), ((u8)108ULL), ((u8)105ULL), ((u8)122ULL), ((u8)101ULL), ((u8)100ULL), ((u8)95ULL), ((u8)100ULL), ((u8)101ULL), ((u8)102ULL), ((u8)97ULL), ((u8)117ULL), ((u8)108ULL), ((u8)116ULL), ((u8)46ULL), ((u8)115ULL), ((u8)105ULL), ((u8)122ULL), ((u8)101ULL), ((u8)40ULL), ((u8)41ULL), ((u8)32ULL), ((u8)61ULL), ((u8)61ULL), ((u8)32ULL), ((u8)108ULL), ((u8)50ULL), ((u8)32ULL), ((u8)38ULL), ((u8)38ULL), ((u8)32ULL), ((u8)100ULL), ((u8)101ULL), ((u8)99ULL), ((u8)46ULL), ((u8)112ULL), ((u8)111ULL), ((u8)115ULL), ((u8)40ULL), ((u8)41ULL), ((u8)32ULL), ((u8)61ULL), ((u8)61ULL), ((u8)32ULL), ((u8)112ULL), ((u8)111ULL), ((u8)115ULL), ((u8)32ULL), ((u8)64ULL), ((u8)47ULL), ((u8)118ULL), ((u8)101ULL), ((u8)114ULL), ((u8)105ULL), ((u8)102ULL), ((u8)47ULL), ((u8)104ULL), ((u8)97ULL), ((u8)114ULL), ((u8)110ULL), ((u8)101ULL), ((u8)115ULL), ((u8)115ULL), ((u8)47ULL), ((u8)67ULL), ((u8)48ULL), ((u8)55ULL), ((u8)95ULL), ((u8)100ULL), ((u8)101ULL), ((u8)99ULL), ((u8)111ULL), ((u8)100ULL), ((u8)101ULL), ((u8)114ULL), ((u8)46ULL), ((u8)99ULL), ((u8)112ULL), ((u8)112ULL), ((u8)58ULL), ((u8)50ULL), ((u8)53ULL), ((u8)53ULL), ((u8)0ULL)}};
struct A6 _str_91 = {{((u8)40ULL), ((u8)117ULL), ((u8)105ULL), ((u8)110ULL), ((u8)116ULL), ((u8)56ULL), ((u8)95ULL), ((u8)116ULL), ((u8)41ULL), ((u8)112ULL), ((u8)105ULL), ((u8)46ULL), ((u8)110ULL), ((u8)97ULL), ((u8)109ULL), ((u8)101ULL), ((u8)91ULL), ((u8)107ULL), ((u8)93ULL), ((u8)32ULL), ((u8)61ULL), ((u8)61ULL), ((u8)32ULL), ((u8)98ULL), ((u8)121ULL), ((u8)116ULL), ((u8)101ULL), ((u8)115ULL), ((u8)91ULL), ((u8)53ULL), ((u8)32ULL), ((u8)43ULL), ((u8)32ULL), ((u8)107ULL), ((u8)93ULL), ((u8)32ULL), ((u8)64ULL), ((u8)47ULL), ((u8)118ULL), ((u8)101ULL), ((u8)114ULL), ((u8)105ULL), ((u8)102ULL), ((u8)47ULL), ((u8)104ULL), ((u8)97ULL), ((u8)114ULL), ((u8)110ULL), ((u8)101ULL), ((u8)115ULL), ((u8)115ULL), ((u8)47ULL), ((u8)67ULL), ((u8)48ULL), ((u8)55ULL), ((u8)95ULL), ((u8)100ULL), ((u8)101ULL), ((u8)99ULL), ((u8)111ULL), ((u8)100ULL), ((u8)101ULL), ((u8)114ULL), ((u8)46ULL), ((u8)99ULL), ((u8)112ULL), ((u8)112ULL), ((u8)58ULL), ((u8)50ULL), ((u8)53ULL), ((u8)55ULL), ((u8)0ULL)}};
struct A7 _str_92 = {{((u8)40ULL), ((u8)117ULL), ((u8)105ULL), ((u8)110ULL), ((u8)116ULL), ((u8)56ULL), ((u8)95ULL), ((u8)116ULL), ((u8)41ULL), ((u8)112ULL), ((u8)105ULL), ((u8)46ULL), ((u8)100ULL), ((u8)97ULL), ((u8)116ULL), ((u8)97ULL), ((u8)95ULL), ((u8)116ULL), ((u8)121ULL), ((u8)112ULL), ((u8)101ULL), ((u8)95ULL), ((u8)110ULL), ((u8)97ULL), ((u8)109ULL), ((u8)101ULL), ((u8)91ULL), ((u8)107ULL), ((u8)93ULL), ((u8)32ULL), ((u8)61ULL), ((u8)61ULL), ((u8)32ULL), ((u8)98ULL), ((u8)121ULL), ((u8)116ULL), ((u8)101ULL), ((u8)115ULL), ((u8)91ULL), ((u8)57ULL), ((u8)32ULL), ((u8)43ULL), ((u8)32ULL), ((u8)108ULL), ((u8)48ULL), ((u8)32ULL), ((u8)43ULL), ((u8)32ULL), ((u8)107ULL), ((u8)93ULL), ((u8)32ULL), ((u8)64ULL), ((u8)47ULL), ((u8)118ULL), ((u8)101ULL), ((u8)114ULL), ((u8)105ULL), ((u8)102ULL), ((u8)47ULL), ((u8)104ULL), ((u8)97ULL), ((u8)114ULL), ((u8)110ULL), ((u8)101ULL), ((u8)115ULL), ((u8)115ULL), ((u8)47ULL), ((u8)67ULL), ((u8)48ULL), ((u8)55ULL), ((u8)95ULL), ((u8)100ULL), ((u8)101ULL), ((u8)99ULL), ((u8)111ULL), ((u8)100ULL), ((u8)101ULL), ((u8)114ULL), ((u8)46ULL), ((u8)99ULL), ((u8)112ULL), ((u8)112ULL), ((u8)58ULL), ((u8)50ULL), ((u8)53ULL), ((u8)56ULL), ((u8)0ULL)}};
struct A8 _str_93 = {{((u8)112ULL), ((u8)105ULL), ((u8)46ULL), ((u8)115ULL), ((u8)101ULL), ((u8)114ULL), ((u8)105ULL), ((u8)97ULL), ((u8)108ULL), ((u8)105ULL), ((u8)122ULL), ((u8)101ULL), ((u8)100ULL), ((u8)95ULL), ((u8)100ULL), ((u8)101ULL), ((u8)102ULL), ((u8)97ULL), ((u8)117ULL), ((u8)108ULL), ((u8)116ULL), ((u8)91ULL), ((u8)107ULL), ((u8)93ULL), ((u8)32ULL), ((u8)61ULL), ((u8)61ULL), ((u8)32ULL), ((u8)98ULL), ((u8)121ULL), ((u8)116ULL), ((u8)101ULL), ((u8)115ULL), ((u8)91ULL), ((u8)49ULL), ((u8)51ULL), ((u8)32ULL), ((u8)43ULL), ((u8)32ULL), ((u8)108ULL), ((u8)48ULL), ((u8)32ULL), ((u8)43ULL), ((u8)32ULL), ((u8)108ULL), ((u8)49ULL), ((u8)32ULL), ((u8)43ULL), ((u8)32ULL), ((u8)107ULL), ((u8)93ULL), ((u8)32ULL), ((u8)64ULL), ((u8)47ULL), ((u8)118ULL), ((u8)101ULL), ((u8)114ULL), ((u8)105ULL), ((u8)102ULL), ((u8)47ULL), ((u8)104ULL), ((u8)97ULL), ((u8)114ULL), ((u8)110ULL), ((u8)101ULL), ((u8)115ULL), ((u8)115ULL), ((u8)47ULL), ((u8)67ULL), ((u8)48ULL), ((u8)55ULL), ((u8)95ULL), ((u8)100ULL), ((u8)101ULL), ((u8)99ULL), ((u8)111ULL), ((u8)100ULL), ((u8)101ULL), ((u8)114ULL), ((u8)46ULL), ((u8)99ULL), ((u8)112ULL), ((u8)112ULL), ((u8)58ULL), ((u8)50ULL), ((u8)53ULL), ((u8)57ULL), ((u8)0ULL)}};
struct A9 _str_94 = {{((u8)112ULL), ((u8)114ULL), ((u8)111ULL), ((u8)112ULL), ((u8)101ULL), ((u8)114ULL), ((u8)116ULL), ((u8)121ULL), ((u8)32ULL), ((u8)105ULL), ((u8)110ULL), ((u8)102ULL), ((u8)111ULL), ((u8)58ULL), ((u8)32ULL), ((u8)97ULL), ((u8)99ULL), ((u8)99ULL), ((u8)101ULL), ((u8)112ULL), ((u8)116ULL), ((u8)101ULL), ((u8)100ULL), ((u8)0ULL)}};
struct S0_class_std__ios_base__Init _ZStL8__ioinit = {0};
struct A10 _str_5 = {{((u8)114ULL), ((u8)101ULL), ((u8)97ULL), ((u8)100ULL), ((u8)32ULL), ((u8)98ULL), ((u8)101ULL), ((u8)121ULL), ((u8)111ULL), ((u8)110ULL), ((u8)100ULL), ((u8)32ULL), ((u8)98ULL), ((u8)117ULL), ((u8)102ULL), ((u8)102ULL), ((u8)101ULL), ((u8)114ULL), ((u8)0ULL)}};
struct A10 _str_59 = {{((u8)73ULL), ((u8)110ULL), ((u8)118ULL), ((u8)97ULL), ((u8)108ULL), ((u8)105ULL), ((u8)100ULL), ((u8)32ULL), ((u8)101ULL), ((u8)110ULL), ((u8)117ULL), ((u8)109ULL), ((u8)32ULL), ((u8)118ULL), ((u8)97ULL), ((u8)108ULL), ((u8)117ULL), ((u8)101ULL), ((u8)0ULL)}};
struct A11 _ZTSN14OpenVolumeMesh2IO6detail11parse_errorE = {{((u8)78ULL), ((u8)49ULL), ((u8)52ULL), ((u8)79ULL), ((u8)112ULL), ((u8)101ULL), ((u8)110ULL), ((u8)86ULL), ((u8)111ULL), ((u8)108ULL), ((u8)117ULL), ((u8)109ULL), ((u8)101ULL), ((u8)77ULL), ((u8)101ULL), ((u8)115ULL), ((u8)104ULL), ((u8)50ULL), ((u8)73ULL), ((u8)79ULL), ((u8)54ULL), ((u8)100ULL), ((u8)101ULL), ((u8)116ULL), ((u8)97ULL), ((u8)105ULL), ((u8)108ULL), ((u8)49ULL), ((u8)49ULL), ((u8)112ULL), ((u8)97ULL), ((u8)114ULL), ((u8)115ULL), ((u8)101ULL), ((u8)95ULL), ((u8)101ULL), ((u8)114ULL), ((u8)114ULL), ((u8)111ULL), ((u8)114ULL), ((u8)69ULL), ((u8)0ULL)}};
struct S1 _ZTIN14OpenVolumeMesh2IO6detail11parse_errorE = {((u8*)((u8**)((&_ZTVN10__cxxabiv120__si_class_type_infoE) + (s64)((s64)((u64)2ULL))))), ((u8*)(&(*(&_ZTSN14OpenVolumeMesh2IO6detail11parse_errorE)).e[(s64)((s32)((u32)0ULL))])), ((u8*)(&_ZTIN14OpenVolumeMesh2IO6detail8io_errorE))};
u64 _ZN14OpenVolumeMesh2IO6detail9ovmb_sizeINS1_10FileHeaderEEE = ((u64)0ULL);
u64 _ZN14OpenVolumeMesh2IO6detail9ovmb_sizeINS1_9ArraySpanEEE = ((u64)12ULL);
u64 _ZN14OpenVolumeMesh2IO6detail9ovmb_sizeINS1_11ChunkHeaderEEE = ((u64)0ULL);
u64 _ZN14OpenVolumeMesh2IO6detail9ovmb_sizeINS1_15PropChunkHeaderEEE = ((u64)0ULL);
u64 _ZN14OpenVolumeMesh2IO6detail9ovmb_sizeINS1_17VertexChunkHeaderEEE = ((u64)0ULL);
u64 _ZN14OpenVolumeMesh2IO6detail9ovmb_sizeINS1_15TopoChunkHeaderEEE = ((u64)0ULL);
struct S2 _ZTVN14OpenVolumeMesh2IO6detail11parse_errorE = {{{((u8*)0), ((u8*)(&_ZTIN14OpenVolumeMesh2IO6detail11parse_errorE)), ((u8*)((fnptr_t)_ZNSt13runtime_errorD2Ev)), ((u8*)((fnptr_t)_ZN14OpenVolumeMesh2IO6detail11parse_errorD0Ev)), ((u8*)((fnptr_t)_ZNKSt13runtime_error4whatEv))}}};
u64 _ZGVN14OpenVolumeMesh2IO6detail9ovmb_sizeINS1_10FileHeaderEEE = ((u64)0ULL);
u64 _ZN14OpenVolumeMesh2IO6detail9ovmb_sizeINS1_8TopoTypeEEE = ((u64)1ULL);
u64 _ZGVN14OpenVolumeMesh2IO6detail9ovmb_sizeINS1_11ChunkHeaderEEE = ((u64)0ULL);
u64 _ZN14OpenVolumeMesh2IO6detail9ovmb_sizeINS1_9ChunkTypeEEE = ((u64)4ULL);
u64 _ZN14OpenVolumeMesh2IO6detail9ovmb_sizeINS1_10ChunkFlagsEEE = ((u64)1ULL);
u64 _ZGVN14OpenVolumeMesh2IO6detail9ovmb_sizeINS1_15PropChunkHeaderEEE = ((u64)0ULL);
u64 _ZGVN14OpenVolumeMesh2IO6detail9ovmb_sizeINS1_17VertexChunkHeaderEEE = ((u64)0ULL);
u64 _ZGVN14OpenVolumeMesh2IO6detail9ovmb_sizeINS1_15TopoChunkHeaderEEE = ((u64)0ULL);
u64 _ZN14OpenVolumeMesh2IO6detail9ovmb_sizeINS1_10TopoEntityEEE = ((u64)1ULL);
u64 _ZN14OpenVolumeMesh2IO6detail9ovmb_sizeINS1_11IntEncodingEEE = ((u64)1ULL);
struct S0_class_std__ios_base__Init _ZStL8__ioinit_94 = {0};
struct A12 _ZTSN14OpenVolumeMesh2IO6detail8io_errorE = {{((u8)78ULL), ((u8)49ULL), ((u8)52ULL), ((u8)79ULL), ((u8)112ULL), ((u8)101ULL), ((u8)110ULL), ((u8)86ULL), ((u8)111ULL), ((u8)108ULL), ((u8)117ULL), ((u8)109ULL), ((u8)101ULL), ((u8)77ULL), ((u8)101ULL), ((u8)115ULL), ((u8)104ULL), ((u8)50ULL), ((u8)73ULL), ((u8)79ULL), ((u8)54ULL), ((u8)100ULL), ((u8)101ULL), ((u8)116ULL), ((u8)97ULL), ((u8)105ULL), ((u8)108ULL), ((u8)56ULL), ((u8)105ULL), ((u8)111ULL), ((u8)95ULL), ((u8)101ULL), ((u8)114ULL), ((u8)114ULL), ((u8)111ULL), ((u8)114ULL), ((u8)69ULL), ((u8)0ULL)}};
struct S1 _ZTIN14OpenVolumeMesh2IO6detail8io_errorE = {((u8*)((u8**)((&_ZTVN10__cxxabiv120__si_class_type_infoE) + (s64)((s64)((u64)2ULL))))), ((u8*)(&(*(&_ZTSN14OpenVolumeMesh2IO6detail8io_errorE)).e[(s64)((s32)((u32)0ULL))])), ((u8*)(&_ZTISt13runtime_error))};
struct S0_class_std__ios_base__Init _ZStL8__ioinit_107 = {0};
void _ZN14OpenVolumeMesh2IO6detail11parse_errorD0Ev(struct S4_class_OpenVolumeMesh__IO__detail__parse_* a0) {
  struct S3_class_std__runtime_error* v0;
  u8* v1;
L0: ;
  v0 = (struct S3_class_std__runtime_error*)(&(*a0).f0.f0);
  _ZNSt13runtime_errorD2Ev(v0);
  v1 = (u8*)a0;
  _ZdlPv(v1);
  return;
}

void _ZNSt6vectorIhSaIhEE17_M_default_appendEm(struct S5_class_std__vector* a0, u64 a1) {
  u1 v0;
  u8** v1;
  u8* v2;
  u8** v3;
  u8* v4;
  u64 v5;
  u64 v6;
  u64 v7;
  u8** v8;
  u8* v9;
  u64 v10;
  u64 v11;
  u1 v12;
  u64 v13;
  u1 v14;
  u1 v15;
  u8* v16;
  u64 v17;
  u1 v18;
  u8* v19;
  u8* v20; u8* v20_t;
  u1 v21;
  u1 v22;
  u64 v23;
  u64 v24;
  u1 v25;
  u1 v26;
  u1 v27;
  u64 v28;
  u1 v29;
  u1 v30;
  u8* v31;
  u8* v32; u8* v32_t;
  u8* v33;
  u64 v34;
  u1 v35;
  u8* v36;
  u1 v37;
  u1 v38;
  u8* v39;
  u8* v40;
L0: ;
  v0 = (a1 == ((u64)0ULL));
  if (v0) {
    goto L18;
  } else {
    goto L1;
  }
L1: ;
  v1 = (u8**)(&(*a0).f0.f0.f0.f1);
  v2 = *v1;
  v3 = (u8**)(&(*a0).f0.f0.f0.f0);
  v4 = *v3;
  v5 = ((u64)((u64)v2));
  v6 = ((u64)((u64)v4));
  v7 = v_pdiff((u8*)v2, (u8*)v4);
  v8 = (u8**)(&(*a0).f0.f0.f0.f2);
  v9 = *v8;
  v10 = ((u64)((u64)v9));
  v11 = v_pdiff((u8*)v9, (u8*)v2);
  v12 = (((s64)v7) > ((s64)((u64)18446744073709551615ULL)));
  v13 = ((u64)(v7 ^ ((u64)9223372036854775807ULL)));
  v14 = (v11 <= v13);
  v15 = (v11 < a1);
  if (v15) {
    goto L5;
  } else {
    goto L2;
  }
L2: ;
  *v2 = ((u8)0ULL);
  v16 = (u8*)(v2 + (s64)((s64)((u64)1ULL)));
  v17 = ((u64)(a1 + ((u64)18446744073709551615ULL)));
  v18 = (v17 == ((u64)0ULL));
  if (v18) {
    v20 = v16;
    goto L4;
  } else {
    goto L3;
  }
L3: ;
  v19 = (u8*)(v2 + (s64)((s64)a1));
  v_memset((u8*)v16, ((u8)0ULL), (u64)v17);
  v20 = v19;
  goto L4;
L4: ;
  *v1 = v20;
  goto L18;
L5: ;
  v21 = (v13 < a1);
  if (v21) {
    goto L6;
  } else {
    goto L7;
  }
L6: ;
  _ZSt20__throw_length_errorPKc(((u8*)(&(*(&_str_74)).e[(s64)((s64)((u64)0ULL))])));
  if (v_exc) return;
  __CPROVER_assume(0);
L7: ;
  v22 = (v7 < a1);
  v23 = (v22 ? a1 : v7);
  v24 = ((u64)(v23 + v7));
  v25 = (v24 < v7);
  v26 = (((s64)v24) < ((s64)((u64)0ULL)));
  v27 = ((u1)((v25 | v26)&1));
  v28 = (v27 ? ((u64)9223372036854775807ULL) : v24);
  v29 = (v28 == ((u64)0ULL));
  if (v29) {
    v32 = ((u8*)0);
    goto L11;
  } else {
    goto L8;
  }
L8: ;
  v30 = (((s64)v28) < ((s64)((u64)0ULL)));
  if (v30) {
    goto L9;
  } else {
    goto L10;
  }
L9: ;
  _ZSt17__throw_bad_allocv();
  if (v_exc) return;
  __CPROVER_assume(0);
L10: ;
  v31 = _Znwm(v28);
  if (v_exc) return;
  v32 = v31;
  goto L11;
L11: ;
  v33 = (u8*)(v32 + (s64)((s64)v7));
  *v33 = ((u8)0ULL);
  v34 = ((u64)(a1 + ((u64)18446744073709551615ULL)));
  v35 = (v34 == ((u64)0ULL));
  if (v35) {
    goto L13;
  } else {
    goto L12;
  }
L12: ;
  v36 = (u8*)(v33 + (s64)((s64)((u64)1ULL)));
  v_memset((u8*)v36, ((u8)0ULL), (u64)v34);
  goto L13;
L13: ;
  v37 = (((s64)v7) > ((s64)((u64)0ULL)));
  if (v37) {
    goto L14;
  } else {
    goto L15;
  }
L14: ;
  v_memmove((u8*)v32, (u8*)v4, (u64)v7);
  goto L15;
L15: ;
  v38 = ((u8*)v4 == (u8*)((u8*)0));
  if (v38) {
    goto L17;
  } else {
    goto L16;
  }
L16: ;
  _ZdlPv(v4);
  goto L17;
L17: ;
  *v3 = v32;
  v39 = (u8*)(v33 + (s64)((s64)a1));
  *v1 = v39;
  v40 = (u8*)(v32 + (s64)((s64)v28));
  *v8 = v40;
  goto L18;
L18: ;
  return;
}

void harness_property_info(void) {
  v_run_static_init();
  u32 v0;
  u1 v1;
  u32 v2;
  u32 v3;
  u32 v4;
  u1 v5;
  u1 v6;
  u64 v7; u64 v7_t;
  u8 v8;
  u8* v9;
  u64 v10;
  u1 v11;
L0: ;
  v7 = ((u64)0ULL);
  goto L4;
L1: ;
  v0 = v_nondet_u32();
  if (v_exc) return;
  v1 = (v0 == ((u32)0ULL));
  __CPROVER_assume(v1);
  v2 = v_param(((u32)0ULL));
  if (v_exc) return;
  v3 = ((u32)(v0 + ((u32)14ULL)));
  v4 = ((u32)(v3 + v2));
  v5 = (v4 < ((u32)25ULL));
  __CPROVER_assume(v5);
  v6 = (v0 == ((u32)0ULL));
  if (v6) {
    goto L2;
  } else {
    goto L3;
  }
L2: ;
  _ZN18Case_property_infoILj0EE3runEv();
  if (v_exc) return;
  goto L3;
L3: ;
  return;
L4: ;
  v8 = v_nondet_u8();
  if (v_exc) return;
  v9 = (u8*)(&(*(&_ZL5g_raw)).e[(s64)((s64)v7)]);
  (*(&_ZL5g_raw)).e[(s64)((s64)v7)] = v8;
  v10 = ((u64)(v7 + ((u64)1ULL)));
  v11 = (v10 == ((u64)24ULL));
  if (v11) {
    goto L1;
  } else {
    v7 = v10;
    goto L4;
  }
}

void _ZN18Case_property_infoILj0EE3runEv(void) {
  struct S6_class_OpenVolumeMesh__IO__detail__Decode* v0; struct S6_class_OpenVolumeMesh__IO__detail__Decode v0_m;
  struct S7_struct_OpenVolumeMesh__IO__detail__Prope* v1; struct S7_struct_OpenVolumeMesh__IO__detail__Prope v1_m;
  u32 v2;
  u32 v3;
  u1 v4;
  u64 v5;
  u1 v6;
  u8* v7;
  u8* v8; u8* v8_t;
  u8* v9;
  u8* v10;
  u8** v11;
  u8** v12;
  u8** v13;
  u8** v14;
  u8** v15;
  u8* v16;
  struct S8_class_std____cxx11__basic_string* v17;
  struct S9_union_anon* v18;
  struct S9_union_anon** v19;
  u64* v20;
  u8* v21;
  struct S8_class_std____cxx11__basic_string* v22;
  struct S9_union_anon* v23;
  struct S9_union_anon** v24;
  u64* v25;
  u8* v26;
  struct S5_class_std__vector* v27;
  u8* v28;
  struct S10 v29;
  u8* v30;
  u32 v31;
  u32 v32;
  u1 v33;
  u8* v34;
  u1 v35; u1 v35_t;
  u1 v36; u1 v36_t;
  u1 v37; u1 v37_t;
  u1 v38;
  u8 v39;
  u1 v40;
  u1 v41;
  u64 v42; u64 v42_t;
  u64 v43; u64 v43_t;
  u1 v44;
  u64 v45;
  u8* v46;
  u8 v47;
  u64 v48;
  u64 v49;
  u64 v50;
  u64 v51;
  u64 v52; u64 v52_t;
  u64 v53;
  u1 v54;
  u64 v55;
  u1 v56;
  u64 v57;
  u64 v58;
  struct S10 v59;
  struct S10 v60;
  u1 v61; u1 v61_t;
  u64 v62; u64 v62_t;
  u64 v63; u64 v63_t;
  u64 v64;
  u1 v65;
  u64 v66; u64 v66_t;
  u64 v67; u64 v67_t;
  u1 v68;
  u64 v69;
  u64 v70;
  u8* v71;
  u8 v72;
  u64 v73;
  u64 v74;
  u64 v75;
  u64 v76;
  u64 v77; u64 v77_t;
  u64 v78;
  u1 v79;
  u64 v80;
  u64 v81;
  u1 v82;
  u64 v83;
  u64 v84;
  u1 v85; u1 v85_t;
  u64 v86; u64 v86_t;
  u64 v87; u64 v87_t;
  u64 v88;
  u1 v89;
  u64 v90; u64 v90_t;
  u64 v91; u64 v91_t;
  u1 v92;
  u64 v93;
  u64 v94;
  u8* v95;
  u8 v96;
  u64 v97;
  u64 v98;
  u64 v99;
  u64 v100;
  u64 v101; u64 v101_t;
  u64 v102;
  u1 v103;
  u64 v104;
  u64 v105;
  u1 v106;
  u64 v107;
  u64 v108;
  u1 v109; u1 v109_t;
  u64 v110; u64 v110_t;
  u64 v111; u64 v111_t;
  struct S10 v112;
  u8 v113;
  u1 v114;
  u1 v115;
  u64 v116;
  u1 v117;
  u1 v118;
  u64 v119;
  u1 v120;
  u1 v121;
  u8** v122;
  u8* v123;
  u8** v124;
  u8* v125;
  u64 v126;
  u64 v127;
  u64 v128;
  u1 v129;
  u8* v130;
  u8* v131;
  u64 v132;
  u64 v133;
  u64 v134;
  u1 v135;
  u1 v136; u1 v136_t;
  u32 v137;
  u1 v138;
  u64 v139;
  u1 v140;
  u8** v141;
  u8* v142;
  u8* v143;
  u8 v144;
  u32 v145;
  u64 v146;
  u8* v147;
  u8 v148;
  u1 v149;
  struct S10 v150;
  u1 v151;
  u8** v152;
  u8* v153;
  u8* v154;
  u8 v155;
  u64 v156;
  u64 v157;
  u8* v158;
  u8 v159;
  u1 v160;
  u1 v161;
  u8** v162;
  u8* v163;
  u8* v164;
  u8 v165;
  u64 v166;
  u64 v167;
  u64 v168;
  u8* v169;
  u8 v170;
  u1 v171;
  u8** v172;
  u8* v173;
  u1 v174;
  u8** v175;
  u8* v176;
  u1 v177;
  u8** v178;
  u8* v179;
  u1 v180;
  u8* v181;
  u1 v182;
  struct S10 v183; struct S10 v183_t;
  u8** v184;
  u8* v185;
  u1 v186;
  u8** v187;
  u8* v188;
  u1 v189;
  u8** v190;
  u8* v191;
  u1 v192;
  u8* v193;
  u1 v194;
L0: ;
  v0 = &v0_m;
  v1 = &v1_m;
  v2 = v_param(((u32)0ULL));
  if (v_exc) return;
  v3 = ((u32)(v2 + ((u32)14ULL)));
  v4 = (v3 < ((u32)25ULL));
  if (v4) {
    goto L1;
  } else {
    goto L65;
  }
L1: ;
  v5 = ((u64)(v3));
  v6 = (v3 == ((u32)0ULL));
  if (v6) {
    v8 = ((u8*)0);
    goto L3;
  } else {
    goto L2;
  }
L2: ;
  v7 = _Znwm(v5);
  if (v_exc) return;
  v8 = v7;
  goto L3;
L3: ;
  v9 = (u8*)(v8 + (s64)((s64)v5));
  if (v6) {
    goto L5;
  } else {
    goto L4;
  }
L4: ;
  v_memcpy((u8*)v8, (u8*)((u8*)(&(*(&_ZL5g_raw)).e[(s64)((s64)((u64)0ULL))])), (u64)v5);
  goto L5;
L5: ;
  v10 = (u8*)v0;
  v11 = (u8**)(&(*v0).f0.f0.f0.f0.f0);
  *v11 = v8;
  v12 = (u8**)(&(*v0).f0.f0.f0.f0.f1);
  *v12 = v9;
  v13 = (u8**)(&(*v0).f0.f0.f0.f0.f2);
  *v13 = v9;
  v14 = (u8**)(&(*v0).f1);
  *v14 = v8;
  v15 = (u8**)(&(*v0).f2);
  *v15 = v9;
  v16 = (u8*)(&(*v1).f0);
  v17 = (struct S8_class_std____cxx11__basic_string*)(&(*v1).f1);
  v18 = (struct S9_union_anon*)(&(*v1).f1.f2);
  v19 = (struct S9_union_anon**)&(*v1).f1.f0.f0;
  *v19 = v18;
  v20 = (u64*)(&(*v1).f1.f1);
  *v20 = ((u64)0ULL);
  v21 = (u8*)v18;
  *v21 = ((u8)0ULL);
  v22 = (struct S8_class_std____cxx11__basic_string*)(&(*v1).f2);
  v23 = (struct S9_union_anon*)(&(*v1).f2.f2);
  v24 = (struct S9_union_anon**)&(*v1).f2.f0.f0;
  *v24 = v23;
  v25 = (u64*)(&(*v1).f2.f1);
  *v25 = ((u64)0ULL);
  v26 = (u8*)v23;
  *v26 = ((u8)0ULL);
  v27 = (struct S5_class_std__vector*)(&(*v1).f3);
  v28 = (u8*)v27;
  (*v1).f3.f0.f0.f0.f0 = (u8*)0;
  (*v1).f3.f0.f0.f0.f1 = (u8*)0;
  (*v1).f3.f0.f0.f0.f2 = (u8*)0;
  _ZN14OpenVolumeMesh2IO6detail4readERNS1_7DecoderERNS1_12PropertyInfoE(v0, v1);
  if (v_exc) {
    goto L6;
  }
  v35_t = ((u1)1ULL);
  v36_t = ((u1)0ULL);
  v37_t = ((u1)1ULL);
  v35 = v35_t;
  v36 = v36_t;
  v37 = v37_t;
  goto L8;
L6: ;
  v29.f0 = v_exc_obj;
  v29.f1 = 0;
  if (v29.f1 == 0 && v_exc_match((u8*)((u8*)(&_ZTIN14OpenVolumeMesh2IO6detail11parse_errorE)))) v29.f1 = 1;
  if (v29.f1 == 0) v29.f1 = 9999;
  if (v29.f1 == 0) return;
  v_exc = 0;
  v30 = v29.f0;
  v31 = v29.f1;
  v32 = 1;
  v33 = (v31 == v32);
  v34 = __cxa_begin_catch(v30);
  if (v33) {
    goto L7;
  } else {
    goto L14;
  }
L7: ;
  __cxa_end_catch();
  if (v_exc) {
    goto L16;
  }
  v35_t = ((u1)1ULL);
  v36_t = ((u1)1ULL);
  v37_t = ((u1)0ULL);
  v35 = v35_t;
  v36 = v36_t;
  v37 = v37_t;
  goto L8;
L8: ;
  __CPROVER_assert(v35, "out != OTHER @/verif/harness/C07_decoder.cpp:243 [_ZN18Case_property_infoILj0EE3runEv]");
  if (v_exc) {
    goto L15;
  }
  goto L9;
L9: ;
  v38 = (v3 > ((u32)12ULL));
  v39 = *((u8*)(&(*(&_ZL5g_raw)).e[(s64)((s64)((u64)0ULL))]));
  v40 = (v39 < ((u8)7ULL));
  v41 = (v38 ? v40 : ((u1)0ULL));
  if (v41) {
    v42_t = ((u64)0ULL);
    v43_t = ((u64)0ULL);
    v42 = v42_t;
    v43 = v43_t;
    goto L10;
  } else {
    v61_t = v41;
    v62_t = ((u64)1ULL);
    v63_t = ((u64)0ULL);
    v61 = v61_t;
    v62 = v62_t;
    v63 = v63_t;
    goto L17;
  }
L10: ;
  v44 = (v42 < ((u64)4ULL));
  if (v44) {
    goto L11;
  } else {
    v52 = v43;
    goto L12;
  }
L11: ;
  v45 = ((u64)(v42 + ((u64)1ULL)));
  v46 = (u8*)(&(*(&_ZL5g_raw)).e[(s64)((s64)v45)]);
  v47 = (*(&_ZL5g_raw)).e[(s64)((s64)v45)];
  v48 = ((u64)(v47));
  v49 = ((u64)(v42 << ((u64)3ULL)));
  v50 = ((u64)(v48 << v49));
  v51 = ((u64)(v50 | v43));
  v52 = v51;
  goto L12;
L12: ;
  v53 = ((u64)(v42 + ((u64)1ULL)));
  v54 = (v53 == ((u64)8ULL));
  if (v54) {
    goto L13;
  } else {
    v42_t = v53;
    v43_t = v52;
    v42 = v42_t;
    v43 = v43_t;
    goto L10;
  }
L13: ;
  v55 = ((u64)(v5 + ((u64)18446744073709551611ULL)));
  v56 = (v52 <= v55);
  v57 = ((u64)(v52 + ((u64)5ULL)));
  v58 = (v56 ? v57 : ((u64)5ULL));
  v61_t = v56;
  v62_t = v58;
  v63_t = v52;
  v61 = v61_t;
  v62 = v62_t;
  v63 = v63_t;
  goto L17;
L14: ;
  __cxa_end_catch();
  if (v_exc) {
    goto L15;
  }
  v35_t = ((u1)0ULL);
  v36_t = ((u1)0ULL);
  v37_t = ((u1)0ULL);
  v35 = v35_t;
  v36 = v36_t;
  v37 = v37_t;
  goto L8;
L15: ;
  v59.f0 = v_exc_obj;
  v59.f1 = 0;
  v_exc = 0;
  v183 = v59;
  goto L55;
L16: ;
  v60.f0 = v_exc_obj;
  v60.f1 = 0;
  v_exc = 0;
  v183 = v60;
  goto L55;
L17: ;
  if (v61) {
    goto L18;
  } else {
    v85_t = v61;
    v86_t = v62;
    v87_t = ((u64)0ULL);
    v85 = v85_t;
    v86 = v86_t;
    v87 = v87_t;
    goto L23;
  }
L18: ;
  v64 = ((u64)(v5 - v62));
  v65 = (v64 > ((u64)3ULL));
  if (v65) {
    v66_t = ((u64)0ULL);
    v67_t = ((u64)0ULL);
    v66 = v66_t;
    v67 = v67_t;
    goto L19;
  } else {
    v85_t = v65;
    v86_t = v62;
    v87_t = ((u64)0ULL);
    v85 = v85_t;
    v86 = v86_t;
    v87 = v87_t;
    goto L23;
  }
L19: ;
  v68 = (v66 < ((u64)4ULL));
  if (v68) {
    goto L20;
  } else {
    v77 = v67;
    goto L21;
  }
L20: ;
  v69 = ((u64)(v66 + v62));
  v70 = ((u64)(v69 & ((u64)4294967295ULL)));
  v71 = (u8*)(&(*(&_ZL5g_raw)).e[(s64)((s64)v70)]);
  v72 = (*(&_ZL5g_raw)).e[(s64)((s64)v70)];
  v73 = ((u64)(v72));
  v74 = ((u64)(v66 << ((u64)3ULL)));
  v75 = ((u64)(v73 << v74));
  v76 = ((u64)(v75 | v67));
  v77 = v76;
  goto L21;
L21: ;
  v78 = ((u64)(v66 + ((u64)1ULL)));
  v79 = (v78 == ((u64)8ULL));
  if (v79) {
    goto L22;
  } else {
    v66_t = v78;
    v67_t = v77;
    v66 = v66_t;
    v67 = v67_t;
    goto L19;
  }
L22: ;
  v80 = ((u64)(v62 + ((u64)4ULL)));
  v81 = ((u64)(v5 - v80));
  v82 = (v77 <= v81);
  v83 = (v82 ? v77 : ((u64)0ULL));
  v84 = ((u64)(v83 + v80));
  v85_t = v82;
  v86_t = v84;
  v87_t = v77;
  v85 = v85_t;
  v86 = v86_t;
  v87 = v87_t;
  goto L23;
L23: ;
  if (v85) {
    goto L24;
  } else {
    v109_t = v85;
    v110_t = v86;
    v111_t = ((u64)0ULL);
    v109 = v109_t;
    v110 = v110_t;
    v111 = v111_t;
    goto L29;
  }
L24: ;
  v88 = ((u64)(v5 - v86));
  v89 = (v88 > ((u64)3ULL));
  if (v89) {
    v90_t = ((u64)0ULL);
    v91_t = ((u64)0ULL);
    v90 = v90_t;
    v91 = v91_t;
    goto L25;
  } else {
    v109_t = v89;
    v110_t = v86;
    v111_t = ((u64)0ULL);
    v109 = v109_t;
    v110 = v110_t;
    v111 = v111_t;
    goto L29;
  }
L25: ;
  v92 = (v90 < ((u64)4ULL));
  if (v92) {
    goto L26;
  } else {
    v101 = v91;
    goto L27;
  }
L26: ;
  v93 = ((u64)(v90 + v86));
  v94 = ((u64)(v93 & ((u64)4294967295ULL)));
  v95 = (u8*)(&(*(&_ZL5g_raw)).e[(s64)((s64)v94)]);
  v96 = (*(&_ZL5g_raw)).e[(s64)((s64)v94)];
  v97 = ((u64)(v96));
  v98 = ((u64)(v90 << ((u64)3ULL)));
  v99 = ((u64)(v97 << v98));
  v100 = ((u64)(v99 | v91));
  v101 = v100;
  goto L27;
L27: ;
  v102 = ((u64)(v90 + ((u64)1ULL)));
  v103 = (v102 == ((u64)8ULL));
  if (v103) {
    goto L28;
  } else {
    v90_t = v102;
    v91_t = v101;
    v90 = v90_t;
    v91 = v91_t;
    goto L25;
  }
L28: ;
  v104 = ((u64)(v86 + ((u64)4ULL)));
  v105 = ((u64)(v5 - v104));
  v106 = (v101 <= v105);
  v107 = (v106 ? v101 : ((u64)0ULL));
  v108 = ((u64)(v107 + v104));
  v109_t = v106;
  v110_t = v108;
  v111_t = v101;
  v109 = v109_t;
  v110 = v110_t;
  v111 = v111_t;
  goto L29;
L29: ;
  if (v109) {
    goto L33;
  } else {
    goto L30;
  }
L30: ;
  __CPROVER_assert(v36, "out == PARSE_ERROR @/verif/harness/C07_decoder.cpp:250 [_ZN18Case_property_infoILj0EE3runEv]");
  if (v_exc) {
    goto L32;
  }
  goto L31;
L31: ;
  __CPROVER_assert(0, "WITNESS:property info: malformed -> parse_error [_ZN18Case_property_infoILj0EE3runEv]");
  if (v_exc) {
    goto L32;
  }
  goto L47;
L32: ;
  v112.f0 = v_exc_obj;
  v112.f1 = 0;
  v_exc = 0;
  v183 = v112;
  goto L55;
L33: ;
  v113 = *v16;
  v114 = (v113 == v39);
  v115 = (v37 ? v114 : ((u1)0ULL));
  v116 = *v20;
  v117 = (v116 == v63);
  v118 = (v115 ? v117 : ((u1)0ULL));
  v119 = *v25;
  v120 = (v119 == v87);
  v121 = (v118 ? v120 : ((u1)0ULL));
  if (v121) {
    goto L34;
  } else {
    v136 = ((u1)0ULL);
    goto L36;
  }
L34: ;
  v122 = (u8**)(&(*v1).f3.f0.f0.f0.f1);
  v123 = *v122;
  v124 = (u8**)(&(*v27).f0.f0.f0.f0);
  v125 = *v124;
  v126 = ((u64)((u64)v123));
  v127 = ((u64)((u64)v125));
  v128 = v_pdiff((u8*)v123, (u8*)v125);
  v129 = (v128 == v111);
  if (v129) {
    goto L35;
  } else {
    v136 = ((u1)0ULL);
    goto L36;
  }
L35: ;
  v130 = *v14;
  v131 = *v11;
  v132 = ((u64)((u64)v130));
  v133 = ((u64)((u64)v131));
  v134 = v_pdiff((u8*)v130, (u8*)v131);
  v135 = (v134 == v110);
  v136 = v135;
  goto L36;
L36: ;
  __CPROVER_assert(v136, "out == OK && (uint8_t)pi.entity_type == bytes[0] && pi.name.size() == l0 && pi.data_type_name.size() == l1 && pi.serialized_default.size() == l2 && dec.pos() == pos @/verif/harness/C07_decoder.cpp:255 [_ZN18Case_property_infoILj0EE3runEv]");
  if (v_exc) {
    goto L32;
  }
  goto L37;
L37: ;
  v137 = v_nondet_u32();
  if (v_exc) {
    goto L41;
  }
  goto L38;
L38: ;
  v138 = (v137 < ((u32)24ULL));
  __CPROVER_assume(v138);
  if (v_exc) {
    goto L41;
  }
  goto L39;
L39: ;
  v139 = ((u64)(v137));
  v140 = (v63 > v139);
  if (v140) {
    goto L40;
  } else {
    goto L42;
  }
L40: ;
  v141 = (u8**)(&(*v17).f0.f0);
  v142 = *v141;
  v143 = (u8*)(v142 + (s64)((s64)v139));
  v144 = *v143;
  v145 = ((u32)(v137 + ((u32)5ULL)));
  v146 = ((u64)(v145));
  v147 = (u8*)(&(*(&_ZL5g_raw)).e[(s64)((s64)v146)]);
  v148 = (*(&_ZL5g_raw)).e[(s64)((s64)v146)];
  v149 = (v144 == v148);
  __CPROVER_assert(v149, "(uint8_t)pi.name[k] == bytes[5 + k] @/verif/harness/C07_decoder.cpp:257 [_ZN18Case_property_infoILj0EE3runEv]");
  if (v_exc) {
    goto L41;
  }
  goto L42;
L41: ;
  v150.f0 = v_exc_obj;
  v150.f1 = 0;
  v_exc = 0;
  v183 = v150;
  goto L55;
L42: ;
  v151 = (v87 > v139);
  if (v151) {
    goto L43;
  } else {
    goto L44;
  }
L43: ;
  v152 = (u8**)(&(*v22).f0.f0);
  v153 = *v152;
  v154 = (u8*)(v153 + (s64)((s64)v139));
  v155 = *v154;
  v156 = ((u64)(v63 + v139));
  v157 = ((u64)(v156 + ((u64)9ULL)));
  v158 = (u8*)(&(*(&_ZL5g_raw)).e[(s64)((s64)v157)]);
  v159 = (*(&_ZL5g_raw)).e[(s64)((s64)v157)];
  v160 = (v155 == v159);
  __CPROVER_assert(v160, "(uint8_t)pi.data_type_name[k] == bytes[9 + l0 + k] @/verif/harness/C07_decoder.cpp:258 [_ZN18Case_property_infoILj0EE3runEv]");
  if (v_exc) {
    goto L41;
  }
  goto L44;
L44: ;
  v161 = (v111 > v139);
  if (v161) {
    goto L45;
  } else {
    goto L46;
  }
L45: ;
  v162 = (u8**)(&(*v27).f0.f0.f0.f0);
  v163 = *v162;
  v164 = (u8*)(v163 + (s64)((s64)v139));
  v165 = *v164;
  v166 = ((u64)(v63 + v139));
  v167 = ((u64)(v166 + ((u64)13ULL)));
  v168 = ((u64)(v167 + v87));
  v169 = (u8*)(&(*(&_ZL5g_raw)).e[(s64)((s64)v168)]);
  v170 = (*(&_ZL5g_raw)).e[(s64)((s64)v168)];
  v171 = (v165 == v170);
  __CPROVER_assert(v171, "pi.serialized_default[k] == bytes[13 + l0 + l1 + k] @/verif/harness/C07_decoder.cpp:259 [_ZN18Case_property_infoILj0EE3runEv]");
  if (v_exc) {
    goto L41;
  }
  goto L46;
L46: ;
  __CPROVER_assert(0, "WITNESS:property info: accepted [_ZN18Case_property_infoILj0EE3runEv]");
  if (v_exc) {
    goto L41;
  }
  goto L47;
L47: ;
  v172 = (u8**)(&(*v1).f3.f0.f0.f0.f0);
  v173 = *v172;
  v174 = ((u8*)v173 == (u8*)((u8*)0));
  if (v174) {
    goto L49;
  } else {
    goto L48;
  }
L48: ;
  _ZdlPv(v173);
  goto L49;
L49: ;
  v175 = (u8**)(&(*v1).f2.f0.f0);
  v176 = *v175;
  v177 = ((u8*)v176 == (u8*)v26);
  if (v177) {
    goto L51;
  } else {
    goto L50;
  }
L50: ;
  _ZdlPv(v176);
  goto L51;
L51: ;
  v178 = (u8**)(&(*v1).f1.f0.f0);
  v179 = *v178;
  v180 = ((u8*)v179 == (u8*)v21);
  if (v180) {
    goto L53;
  } else {
    goto L52;
  }
L52: ;
  _ZdlPv(v179);
  goto L53;
L53: ;
  v181 = *v11;
  v182 = ((u8*)v181 == (u8*)((u8*)0));
  if (v182) {
    goto L64;
  } else {
    goto L54;
  }
L54: ;
  _ZdlPv(v181);
  goto L64;
L55: ;
  v184 = (u8**)(&(*v1).f3.f0.f0.f0.f0);
  v185 = *v184;
  v186 = ((u8*)v185 == (u8*)((u8*)0));
  if (v186) {
    goto L57;
  } else {
    goto L56;
  }
L56: ;
  _ZdlPv(v185);
  goto L57;
L57: ;
  v187 = (u8**)(&(*v1).f2.f0.f0);
  v188 = *v187;
  v189 = ((u8*)v188 == (u8*)v26);
  if (v189) {
    goto L59;
  } else {
    goto L58;
  }
L58: ;
  _ZdlPv(v188);
  goto L59;
L59: ;
  v190 = (u8**)(&(*v1).f1.f0.f0);
  v191 = *v190;
  v192 = ((u8*)v191 == (u8*)v21);
  if (v192) {
    goto L61;
  } else {
    goto L60;
  }
L60: ;
  _ZdlPv(v191);
  goto L61;
L61: ;
  v193 = *v11;
  v194 = ((u8*)v193 == (u8*)((u8*)0));
  if (v194) {
    goto L63;
  } else {
    goto L62;
  }
L62: ;
  _ZdlPv(v193);
  goto L63;
L63: ;
  v_exc = 1; return;
L64: ;
  goto L65;
L65: ;
  return;
}

void _GLOBAL__sub_I_Decoder_cc(void) {
  u32 v0;
L0: ;
  _ZNSt8ios_base4InitC1Ev((&_ZStL8__ioinit));
  if (v_exc) return;
  v0 = __cxa_atexit(((fnptr_t)((fnptr_t)_ZNSt8ios_base4InitD1Ev)), ((u8*)(&(*(&_ZStL8__ioinit)).f0)), (&__dso_handle));
  return;
}

u8 _ZN14OpenVolumeMesh2IO6detail7Decoder2u8Ev(struct S6_class_OpenVolumeMesh__IO__detail__Decode* a0) {
  u8** v0;
  u8* v1;
  u8* v2;
  u8 v3;
L0: ;
  v0 = (u8**)(&(*a0).f1);
  v1 = *v0;
  v2 = (u8*)(v1 + (s64)((s64)((u64)1ULL)));
  *v0 = v2;
  v3 = *v1;
  return v3;
}

u32 _ZN14OpenVolumeMesh2IO6detail7Decoder3u32Ev(struct S6_class_OpenVolumeMesh__IO__detail__Decode* a0) {
  u8** v0;
  u8* v1;
  u8 v2;
  u32 v3;
  u8* v4;
  u8 v5;
  u32 v6;
  u32 v7;
  u32 v8;
  u8* v9;
  u8 v10;
  u32 v11;
  u32 v12;
  u32 v13;
  u8* v14;
  u8 v15;
  u32 v16;
  u32 v17;
  u32 v18;
  u8* v19;
L0: ;
  v0 = (u8**)(&(*a0).f1);
  v1 = *v0;
  v2 = *v1;
  v3 = ((u32)(v2));
  v4 = (u8*)(v1 + (s64)((s64)((u64)1ULL)));
  v5 = *v4;
  v6 = ((u32)(v5));
  v7 = ((u32)(v6 << ((u32)8ULL)));
  v8 = ((u32)(v7 | v3));
  v9 = (u8*)(v1 + (s64)((s64)((u64)2ULL)));
  v10 = *v9;
  v11 = ((u32)(v10));
  v12 = ((u32)(v11 << ((u32)16ULL)));
  v13 = ((u32)(v8 | v12));
  v14 = (u8*)(v1 + (s64)((s64)((u64)3ULL)));
  v15 = *v14;
  v16 = ((u32)(v15));
  v17 = ((u32)(v16 << ((u32)24ULL)));
  v18 = ((u32)(v13 | v17));
  v19 = (u8*)(v1 + (s64)((s64)((u64)4ULL)));
  *v0 = v19;
  return v18;
}

void _ZN14OpenVolumeMesh2IO6detail11parse_errorCI2St13runtime_errorEPKc(struct S4_class_OpenVolumeMesh__IO__detail__parse_* a0, u8* a1) {
  struct S3_class_std__runtime_error* v0;
  fnptr_t** v1;
L0: ;
  v0 = (struct S3_class_std__runtime_error*)(&(*a0).f0.f0);
  _ZNSt13runtime_errorC2EPKc(v0, a1);
  if (v_exc) return;
  v1 = (fnptr_t**)(&(*a0).f0.f0.f0.f0);
  *v1 = ((fnptr_t*)((u8**)(&(*(&_ZTVN14OpenVolumeMesh2IO6detail11parse_errorE)).f0.e[(s64)((s64)((u64)2ULL))])));
  return;
}

void _ZN14OpenVolumeMesh2IO6detail7Decoder4needEm(struct S6_class_OpenVolumeMesh__IO__detail__Decode* a0, u64 a1) {
  u8** v0;
  u8* v1;
  u8** v2;
  u8* v3;
  u64 v4;
  u64 v5;
  u64 v6;
  u1 v7;
  u8* v8;
  struct S4_class_OpenVolumeMesh__IO__detail__parse_* v9;
  struct S10 v10;
L0: ;
  v0 = (u8**)(&(*a0).f2);
  v1 = *v0;
  v2 = (u8**)(&(*a0).f1);
  v3 = *v2;
  v4 = ((u64)((u64)v1));
  v5 = ((u64)((u64)v3));
  v6 = v_pdiff((u8*)v1, (u8*)v3);
  v7 = (v6 < a1);
  if (v7) {
    goto L1;
  } else {
    goto L4;
  }
L1: ;
  v8 = __cxa_allocate_exception(((u64)16ULL));
  v9 = (struct S4_class_OpenVolumeMesh__IO__detail__parse_*)v8;
  _ZN14OpenVolumeMesh2IO6detail11parse_errorCI2St13runtime_errorEPKc(v9, ((u8*)(&(*(&_str_5)).e[(s64)((s64)((u64)0ULL))])));
  if (v_exc) {
    goto L3;
  }
  goto L2;
L2: ;
  __cxa_throw(v8, ((u8*)(&_ZTIN14OpenVolumeMesh2IO6detail11parse_errorE)), ((u8*)((fnptr_t)_ZNSt13runtime_errorD2Ev)));
  if (v_exc) return;
  __CPROVER_assume(0);
L3: ;
  v10.f0 = v_exc_obj;
  v10.f1 = 0;
  v_exc = 0;
  __cxa_free_exception(v8);
  v_exc = 1; return;
L4: ;
  return;
}

void _ZN14OpenVolumeMesh2IO6detail7Decoder4readEPcm(struct S6_class_OpenVolumeMesh__IO__detail__Decode* a0, u8* a1, u64 a2) {
  u8** v0;
  u8* v1;
  u8* v2;
  u8* v3;
L0: ;
  v0 = (u8**)(&(*a0).f1);
  v1 = *v0;
  v_memcpy((u8*)a1, (u8*)v1, (u64)a2);
  v2 = *v0;
  v3 = (u8*)(v2 + (s64)((s64)a2));
  *v0 = v3;
  return;
}

void _ZN14OpenVolumeMesh2IO6detail7Decoder4readEPhm(struct S6_class_OpenVolumeMesh__IO__detail__Decode* a0, u8* a1, u64 a2) {
  u8** v0;
  u8* v1;
  u8* v2;
  u8* v3;
L0: ;
  v0 = (u8**)(&(*a0).f1);
  v1 = *v0;
  v_memcpy((u8*)a1, (u8*)v1, (u64)a2);
  v2 = *v0;
  v3 = (u8*)(v2 + (s64)((s64)a2));
  *v0 = v3;
  return;
}

void __cxx_global_var_init(void) {
  u8 v0;
  u1 v1;
  u32 v2;
  u1 v3;
  u64 v4;
  u64 v5;
L0: ;
  v0 = *((u8*)(&_ZGVN14OpenVolumeMesh2IO6detail9ovmb_sizeINS1_10FileHeaderEEE));
  v1 = (v0 == ((u8)0ULL));
  if (v1) {
    goto L1;
  } else {
    goto L3;
  }
L1: ;
  v2 = __cxa_guard_acquire((&_ZGVN14OpenVolumeMesh2IO6detail9ovmb_sizeINS1_10FileHeaderEEE));
  v3 = (v2 == ((u32)0ULL));
  if (v3) {
    goto L3;
  } else {
    goto L2;
  }
L2: ;
  v4 = *(&_ZN14OpenVolumeMesh2IO6detail9ovmb_sizeINS1_8TopoTypeEEE);
  v5 = ((u64)(v4 + ((u64)47ULL)));
  *(&_ZN14OpenVolumeMesh2IO6detail9ovmb_sizeINS1_10FileHeaderEEE) = v5;
  __cxa_guard_release((&_ZGVN14OpenVolumeMesh2IO6detail9ovmb_sizeINS1_10FileHeaderEEE));
  goto L3;
L3: ;
  return;
}

void __cxx_global_var_init_2(void) {
  u8 v0;
  u1 v1;
  u32 v2;
  u1 v3;
  u64 v4;
  u64 v5;
  u64 v6;
  u64 v7;
L0: ;
  v0 = *((u8*)(&_ZGVN14OpenVolumeMesh2IO6detail9ovmb_sizeINS1_11ChunkHeaderEEE));
  v1 = (v0 == ((u8)0ULL));
  if (v1) {
    goto L1;
  } else {
    goto L3;
  }
L1: ;
  v2 = __cxa_guard_acquire((&_ZGVN14OpenVolumeMesh2IO6detail9ovmb_sizeINS1_11ChunkHeaderEEE));
  v3 = (v2 == ((u32)0ULL));
  if (v3) {
    goto L3;
  } else {
    goto L2;
  }
L2: ;
  v4 = *(&_ZN14OpenVolumeMesh2IO6detail9ovmb_sizeINS1_9ChunkTypeEEE);
  v5 = *(&_ZN14OpenVolumeMesh2IO6detail9ovmb_sizeINS1_10ChunkFlagsEEE);
  v6 = ((u64)(v4 + ((u64)11ULL)));
  v7 = ((u64)(v6 + v5));
  *(&_ZN14OpenVolumeMesh2IO6detail9ovmb_sizeINS1_11ChunkHeaderEEE) = v7;
  __cxa_guard_release((&_ZGVN14OpenVolumeMesh2IO6detail9ovmb_sizeINS1_11ChunkHeaderEEE));
  goto L3;
L3: ;
  return;
}

void __cxx_global_var_init_3(void) {
  u8 v0;
  u1 v1;
  u32 v2;
  u1 v3;
  u64 v4;
  u64 v5;
L0: ;
  v0 = *((u8*)(&_ZGVN14OpenVolumeMesh2IO6detail9ovmb_sizeINS1_15PropChunkHeaderEEE));
  v1 = (v0 == ((u8)0ULL));
  if (v1) {
    goto L1;
  } else {
    goto L3;
  }
L1: ;
  v2 = __cxa_guard_acquire((&_ZGVN14OpenVolumeMesh2IO6detail9ovmb_sizeINS1_15PropChunkHeaderEEE));
  v3 = (v2 == ((u32)0ULL));
  if (v3) {
    goto L3;
  } else {
    goto L2;
  }
L2: ;
  v4 = *(&_ZN14OpenVolumeMesh2IO6detail9ovmb_sizeINS1_9ArraySpanEEE);
  v5 = ((u64)(v4 + ((u64)4ULL)));
  *(&_ZN14OpenVolumeMesh2IO6detail9ovmb_sizeINS1_15PropChunkHeaderEEE) = v5;
  __cxa_guard_release((&_ZGVN14OpenVolumeMesh2IO6detail9ovmb_sizeINS1_15PropChunkHeaderEEE));
  goto L3;
L3: ;
  return;
}

void __cxx_global_var_init_4(void) {
  u8 v0;
  u1 v1;
  u32 v2;
  u1 v3;
  u64 v4;
  u64 v5;
L0: ;
  v0 = *((u8*)(&_ZGVN14OpenVolumeMesh2IO6detail9ovmb_sizeINS1_17VertexChunkHeaderEEE));
  v1 = (v0 == ((u8)0ULL));
  if (v1) {
    goto L1;
  } else {
    goto L3;
  }
L1: ;
  v2 = __cxa_guard_acquire((&_ZGVN14OpenVolumeMesh2IO6detail9ovmb_sizeINS1_17VertexChunkHeaderEEE));
  v3 = (v2 == ((u32)0ULL));
  if (v3) {
    goto L3;
  } else {
    goto L2;
  }
L2: ;
  v4 = *(&_ZN14OpenVolumeMesh2IO6detail9ovmb_sizeINS1_9ArraySpanEEE);
  v5 = ((u64)(v4 + ((u64)4ULL)));
  *(&_ZN14OpenVolumeMesh2IO6detail9ovmb_sizeINS1_17VertexChunkHeaderEEE) = v5;
  __cxa_guard_release((&_ZGVN14OpenVolumeMesh2IO6detail9ovmb_sizeINS1_17VertexChunkHeaderEEE));
  goto L3;
L3: ;
  return;
}

void __cxx_global_var_init_5(void) {
  u8 v0;
  u1 v1;
  u32 v2;
  u1 v3;
  u64 v4;
  u64 v5;
  u64 v6;
  u64 v7;
  u64 v8;
  u64 v9;
  u64 v10;
L0: ;
  v0 = *((u8*)(&_ZGVN14OpenVolumeMesh2IO6detail9ovmb_sizeINS1_15TopoChunkHeaderEEE));
  v1 = (v0 == ((u8)0ULL));
  if (v1) {
    goto L1;
  } else {
    goto L3;
  }
L1: ;
  v2 = __cxa_guard_acquire((&_ZGVN14OpenVolumeMesh2IO6detail9ovmb_sizeINS1_15TopoChunkHeaderEEE));
  v3 = (v2 == ((u32)0ULL));
  if (v3) {
    goto L3;
  } else {
    goto L2;
  }
L2: ;
  v4 = *(&_ZN14OpenVolumeMesh2IO6detail9ovmb_sizeINS1_9ArraySpanEEE);
  v5 = *(&_ZN14OpenVolumeMesh2IO6detail9ovmb_sizeINS1_10TopoEntityEEE);
  v6 = *(&_ZN14OpenVolumeMesh2IO6detail9ovmb_sizeINS1_11IntEncodingEEE);
  v7 = ((u64)(v6 << ((u64)1ULL)));
  v8 = ((u64)(v4 + ((u64)9ULL)));
  v9 = ((u64)(v8 + v5));
  v10 = ((u64)(v9 + v7));
  *(&_ZN14OpenVolumeMesh2IO6detail9ovmb_sizeINS1_15TopoChunkHeaderEEE) = v10;
  __cxa_guard_release((&_ZGVN14OpenVolumeMesh2IO6detail9ovmb_sizeINS1_15TopoChunkHeaderEEE));
  goto L3;
L3: ;
  return;
}

void _ZN14OpenVolumeMesh2IO6detail4readERNS1_7DecoderERNS1_12PropertyInfoE(struct S6_class_OpenVolumeMesh__IO__detail__Decode* a0, struct S7_struct_OpenVolumeMesh__IO__detail__Prope* a1) {
  u8* v0;
  u8 v1;
  u1 v2;
  u8* v3;
  struct S4_class_OpenVolumeMesh__IO__detail__parse_* v4;
  struct S10 v5;
  struct S8_class_std____cxx11__basic_string* v6;
  u32 v7;
  u64 v8;
  u8** v9;
  u8* v10;
  struct S8_class_std____cxx11__basic_string* v11;
  u32 v12;
  u64 v13;
  u8** v14;
  u8* v15;
  struct S5_class_std__vector* v16;
  u32 v17;
  u64 v18;
  u8** v19;
  u8* v20;
  u8** v21;
  u8* v22;
  u64 v23;
  u64 v24;
  u64 v25;
  u1 v26;
  u64 v27;
  u1 v28;
  u8* v29;
  u1 v30;
  u8* v31;
L0: ;
  _ZN14OpenVolumeMesh2IO6detail7Decoder4needEm(a0, ((u64)14ULL));
  if (v_exc) return;
  v0 = (u8*)(&(*a1).f0);
  v1 = _ZN14OpenVolumeMesh2IO6detail7Decoder2u8Ev(a0);
  *v0 = v1;
  v2 = (v1 < ((u8)7ULL));
  if (v2) {
    goto L4;
  } else {
    goto L1;
  }
L1: ;
  v3 = __cxa_allocate_exception(((u64)16ULL));
  v4 = (struct S4_class_OpenVolumeMesh__IO__detail__parse_*)v3;
  _ZN14OpenVolumeMesh2IO6detail11parse_errorCI2St13runtime_errorEPKc(v4, ((u8*)(&(*(&_str_59)).e[(s64)((s64)((u64)0ULL))])));
  if (v_exc) {
    goto L3;
  }
  goto L2;
L2: ;
  __cxa_throw(v3, ((u8*)(&_ZTIN14OpenVolumeMesh2IO6detail11parse_errorE)), ((u8*)((fnptr_t)_ZNSt13runtime_errorD2Ev)));
  if (v_exc) return;
  __CPROVER_assume(0);
L3: ;
  v5.f0 = v_exc_obj;
  v5.f1 = 0;
  v_exc = 0;
  __cxa_free_exception(v3);
  v_exc = 1; return;
L4: ;
  v6 = (struct S8_class_std____cxx11__basic_string*)(&(*a1).f1);
  _ZN14OpenVolumeMesh2IO6detail7Decoder4needEm(a0, ((u64)4ULL));
  if (v_exc) return;
  v7 = _ZN14OpenVolumeMesh2IO6detail7Decoder3u32Ev(a0);
  v8 = ((u64)(v7));
  _ZN14OpenVolumeMesh2IO6detail7Decoder4needEm(a0, v8);
  if (v_exc) return;
  _ZNSt7__cxx1112basic_stringIcSt11char_traitsIcESaIcEE6resizeEmc(v6, v8, ((u8)0ULL));
  if (v_exc) return;
  v9 = (u8**)(&(*v6).f0.f0);
  v10 = *v9;
  _ZN14OpenVolumeMesh2IO6detail7Decoder4readEPcm(a0, v10, v8);
  v11 = (struct S8_class_std____cxx11__basic_string*)(&(*a1).f2);
  _ZN14OpenVolumeMesh2IO6detail7Decoder4needEm(a0, ((u64)4ULL));
  if (v_exc) return;
  v12 = _ZN14OpenVolumeMesh2IO6detail7Decoder3u32Ev(a0);
  v13 = ((u64)(v12));
  _ZN14OpenVolumeMesh2IO6detail7Decoder4needEm(a0, v13);
  if (v_exc) return;
  _ZNSt7__cxx1112basic_stringIcSt11char_traitsIcESaIcEE6resizeEmc(v11, v13, ((u8)0ULL));
  if (v_exc) return;
  v14 = (u8**)(&(*v11).f0.f0);
  v15 = *v14;
  _ZN14OpenVolumeMesh2IO6detail7Decoder4readEPcm(a0, v15, v13);
  v16 = (struct S5_class_std__vector*)(&(*a1).f3);
  _ZN14OpenVolumeMesh2IO6detail7Decoder4needEm(a0, ((u64)4ULL));
  if (v_exc) return;
  v17 = _ZN14OpenVolumeMesh2IO6detail7Decoder3u32Ev(a0);
  v18 = ((u64)(v17));
  _ZN14OpenVolumeMesh2IO6detail7Decoder4needEm(a0, v18);
  if (v_exc) return;
  v19 = (u8**)(&(*a1).f3.f0.f0.f0.f1);
  v20 = *v19;
  v21 = (u8**)(&(*v16).f0.f0.f0.f0);
  v22 = *v21;
  v23 = ((u64)((u64)v20));
  v24 = ((u64)((u64)v22));
  v25 = v_pdiff((u8*)v20, (u8*)v22);
  v26 = (v25 < v18);
  if (v26) {
    goto L5;
  } else {
    goto L6;
  }
L5: ;
  v27 = ((u64)(v18 - v25));
  _ZNSt6vectorIhSaIhEE17_M_default_appendEm(v16, v27);
  if (v_exc) return;
  goto L9;
L6: ;
  v28 = (v25 > v18);
  if (v28) {
    goto L7;
  } else {
    goto L9;
  }
L7: ;
  v29 = (u8*)(v22 + (s64)((s64)v18));
  v30 = ((u8*)v20 == (u8*)v29);
  if (v30) {
    goto L9;
  } else {
    goto L8;
  }
L8: ;
  *v19 = v29;
  goto L9;
L9: ;
  v31 = *v21;
  _ZN14OpenVolumeMesh2IO6detail7Decoder4readEPhm(a0, v31, v18);
  return;
}

void _GLOBAL__sub_I_Encoder_cc(void) {
  u32 v0;
L0: ;
  _ZNSt8ios_base4InitC1Ev((&_ZStL8__ioinit_94));
  if (v_exc) return;
  v0 = __cxa_atexit(((fnptr_t)((fnptr_t)_ZNSt8ios_base4InitD1Ev)), ((u8*)(&(*(&_ZStL8__ioinit_94)).f0)), (&__dso_handle));
  return;
}

void _GLOBAL__sub_I_WriteBuffer_cc(void) {
  u32 v0;
L0: ;
  _ZNSt8ios_base4InitC1Ev((&_ZStL8__ioinit_107));
  if (v_exc) return;
  v0 = __cxa_atexit(((fnptr_t)((fnptr_t)_ZNSt8ios_base4InitD1Ev)), ((u8*)(&(*(&_ZStL8__ioinit_107)).f0)), (&__dso_handle));
  return;
}

void _ZSt20__throw_length_errorPKc(u8* a0) {
L0: ;
  v_throw_std(((u32)1ULL));
  if (v_exc) return;
  __CPROVER_assume(0);
}

void _ZSt17__throw_bad_allocv(void) {
L0: ;
  v_throw_std(((u32)2ULL));
  if (v_exc) return;
  __CPROVER_assume(0);
}

void _ZNSt7__cxx1112basic_stringIcSt11char_traitsIcESaIcEE9_M_mutateEmmPKcm(struct S8_class_std____cxx11__basic_string* a0, u64 a1, u64 a2, u8* a3, u64 a4) {
  u64* v0;
  u64 v1;
  u64 v2;
  u64 v3;
  u64 v4;
  u64 v5;
  u8** v6;
  u8* v7;
  struct S9_union_anon* v8;
  u8* v9;
  u1 v10;
  u64* v11;
  u64 v12;
  u64 v13;
  u1 v14;
  u1 v15;
  u64 v16;
  u1 v17;
  u1 v18;
  u64 v19;
  u64 v20; u64 v20_t;
  u64 v21;
  u1 v22;
  u8* v23;
  u8 v24;
  u1 v25;
  u1 v26;
  u1 v27;
  u8* v28;
  u8 v29;
  u1 v30;
  u8* v31;
  u8* v32;
  u8* v33;
  u8* v34;
  u1 v35;
  u8 v36;
L0: ;
  v0 = (u64*)(&(*a0).f1);
  v1 = *v0;
  v2 = ((u64)(a2 + a1));
  v3 = ((u64)(v1 - v2));
  v4 = ((u64)(a4 - a2));
  v5 = ((u64)(v4 + v1));
  v6 = (u8**)(&(*a0).f0.f0);
  v7 = *v6;
  v8 = (struct S9_union_anon*)(&(*a0).f2);
  v9 = (u8*)v8;
  v10 = ((u8*)v7 == (u8*)v9);
  v11 = (u64*)(&(*a0).f2.f0.e[0]);
  v12 = *v11;
  v13 = (v10 ? ((u64)15ULL) : v12);
  v14 = (v5 > ((u64)4611686018427387903ULL));
  if (v14) {
    goto L1;
  } else {
    goto L2;
  }
L1: ;
  _ZSt20__throw_length_errorPKc(((u8*)0));
  if (v_exc) return;
  __CPROVER_assume(0);
L2: ;
  v15 = (v5 > v13);
  if (v15) {
    goto L3;
  } else {
    v20 = v5;
    goto L5;
  }
L3: ;
  v16 = ((u64)(v13 << ((u64)1ULL)));
  v17 = (v5 < v16);
  if (v17) {
    goto L4;
  } else {
    v20 = v5;
    goto L5;
  }
L4: ;
  v18 = (v16 < ((u64)4611686018427387903ULL));
  v19 = (v18 ? v16 : ((u64)4611686018427387903ULL));
  v20 = v19;
  goto L5;
L5: ;
  v21 = ((u64)(v20 + ((u64)1ULL)));
  v22 = (((s64)v21) < ((s64)((u64)0ULL)));
  if (v22) {
    goto L6;
  } else {
    goto L7;
  }
L6: ;
  _ZSt17__throw_bad_allocv();
  if (v_exc) return;
  __CPROVER_assume(0);
L7: ;
  v23 = _Znwm(v21);
  if (v_exc) return;
  switch (a1) {
  case ((u64)0ULL): {
    goto L10;
  }
  case ((u64)1ULL): {
    goto L8;
  }
  default: {
    goto L9;
  }
  }
L8: ;
  v24 = *v7;
  *v23 = v24;
  goto L10;
L9: ;
  v_memcpy((u8*)v23, (u8*)v7, (u64)a1);
  goto L10;
L10: ;
  v25 = ((u8*)a3 != (u8*)((u8*)0));
  v26 = (a4 != ((u64)0ULL));
  v27 = ((u1)((v25 & v26)&1));
  if (v27) {
    goto L11;
  } else {
    goto L14;
  }
L11: ;
  v28 = (u8*)(v23 + (s64)((s64)a1));
  switch (a4) {
  case ((u64)1ULL): {
    goto L12;
  }
  case ((u64)0ULL): {
    goto L14;
  }
  default: {
    goto L13;
  }
  }
L12: ;
  v29 = *a3;
  *v28 = v29;
  goto L14;
L13: ;
  v_memcpy((u8*)v28, (u8*)a3, (u64)a4);
  goto L14;
L14: ;
  v30 = (v3 == ((u64)0ULL));
  if (v30) {
    goto L18;
  } else {
    goto L15;
  }
L15: ;
  v31 = (u8*)(v23 + (s64)((s64)a1));
  v32 = (u8*)(v31 + (s64)((s64)a4));
  v33 = (u8*)(v7 + (s64)((s64)a1));
  v34 = (u8*)(v33 + (s64)((s64)a2));
  v35 = (v3 == ((u64)1ULL));
  if (v35) {
    goto L16;
  } else {
    goto L17;
  }
L16: ;
  v36 = *v34;
  *v32 = v36;
  goto L18;
L17: ;
  v_memcpy((u8*)v32, (u8*)v34, (u64)v3);
  goto L18;
L18: ;
  if (v10) {
    goto L20;
  } else {
    goto L19;
  }
L19: ;
  _ZdlPv(v7);
  goto L20;
L20: ;
  *v6 = v23;
  *v11 = v20;
  return;
}

void _ZNSt7__cxx1112basic_stringIcSt11char_traitsIcESaIcEE6resizeEmc(struct S8_class_std____cxx11__basic_string* a0, u64 a1, u8 a2) {
  u64* v0;
  u64 v1;
  u1 v2;
  u64 v3;
  u64 v4;
  u1 v5;
  u8** v6;
  u8* v7;
  struct S9_union_anon* v8;
  u8* v9;
  u1 v10;
  u64* v11;
  u64 v12;
  u64 v13;
  u1 v14;
  u1 v15;
  u8* v16;
  u8* v17;
  u1 v18;
  u1 v19;
  u8** v20;
  u8* v21;
  u8* v22;
L0: ;
  v0 = (u64*)(&(*a0).f1);
  v1 = *v0;
  v2 = (v1 < a1);
  if (v2) {
    goto L1;
  } else {
    goto L9;
  }
L1: ;
  v3 = ((u64)(a1 - v1));
  v4 = ((u64)(((u64)4611686018427387903ULL) - v1));
  v5 = (v4 < v3);
  if (v5) {
    goto L2;
  } else {
    goto L3;
  }
L2: ;
  _ZSt20__throw_length_errorPKc(((u8*)0));
  if (v_exc) return;
  __CPROVER_assume(0);
L3: ;
  v6 = (u8**)(&(*a0).f0.f0);
  v7 = *v6;
  v8 = (struct S9_union_anon*)(&(*a0).f2);
  v9 = (u8*)v8;
  v10 = ((u8*)v7 == (u8*)v9);
  v11 = (u64*)(&(*a0).f2.f0.e[0]);
  v12 = *v11;
  v13 = (v10 ? ((u64)15ULL) : v12);
  v14 = (v13 < a1);
  if (v14) {
    goto L4;
  } else {
    goto L5;
  }
L4: ;
  _ZNSt7__cxx1112basic_stringIcSt11char_traitsIcESaIcEE9_M_mutateEmmPKcm(a0, v1, ((u64)0ULL), ((u8*)0), v3);
  if (v_exc) return;
  goto L5;
L5: ;
  v15 = (v3 == ((u64)0ULL));
  if (v15) {
    goto L10;
  } else {
    goto L6;
  }
L6: ;
  v16 = *v6;
  v17 = (u8*)(v16 + (s64)((s64)v1));
  v18 = (v3 == ((u64)1ULL));
  if (v18) {
    goto L7;
  } else {
    goto L8;
  }
L7: ;
  *v17 = a2;
  goto L10;
L8: ;
  v_memset((u8*)v17, a2, (u64)v3);
  goto L10;
L9: ;
  v19 = (v1 > a1);
  if (v19) {
    goto L10;
  } else {
    goto L11;
  }
L10: ;
  *v0 = a1;
  v20 = (u8**)(&(*a0).f0.f0);
  v21 = *v20;
  v22 = (u8*)(v21 + (s64)((s64)a1));
  *v22 = ((u8)0ULL);
  goto L11;
L11: ;
  return;
}

void _ZNSt13runtime_errorD2Ev(struct S3_class_std__runtime_error* a0) { }
u8* _ZNKSt13runtime_error4whatEv(struct S3_class_std__runtime_error* a0) { static u8 empty[1]; return (u8*)empty; }
void _ZNSt13runtime_errorC2EPKc(struct S3_class_std__runtime_error* a0, u8* a1) { }
void v_run_static_init(void) {
  static int done; if (done) return; done = 1;
  _GLOBAL__sub_I_Decoder_cc();
  __cxx_global_var_init();
  __cxx_global_var_init_2();
  __cxx_global_var_init_3();
  __cxx_global_var_init_4();
  __cxx_global_var_init_5();
  _GLOBAL__sub_I_Encoder_cc();
  _GLOBAL__sub_I_WriteBuffer_cc();
}
u1 v_exc_match(u8* want) {
  if (v_exc_ti == (u8*)&_ZTIN14OpenVolumeMesh2IO6detail11parse_errorE) return 0 || want == (u8*)&_ZTIN14OpenVolumeMesh2IO6detail11parse_errorE || want == (u8*)&_ZTIN14OpenVolumeMesh2IO6detail8io_errorE || want == (u8*)&_ZTISt13runtime_error;
  if (v_exc_ti == (u8*)&_ZTISt13runtime_error) return 0 || want == (u8*)&_ZTISt13runtime_error;
  if (v_exc_ti == (u8*)&_ZTIN14OpenVolumeMesh2IO6detail8io_errorE) return 0 || want == (u8*)&_ZTIN14OpenVolumeMesh2IO6detail8io_errorE || want == (u8*)&_ZTISt13runtime_error;
  return 0;
}
