#include "v_rt.h"
struct S0_class_std__ios_base__Init;
struct S1;
struct S2;
struct S3_class_std__runtime_error;
struct S4_class_OpenVolumeMesh__IO__detail__parse_;
struct S5_class_OpenVolumeMesh__IO__detail__Decode;
struct S6_class_std____cxx11__basic_string;
struct S7_union_anon;
struct S8;
struct A0;
struct A1;
struct A2;
struct A3;
struct A4;
struct A5;
struct S0_class_std__ios_base__Init { u8 f0; };
struct S1 { u8* f0; u8* f1; u8* f2; };
struct A6 { u8* e[5]; };
struct S2 { struct A6 f0; };
struct S9_class_std__exception { fnptr_t* f0; };
struct S10_struct_std____cxx11__basic_string_char__ { u8* f0; };
struct S11_struct_std____cow_string { struct S10_struct_std____cxx11__basic_string_char__ f0; };
struct S3_class_std__runtime_error { struct S9_class_std__exception f0; struct S11_struct_std____cow_string f1; };
struct S12_class_OpenVolumeMesh__IO__detail__io_err { struct S3_class_std__runtime_error f0; };
struct S4_class_OpenVolumeMesh__IO__detail__parse_ { struct S12_class_OpenVolumeMesh__IO__detail__io_err f0; };
struct S13_struct_std___Vector_base_unsigned_char__ { u8* f0; u8* f1; u8* f2; };
struct S14_struct_std___Vector_base_unsigned_char__ { struct S13_struct_std___Vector_base_unsigned_char__ f0; };
struct S15_struct_std___Vector_base { struct S14_struct_std___Vector_base_unsigned_char__ f0; };
struct S16_class_std__vector { struct S15_struct_std___Vector_base f0; };
struct S5_class_OpenVolumeMesh__IO__detail__Decode { struct S16_class_std__vector f0; u8* f1; u8* f2; };
struct A7 { u8 e[16]; };
struct S7_union_anon { struct A7 f0; };
struct S6_class_std____cxx11__basic_string { struct S10_struct_std____cxx11__basic_string_char__ f0; u64 f1; struct S7_union_anon f2; };
struct S8 { u8* f0; u32 f1; };
struct A0 { u8 e[64]; };
struct A1 { u8 e[43]; };
struct A2 { u8 e[40]; };
struct A3 { u8 e[19]; };
struct A4 { u8 e[42]; };
struct A5 { u8 e[38]; };
extern struct A0 _ZL5g_raw;
extern struct A1 _str;
extern struct A2 _str_83;
extern struct S0_class_std__ios_base__Init _ZStL8__ioinit;
extern struct A3 _str_5;
extern struct A4 _ZTSN14OpenVolumeMesh2IO6detail11parse_errorE;
extern struct S1 _ZTIN14OpenVolumeMesh2IO6detail11parse_errorE;
extern u64 _ZN14OpenVolumeMesh2IO6detail9ovmb_sizeINS1_10FileHeaderEEE;
extern u64 _ZN14OpenVolumeMesh2IO6detail9ovmb_sizeINS1_9ArraySpanEEE;
extern u64 _ZN14OpenVolumeMesh2IO6detail9ovmb_sizeINS1_11ChunkHeaderEEE;
extern u64 _ZN14OpenVolumeMesh2IO6detail9ovmb_sizeINS1_15PropChunkHeaderEEE;
extern u64 _ZN14OpenVolumeMesh2IO6detail9ovmb_sizeINS1_17VertexChunkHeaderEEE;
extern u64 _ZN14OpenVolumeMesh2IO6detail9ovmb_sizeINS1_15TopoChunkHeaderEEE;
extern struct S2 _ZTVN14OpenVolumeMesh2IO6detail11parse_errorE;
extern u64 _ZGVN14OpenVolumeMesh2IO6detail9ovmb_sizeINS1_10FileHeaderEEE;
extern u64 _ZN14OpenVolumeMesh2IO6detail9ovmb_sizeINS1_8TopoTypeEEE;
extern u64 _ZGVN14OpenVolumeMesh2IO6detail9ovmb_sizeINS1_11ChunkHeaderEEE;
extern u64 _ZN14OpenVolumeMesh2IO6detail9ovmb_sizeINS1_9ChunkTypeEEE;
extern u64 _ZN14OpenVolumeMesh2IO6detail9ovmb_sizeINS1_10ChunkFlagsEEE;
extern u64 _ZGVN14OpenVolumeMesh2IO6detail9ovmb_sizeINS1_15PropChunkHeaderEEE;
extern u64 _ZGVN14OpenVolumeMesh2IO6detail9ovmb_sizeINS1_17VertexChunkHeaderEEE;
extern u64 _ZGVN14OpenVolumeMesh2IO6detail9ovmb_sizeINS1_15TopoChunkHeaderEEE;
extern u64 _ZN14OpenVolumeMesh2IO6detail9ovmb_sizeINS1_10TopoEntityEEE;
extern u64 _ZN14OpenVolumeMesh2IO6detail9ovmb_sizeINS1_11IntEncodingEEE;
extern struct S0_class_std__ios_base__Init _ZStL8__ioinit_94;
extern u8* _ZTVN10__cxxabiv120__si_class_type_infoE;
extern struct A5 _ZTSN14OpenVolumeMesh2IO6detail8io_errorE;
extern u8* _ZTISt13runtime_error;
extern struct S1 _ZTIN14OpenVolumeMesh2IO6detail8io_errorE;
extern struct S0_class_std__ios_base__Init _ZStL8__ioinit_107;
extern u8 __dso_handle;
u32 v_nondet_u32(void);
void v_assume(u1);
u32 v_param(u32);
u8 v_nondet_u8(void);
u32 __gxx_personality_v0(void);
u8* _Znwm(u64);
u8* __cxa_begin_catch(u8*);
void __cxa_end_catch(void);
void v_witness(u8*);
void _ZdlPv(u8*);
u8* __cxa_allocate_exception(u64);
void _ZNSt13runtime_errorD2Ev(struct S3_class_std__runtime_error*);
void __cxa_throw(u8*, u8*, u8*);
void __cxa_free_exception(u8*);
void _ZN14OpenVolumeMesh2IO6detail11parse_errorD0Ev(struct S4_class_OpenVolumeMesh__IO__detail__parse_*);
u8* _ZNKSt13runtime_error4whatEv(struct S3_class_std__runtime_error*);
void harness_string_short(void);
void _ZN17Case_string_shortILj0EE3runEv(void);
void _ZN17Case_string_shortILj1EE3runEv(void);
void _ZN17Case_string_shortILj2EE3runEv(void);
void _ZL17body_string_shortj(u32);
void harness_string_empty(void);
void _GLOBAL__sub_I_Decoder_cc(void);
void _ZNSt8ios_base4InitC1Ev(struct S0_class_std__ios_base__Init*);
void _ZNSt8ios_base4InitD1Ev(struct S0_class_std__ios_base__Init*);
u32 __cxa_atexit(fnptr_t, u8*, u8*);
void _ZN14OpenVolumeMesh2IO6detail7Decoder4readERNSt7__cxx1112basic_stringIcSt11char_traitsIcESaIcEEE(struct S5_class_OpenVolumeMesh__IO__detail__Decode*, struct S6_class_std____cxx11__basic_string*);
void _ZN14OpenVolumeMesh2IO6detail11parse_errorCI2St13runtime_errorEPKc(struct S4_class_OpenVolumeMesh__IO__detail__parse_*, u8*);
void _ZNSt13runtime_errorC2EPKc(struct S3_class_std__runtime_error*, u8*);
void __cxx_global_var_init(void);
void __cxx_global_var_init_2(void);
void __cxx_global_var_init_3(void);
void __cxx_global_var_init_4(void);
void __cxx_global_var_init_5(void);
u32 __cxa_guard_acquire(u64*);
void __cxa_guard_release(u64*);
void _GLOBAL__sub_I_Encoder_cc(void);
void _GLOBAL__sub_I_WriteBuffer_cc(void);
void _ZSt20__throw_length_errorPKc(u8*);
void v_throw_std(u32);
void _ZSt17__throw_bad_allocv(void);
void _ZNSt7__cxx1112basic_stringIcSt11char_traitsIcESaIcEE9_M_mutateEmmPKcm(struct S6_class_std____cxx11__basic_string*, u64, u64, u8*, u64);
void _ZNSt7__cxx1112basic_stringIcSt11char_traitsIcESaIcEE6resizeEmc(struct S6_class_std____cxx11__basic_string*, u64, u8);
void v_run_static_init(void);
struct A0 _ZL5g_raw = {0};
struct A1 _str = {{((u8)115ULL), ((u8)116ULL), ((u8)114ULL), ((u8)105ULL), ((u8)110ULL), ((u8)103ULL), ((u8)40ULL), ((u8)97ULL), ((u8)115ULL), ((u8)32ULL), ((u8)99ULL), ((u8)97ULL), ((u8)108ULL), ((u8)108ULL), ((u8)101ULL), ((u8)100ULL), ((u8)44ULL), ((u8)32ULL), ((u8)101ULL), ((u8)109ULL), ((u8)112ULL), ((u8)116ULL), ((u8)121ULL), ((u8)32ULL), ((u8)112ULL), ((u8)97ULL), ((u8)121ULL), ((u8)108ULL), ((u8)111ULL), ((u8)97ULL), ((u8)100ULL), ((u8)41ULL), ((u8)58ULL), ((u8)32ULL), ((u8)114ULL), ((u8)101ULL), ((u8)116ULL), ((u8)117ULL), ((u8)114ULL), ((u8)110ULL), ((u8)101ULL), ((u8)100ULL), ((u8)0ULL)}};
struct A2 _str_83 = {{((u8)115ULL), ((u8)116ULL), ((u8)114ULL), ((u8)105ULL), ((u8)110ULL), ((u8)103ULL), ((u8)40ULL), ((u8)97ULL), ((u8)115ULL), ((u8)32ULL), ((u8)99ULL), ((u8)97ULL), ((u8)108ULL), ((u8)108ULL), ((u8)101ULL), ((u8)100ULL), ((u8)44ULL), ((u8)32ULL), ((u8)49ULL), ((u8)46ULL), ((u8)46ULL), ((u8)51ULL), ((u8)32ULL), ((u8)98ULL), ((u8)121ULL), ((u8)116ULL), ((u8)101ULL), ((u8)115ULL), ((u8)41ULL), ((u8)58ULL), ((u8)32ULL), ((u8)114ULL), ((u8)101ULL), ((u8)116ULL), ((u8)117ULL), ((u8)114ULL), ((u8)110ULL), ((u8)101ULL), ((u8)100ULL), ((u8)0ULL)}};
struct S0_class_std__ios_base__Init _ZStL8__ioinit = {0};
struct A3 _str_5 = {{((u8)114ULL), ((u8)101ULL), ((u8)97ULL), ((u8)100ULL), ((u8)32ULL), ((u8)98ULL), ((u8)101ULL), ((u8)121ULL), ((u8)111ULL), ((u8)110ULL), ((u8)100ULL), ((u8)32ULL), ((u8)98ULL), ((u8)117ULL), ((u8)102ULL), ((u8)102ULL), ((u8)101ULL), ((u8)114ULL), ((u8)0ULL)}};
struct A4 _ZTSN14OpenVolumeMesh2IO6detail11parse_errorE = {{((u8)78ULL), ((u8)49ULL), ((u8)52ULL), ((u8)79ULL), ((u8)112ULL), ((u8)101ULL), ((u8)110ULL), ((u8)86ULL), ((u8)111ULL), ((u8)108ULL), ((u8)117ULL), ((u8)109ULL), ((u8)101ULL), ((u8)77ULL), ((u8)101ULL), ((u8)115ULL), ((u8)104ULL), ((u8)50ULL), ((u8)73ULL), ((u8)79ULL), ((u8)54ULL), ((u8)100ULL), ((u8)101ULL), ((u8)116ULL), ((u8)97ULL), ((u8)105ULL), ((u8)108ULL), ((u8)49ULL), ((u8)49ULL), ((u8)112ULL), ((u8)97ULL), ((u8)114ULL), ((u8)115ULL), ((u8)101ULL), ((u8)95ULL), ((u8)101ULL), ((u8)114ULL), ((u8)114ULL), ((u8)111ULL), ((u8)114ULL), ((u8)69ULL), ((u8)0ULL)}};
struct S1 _ZTIN14OpenVolumeMesh2IO6detail11parse_errorE = {((u8*)((u8**)((&_ZTVN10__cxxabiv120__si_class_type_infoE) + (s64)((s64)((u64)2ULL))))), ((u8*)(&(*(&_ZTSN14OpenVolumeMesh2IO6detail11parse_errorE)).e[(s64)((s32)((u32)0ULL))])), ((u8*)(&_ZTIN14OpenVolumeMesh2IO6detail8io_errorE))};
u64 _ZN14OpenVolumeMesh2IO6detail9ovmb_sizeINS1_10FileHeaderEEE = ((u64)0ULL);
u64 _ZN14OpenVolumeMesh2IO6detail9ovmb_sizeINS1_9ArraySpanEEE = ((u64)12ULL);
u64 _ZN14OpenVolumeMesh2IO6detail9ovmb_sizeINS1_11ChunkHeaderEEE = ((u64)0ULL);
u64 _ZN14OpenVolumeMesh2IO6detail9ovmb_sizeINS1_15PropChunkHeaderEEE = ((u64)0ULL);
u64 _ZN14OpenVolumeMesh2IO6detail9ovmb_sizeINS1_17VertexChunkHeaderEEE = ((u64)0ULL);
u64 _ZN14OpenVolumeMesh2IO6detail9ovmb_sizeINS1_15TopoChunkHeaderEEE = ((u64)0ULL);
struct S2 _ZTVN14OpenVolumeMesh2IO6detail11parse_errorE = {{{((u8*)0), ((u8*)(&_ZTIN14OpenVolumeMesh2IO6detail11parse_errorE)), ((u8*)((fnptr_t)_ZNSt13runtime_errorD2Ev)), ((u8*)((fnptr_t)_ZN14OpenVolumeMesh2IO6detail11parse_errorD0Ev)), ((u8*)((fnptr_t)_ZNKSt13runtime_error4whatEv))}}};
u64 _ZGVN14OpenVolumeMesh2IO6detail9ovmb_sizeINS1_10FileHeaderEEE = ((u64)0ULL);
u64 _ZN14OpenVolumeMesh2IO6detail9ovmb_sizeINS1_8TopoTypeEEE = ((u64)1ULL);
u64 _ZGVN14OpenVolumeMesh2IO6detail9ovmb_sizeINS1_11ChunkHeaderEEE = ((u64)0ULL);
u64 _ZN14OpenVolumeMesh2IO6detail9ovmb_sizeINS1_9ChunkTypeEEE = ((u64)4ULL);
u64 _ZN14OpenVolumeMesh2IO6detail9ovmb_sizeINS1_10ChunkFlagsEEE = ((u64)1ULL);
u64 _ZGVN14OpenVolumeMesh2IO6detail9ovmb_sizeINS1_15PropChunkHeaderEEE = ((u64)0ULL);
u64 _ZGVN14OpenVolumeMesh2IO6detail9ovmb_sizeINS1_17VertexChunkHeaderEEE = ((u64)0ULL);
u64 _ZGVN14OpenVolumeMesh2IO6detail9ovmb_sizeINS1_15TopoChunkHeaderEEE = ((u64)0ULL);
u64 _ZN14OpenVolumeMesh2IO6detail9ovmb_sizeINS1_10TopoEntityEEE = ((u64)1ULL);
u64 _ZN14OpenVolumeMesh2IO6detail9ovmb_sizeINS1_11IntEncodingEEE = ((u64)1ULL);
struct S0_class_std__ios_base__Init _ZStL8__ioinit_94 = {0};
struct A5 _ZTSN14OpenVolumeMesh2IO6detail8io_errorE = {{((u8)78ULL), ((u8)49ULL), ((u8)52ULL), ((u8)79ULL), ((u8)112ULL), ((u8)101ULL), ((u8)110ULL), ((u8)86ULL), ((u8)111ULL), ((u8)108ULL), ((u8)117ULL), ((u8)109ULL), ((u8)101ULL), ((u8)77ULL), ((u8)101ULL), ((u8)115ULL), ((u8)104ULL), ((u8)50ULL), ((u8)73ULL), ((u8)79ULL), ((u8)54ULL), ((u8)100ULL), ((u8)101ULL), ((u8)116ULL), ((u8)97ULL), ((u8)105ULL), ((u8)108ULL), ((u8)56ULL), ((u8)105ULL), ((u8)111ULL), ((u8)95ULL), ((u8)101ULL), ((u8)114ULL), ((u8)114ULL), ((u8)111ULL), ((u8)114ULL), ((u8)69ULL), ((u8)0ULL)}};
struct S1 _ZTIN14OpenVolumeMesh2IO6detail8io_errorE = {((u8*)((u8**)((&_ZTVN10__cxxabiv120__si_class_type_infoE) + (s64)((s64)((u64)2ULL))))), ((u8*)(&(*(&_ZTSN14OpenVolumeMesh2IO6detail8io_errorE)).e[(s64)((s32)((u32)0ULL))])), ((u8*)(&_ZTISt13runtime_error))};
struct S0_class_std__ios_base__Init _ZStL8__ioinit_107 = {0};
void _ZN14OpenVolumeMesh2IO6detail11parse_errorD0Ev(struct S4_class_OpenVolumeMesh__IO__detail__parse_* a0) {
  struct S3_class_std__runtime_error* v0;
  u8* v1;
L0: ;
  v0 = (struct S3_class_std__runtime_error*)(&(*a0).f0.f0);
  _ZNSt13runtime_errorD2Ev(v0);
  v1 = (u8*)a0;
  _ZdlPv(v1);
  return;
}

void harness_string_short(void) {
  v_run_static_init();
  u32 v0;
  u1 v1;
  u32 v2;
  u32 v3;
  u32 v4;
  u32 v5;
  u1 v6;
  u64 v7; u64 v7_t;
  u8 v8;
  u8* v9;
  u64 v10;
  u1 v11;
L0: ;
  v7 = ((u64)0ULL);
  goto L6;
L1: ;
  v0 = v_nondet_u32();
  if (v_exc) return;
  v1 = (v0 < ((u32)3ULL));
  __CPROVER_assume(v1);
  v2 = v_param(((u32)0ULL));
  if (v_exc) return;
  v3 = ((u32)(v2 * ((u32)3ULL)));
  v4 = ((u32)(v0 + ((u32)1ULL)));
  v5 = ((u32)(v4 + v3));
  v6 = (v5 < ((u32)4ULL));
  __CPROVER_assume(v6);
  switch (v0) {
  case ((u32)0ULL): {
    goto L2;
  }
  case ((u32)1ULL): {
    goto L3;
  }
  case ((u32)2ULL): {
    goto L4;
  }
  default: {
    goto L5;
  }
  }
L2: ;
  _ZN17Case_string_shortILj0EE3runEv();
  if (v_exc) return;
  goto L5;
L3: ;
  _ZN17Case_string_shortILj1EE3runEv();
  if (v_exc) return;
  goto L5;
L4: ;
  _ZN17Case_string_shortILj2EE3runEv();
  if (v_exc) return;
  goto L5;
L5: ;
  return;
L6: ;
  v8 = v_nondet_u8();
  if (v_exc) return;
  v9 = (u8*)(&(*(&_ZL5g_raw)).e[(s64)((s64)v7)]);
  (*(&_ZL5g_raw)).e[(s64)((s64)v7)] = v8;
  v10 = ((u64)(v7 + ((u64)1ULL)));
  v11 = (v10 == ((u64)3ULL));
  if (v11) {
    goto L1;
  } else {
    v7 = v10;
    goto L6;
  }
}

void _ZN17Case_string_shortILj0EE3runEv(void) {
  u32 v0;
  u32 v1;
  u32 v2;
  u1 v3;
L0: ;
  v0 = v_param(((u32)0ULL));
  if (v_exc) return;
  v1 = ((u32)(v0 * ((u32)3ULL)));
  v2 = ((u32)(v1 + ((u32)1ULL)));
  v3 = (v2 < ((u32)4ULL));
  if (v3) {
    goto L1;
  } else {
    goto L2;
  }
L1: ;
  _ZL17body_string_shortj(v2);
  if (v_exc) return;
  goto L2;
L2: ;
  return;
}

void _ZN17Case_string_shortILj1EE3runEv(void) {
  u32 v0;
  u32 v1;
  u32 v2;
  u1 v3;
L0: ;
  v0 = v_param(((u32)0ULL));
  if (v_exc) return;
  v1 = ((u32)(v0 * ((u32)3ULL)));
  v2 = ((u32)(v1 + ((u32)2ULL)));
  v3 = (v2 < ((u32)4ULL));
  if (v3) {
    goto L1;
  } else {
    goto L2;
  }
L1: ;
  _ZL17body_string_shortj(v2);
  if (v_exc) return;
  goto L2;
L2: ;
  return;
}

void _ZN17Case_string_shortILj2EE3runEv(void) {
  u32 v0;
  u32 v1;
  u32 v2;
  u1 v3;
L0: ;
  v0 = v_param(((u32)0ULL));
  if (v_exc) return;
  v1 = ((u32)(v0 * ((u32)3ULL)));
  v2 = ((u32)(v1 + ((u32)3ULL)));
  v3 = (v2 < ((u32)4ULL));
  if (v3) {
    goto L1;
  } else {
    goto L2;
  }
L1: ;
  _ZL17body_string_shortj(v2);
  if (v_exc) return;
  goto L2;
L2: ;
  return;
}

void _ZL17body_string_shortj(u32 a0) {
  struct S5_class_OpenVolumeMesh__IO__detail__Decode* v0; struct S5_class_OpenVolumeMesh__IO__detail__Decode v0_m;
  struct S6_class_std____cxx11__basic_string* v1; struct S6_class_std____cxx11__basic_string v1_m;
  u64 v2;
  u1 v3;
  u8* v4;
  u8* v5; u8* v5_t;
  u8* v6;
  u8* v7;
  u8** v8;
  u8** v9;
  u8** v10;
  u8** v11;
  u8** v12;
  u8* v13;
  struct S7_union_anon* v14;
  struct S7_union_anon** v15;
  u64* v16;
  u8* v17;
  struct S8 v18;
  u8* v19;
  u32 v20;
  u32 v21;
  u1 v22;
  u8* v23;
  u8** v24;
  u8* v25;
  u1 v26;
  u8* v27;
  u1 v28;
  struct S8 v29;
  struct S8 v30;
  struct S8 v31; struct S8 v31_t;
  u8** v32;
  u8* v33;
  u1 v34;
  u8* v35;
  u1 v36;
L0: ;
  v0 = &v0_m;
  v1 = &v1_m;
  v2 = ((u64)(a0));
  v3 = (a0 == ((u32)0ULL));
  if (v3) {
    v5 = ((u8*)0);
    goto L2;
  } else {
    goto L1;
  }
L1: ;
  v4 = _Znwm(v2);
  if (v_exc) return;
  v5 = v4;
  goto L2;
L2: ;
  v6 = (u8*)(v5 + (s64)((s64)v2));
  if (v3) {
    goto L4;
  } else {
    goto L3;
  }
L3: ;
  v_memcpy((u8*)v5, (u8*)((u8*)(&(*(&_ZL5g_raw)).e[(s64)((s64)((u64)0ULL))])), (u64)v2);
  goto L4;
L4: ;
  v7 = (u8*)v0;
  v8 = (u8**)(&(*v0).f0.f0.f0.f0.f0);
  *v8 = v5;
  v9 = (u8**)(&(*v0).f0.f0.f0.f0.f1);
  *v9 = v6;
  v10 = (u8**)(&(*v0).f0.f0.f0.f0.f2);
  *v10 = v6;
  v11 = (u8**)(&(*v0).f1);
  *v11 = v5;
  v12 = (u8**)(&(*v0).f2);
  *v12 = v6;
  v13 = (u8*)v1;
  v14 = (struct S7_union_anon*)(&(*v1).f2);
  v15 = (struct S7_union_anon**)&(*v1).f0.f0;
  *v15 = v14;
  v16 = (u64*)(&(*v1).f1);
  *v16 = ((u64)0ULL);
  v17 = (u8*)v14;
  *v17 = ((u8)0ULL);
  _ZN14OpenVolumeMesh2IO6detail7Decoder4readERNSt7__cxx1112basic_stringIcSt11char_traitsIcESaIcEEE(v0, v1);
  if (v_exc) {
    goto L5;
  }
  goto L7;
L5: ;
  v18.f0 = v_exc_obj;
  v18.f1 = 0;
  if (v18.f1 == 0 && v_exc_match((u8*)((u8*)(&_ZTIN14OpenVolumeMesh2IO6detail11parse_errorE)))) v18.f1 = 1;
  if (v18.f1 == 0) v18.f1 = 9999;
  if (v18.f1 == 0) return;
  v_exc = 0;
  v19 = v18.f0;
  v20 = v18.f1;
  v21 = 1;
  v22 = (v20 == v21);
  v23 = __cxa_begin_catch(v19);
  if (v22) {
    goto L6;
  } else {
    goto L13;
  }
L6: ;
  __cxa_end_catch();
  if (v_exc) {
    goto L15;
  }
  goto L7;
L7: ;
  __CPROVER_assert(0, "WITNESS:string(as called, 1..3 bytes): returned [_ZL17body_string_shortj]");
  if (v_exc) {
    goto L14;
  }
  goto L8;
L8: ;
  v24 = (u8**)(&(*v1).f0.f0);
  v25 = *v24;
  v26 = ((u8*)v25 == (u8*)v17);
  if (v26) {
    goto L10;
  } else {
    goto L9;
  }
L9: ;
  _ZdlPv(v25);
  goto L10;
L10: ;
  v27 = *v8;
  v28 = ((u8*)v27 == (u8*)((u8*)0));
  if (v28) {
    goto L12;
  } else {
    goto L11;
  }
L11: ;
  _ZdlPv(v27);
  goto L12;
L12: ;
  return;
L13: ;
  __cxa_end_catch();
  if (v_exc) {
    goto L14;
  }
  goto L7;
L14: ;
  v29.f0 = v_exc_obj;
  v29.f1 = 0;
  v_exc = 0;
  v31 = v29;
  goto L16;
L15: ;
  v30.f0 = v_exc_obj;
  v30.f1 = 0;
  v_exc = 0;
  v31 = v30;
  goto L16;
L16: ;
  v32 = (u8**)(&(*v1).f0.f0);
  v33 = *v32;
  v34 = ((u8*)v33 == (u8*)v17);
  if (v34) {
    goto L18;
  } else {
    goto L17;
  }
L17: ;
  _ZdlPv(v33);
  goto L18;
L18: ;
  v35 = *v8;
  v36 = ((u8*)v35 == (u8*)((u8*)0));
  if (v36) {
    goto L20;
  } else {
    goto L19;
  }
L19: ;
  _ZdlPv(v35);
  goto L20;
L20: ;
  v_exc = 1; return;
}

void harness_string_empty(void) {
  v_run_static_init();
  struct S5_class_OpenVolumeMesh__IO__detail__Decode* v0; struct S5_class_OpenVolumeMesh__IO__detail__Decode v0_m;
  struct S6_class_std____cxx11__basic_string* v1; struct S6_class_std____cxx11__basic_string v1_m;
  u8* v2;
  u8** v3;
  u8* v4;
  u8* v5;
  struct S7_union_anon* v6;
  struct S7_union_anon** v7;
  u64* v8;
  u8* v9;
  struct S8 v10;
  u8* v11;
  u32 v12;
  u32 v13;
  u1 v14;
  u8* v15;
  u8** v16;
  u8* v17;
  u1 v18;
  u8* v19;
  u1 v20;
  struct S8 v21;
  struct S8 v22;
  struct S8 v23; struct S8 v23_t;
  u8** v24;
  u8* v25;
  u1 v26;
  u8* v27;
  u1 v28;
L0: ;
  v0 = &v0_m;
  v1 = &v1_m;
  v2 = (u8*)v0;
  v3 = (u8**)(&(*v0).f0.f0.f0.f0.f0);
  v4 = (u8*)v1;
  v5 = (u8*)v0;
  (*v0).f0.f0.f0.f0.f0 = (u8*)0;
  (*v0).f0.f0.f0.f0.f1 = (u8*)0;
  (*v0).f0.f0.f0.f0.f2 = (u8*)0;
  (*v0).f1 = (u8*)0;
  (*v0).f2 = (u8*)0;
  v6 = (struct S7_union_anon*)(&(*v1).f2);
  v7 = (struct S7_union_anon**)&(*v1).f0.f0;
  *v7 = v6;
  v8 = (u64*)(&(*v1).f1);
  *v8 = ((u64)0ULL);
  v9 = (u8*)v6;
  *v9 = ((u8)0ULL);
  _ZN14OpenVolumeMesh2IO6detail7Decoder4readERNSt7__cxx1112basic_stringIcSt11char_traitsIcESaIcEEE(v0, v1);
  if (v_exc) {
    goto L1;
  }
  goto L3;
L1: ;
  v10.f0 = v_exc_obj;
  v10.f1 = 0;
  if (v10.f1 == 0 && v_exc_match((u8*)((u8*)(&_ZTIN14OpenVolumeMesh2IO6detail11parse_errorE)))) v10.f1 = 1;
  if (v10.f1 == 0) v10.f1 = 9999;
  if (v10.f1 == 0) return;
  v_exc = 0;
  v11 = v10.f0;
  v12 = v10.f1;
  v13 = 1;
  v14 = (v12 == v13);
  v15 = __cxa_begin_catch(v11);
  if (v14) {
    goto L2;
  } else {
    goto L9;
  }
L2: ;
  __cxa_end_catch();
  if (v_exc) {
    goto L11;
  }
  goto L3;
L3: ;
  __CPROVER_assert(0, "WITNESS:string(as called, empty payload): returned [harness_string_empty]");
  if (v_exc) {
    goto L10;
  }
  goto L4;
L4: ;
  v16 = (u8**)(&(*v1).f0.f0);
  v17 = *v16;
  v18 = ((u8*)v17 == (u8*)v9);
  if (v18) {
    goto L6;
  } else {
    goto L5;
  }
L5: ;
  _ZdlPv(v17);
  goto L6;
L6: ;
  v19 = *v3;
  v20 = ((u8*)v19 == (u8*)((u8*)0));
  if (v20) {
    goto L8;
  } else {
    goto L7;
  }
L7: ;
  _ZdlPv(v19);
  goto L8;
L8: ;
  return;
L9: ;
  __cxa_end_catch();
  if (v_exc) {
    goto L10;
  }
  goto L3;
L10: ;
  v21.f0 = v_exc_obj;
  v21.f1 = 0;
  v_exc = 0;
  v23 = v21;
  goto L12;
L11: ;
  v22.f0 = v_exc_obj;
  v22.f1 = 0;
  v_exc = 0;
  v23 = v22;
  goto L12;
L12: ;
  v24 = (u8**)(&(*v1).f0.f0);
  v25 = *v24;
  v26 = ((u8*)v25 == (u8*)v9);
  if (v26) {
    goto L14;
  } else {
    goto L13;
  }
L13: ;
  _ZdlPv(v25);
  goto L14;
L14: ;
  v27 = *v3;
  v28 = ((u8*)v27 == (u8*)((u8*)0));
  if (v28) {
    goto L16;
  } else {
    goto L15;
  }
L15: ;
  _ZdlPv(v27);
  goto L16;
L16: ;
  v_exc = 1; return;
}

void _GLOBAL__sub_I_Decoder_cc(void) {
  u32 v0;
L0: ;
  _ZNSt8ios_base4InitC1Ev((&_ZStL8__ioinit));
  if (v_exc) return;
  v0 = __cxa_atexit(((fnptr_t)((fnptr_t)_ZNSt8ios_base4InitD1Ev)), ((u8*)(&(*(&_ZStL8__ioinit)).f0)), (&__dso_handle));
  return;
}

void _ZN14OpenVolumeMesh2IO6detail7Decoder4readERNSt7__cxx1112basic_stringIcSt11char_traitsIcESaIcEEE(struct S5_class_OpenVolumeMesh__IO__detail__Decode* a0, struct S6_class_std____cxx11__basic_string* a1) {
  u8** v0;
  u8* v1;
  u8 v2;
  u64 v3;
  u8* v4;
  u8 v5;
  u64 v6;
  u64 v7;
  u64 v8;
  u8* v9;
  u8 v10;
  u64 v11;
  u64 v12;
  u64 v13;
  u8* v14;
  u8 v15;
  u64 v16;
  u64 v17;
  u64 v18;
  u8* v19;
  u8** v20;
  u8* v21;
  u64 v22;
  u64 v23;
  u64 v24;
  u1 v25;
  u8* v26;
  struct S4_class_OpenVolumeMesh__IO__detail__parse_* v27;
  struct S8 v28;
  u8** v29;
  u8* v30;
  u8* v31;
  u8* v32;
  u8* v33;
L0: ;
  v0 = (u8**)(&(*a0).f1);
  v1 = *v0;
  v2 = *v1;
  v3 = ((u64)(v2));
  v4 = (u8*)(v1 + (s64)((s64)((u64)1ULL)));
  v5 = *v4;
  v6 = ((u64)(v5));
  v7 = ((u64)(v6 << ((u64)8ULL)));
  v8 = ((u64)(v7 | v3));
  v9 = (u8*)(v1 + (s64)((s64)((u64)2ULL)));
  v10 = *v9;
  v11 = ((u64)(v10));
  v12 = ((u64)(v11 << ((u64)16ULL)));
  v13 = ((u64)(v8 | v12));
  v14 = (u8*)(v1 + (s64)((s64)((u64)3ULL)));
  v15 = *v14;
  v16 = ((u64)(v15));
  v17 = ((u64)(v16 << ((u64)24ULL)));
  v18 = ((u64)(v13 | v17));
  v19 = (u8*)(v1 + (s64)((s64)((u64)4ULL)));
  *v0 = v19;
  v20 = (u8**)(&(*a0).f2);
  v21 = *v20;
  v22 = ((u64)((u64)v21));
  v23 = ((u64)((u64)v19));
  v24 = v_pdiff((u8*)v21, (u8*)v19);
  v25 = (v24 < v18);
  if (v25) {
    goto L1;
  } else {
    goto L4;
  }
L1: ;
  v26 = __cxa_allocate_exception(((u64)16ULL));
  v27 = (struct S4_class_OpenVolumeMesh__IO__detail__parse_*)v26;
  _ZN14OpenVolumeMesh2IO6detail11parse_errorCI2St13runtime_errorEPKc(v27, ((u8*)(&(*(&_str_5)).e[(s64)((s64)((u64)0ULL))])));
  if (v_exc) {
    goto L3;
  }
  goto L2;
L2: ;
  __cxa_throw(v26, ((u8*)(&_ZTIN14OpenVolumeMesh2IO6detail11parse_errorE)), ((u8*)((fnptr_t)_ZNSt13runtime_errorD2Ev)));
  if (v_exc) return;
  __CPROVER_assume(0);
L3: ;
  v28.f0 = v_exc_obj;
  v28.f1 = 0;
  v_exc = 0;
  __cxa_free_exception(v26);
  v_exc = 1; return;
L4: ;
  _ZNSt7__cxx1112basic_stringIcSt11char_traitsIcESaIcEE6resizeEmc(a1, v18, ((u8)0ULL));
  if (v_exc) return;
  v29 = (u8**)(&(*a1).f0.f0);
  v30 = *v29;
  v31 = *v0;
  v_memcpy((u8*)v30, (u8*)v31, (u64)v18);
  v32 = *v0;
  v33 = (u8*)(v32 + (s64)((s64)v18));
  *v0 = v33;
  return;
}

void _ZN14OpenVolumeMesh2IO6detail11parse_errorCI2St13runtime_errorEPKc(struct S4_class_OpenVolumeMesh__IO__detail__parse_* a0, u8* a1) {
  struct S3_class_std__runtime_error* v0;
  fnptr_t** v1;
L0: ;
  v0 = (struct S3_class_std__runtime_error*)(&(*a0).f0.f0);
  _ZNSt13runtime_errorC2EPKc(v0, a1);
  if (v_exc) return;
  v1 = (fnptr_t**)(&(*a0).f0.f0.f0.f0);
  *v1 = ((fnptr_t*)((u8**)(&(*(&_ZTVN14OpenVolumeMesh2IO6detail11parse_errorE)).f0.e[(s64)((s64)((u64)2ULL))])));
  return;
}

void __cxx_global_var_init(void) {
  u8 v0;
  u1 v1;
  u32 v2;
  u1 v3;
  u64 v4;
  u64 v5;
L0: ;
  v0 = *((u8*)(&_ZGVN14OpenVolumeMesh2IO6detail9ovmb_sizeINS1_10FileHeaderEEE));
  v1 = (v0 == ((u8)0ULL));
  if (v1) {
    goto L1;
  } else {
    goto L3;
  }
L1: ;
  v2 = __cxa_guard_acquire((&_ZGVN14OpenVolumeMesh2IO6detail9ovmb_sizeINS1_10FileHeaderEEE));
  v3 = (v2 == ((u32)0ULL));
  if (v3) {
    goto L3;
  } else {
    goto L2;
  }
L2: ;
  v4 = *(&_ZN14OpenVolumeMesh2IO6detail9ovmb_sizeINS1_8TopoTypeEEE);
  v5 = ((u64)(v4 + ((u64)47ULL)));
  *(&_ZN14OpenVolumeMesh2IO6detail9ovmb_sizeINS1_10FileHeaderEEE) = v5;
  __cxa_guard_release((&_ZGVN14OpenVolumeMesh2IO6detail9ovmb_sizeINS1_10FileHeaderEEE));
  goto L3;
L3: ;
  return;
}

void __cxx_global_var_init_2(void) {
  u8 v0;
  u1 v1;
  u32 v2;
  u1 v3;
  u64 v4;
  u64 v5;
  u64 v6;
  u64 v7;
L0: ;
  v0 = *((u8*)(&_ZGVN14OpenVolumeMesh2IO6detail9ovmb_sizeINS1_11ChunkHeaderEEE));
  v1 = (v0 == ((u8)0ULL));
  if (v1) {
    goto L1;
  } else {
    goto L3;
  }
L1: ;
  v2 = __cxa_guard_acquire((&_ZGVN14OpenVolumeMesh2IO6detail9ovmb_sizeINS1_11ChunkHeaderEEE));
  v3 = (v2 == ((u32)0ULL));
  if (v3) {
    goto L3;
  } else {
    goto L2;
  }
L2: ;
  v4 = *(&_ZN14OpenVolumeMesh2IO6detail9ovmb_sizeINS1_9ChunkTypeEEE);
  v5 = *(&_ZN14OpenVolumeMesh2IO6detail9ovmb_sizeINS1_10ChunkFlagsEEE);
  v6 = ((u64)(v4 + ((u64)11ULL)));
  v7 = ((u64)(v6 + v5));
  *(&_ZN14OpenVolumeMesh2IO6detail9ovmb_sizeINS1_11ChunkHeaderEEE) = v7;
  __cxa_guard_release((&_ZGVN14OpenVolumeMesh2IO6detail9ovmb_sizeINS1_11ChunkHeaderEEE));
  goto L3;
L3: ;
  return;
}

void __cxx_global_var_init_3(void) {
  u8 v0;
  u1 v1;
  u32 v2;
  u1 v3;
  u64 v4;
  u64 v5;
L0: ;
  v0 = *((u8*)(&_ZGVN14OpenVolumeMesh2IO6detail9ovmb_sizeINS1_15PropChunkHeaderEEE));
  v1 = (v0 == ((u8)0ULL));
  if (v1) {
    goto L1;
  } else {
    goto L3;
  }
L1: ;
  v2 = __cxa_guard_acquire((&_ZGVN14OpenVolumeMesh2IO6detail9ovmb_sizeINS1_15PropChunkHeaderEEE));
  v3 = (v2 == ((u32)0ULL));
  if (v3) {
    goto L3;
  } else {
    goto L2;
  }
L2: ;
  v4 = *(&_ZN14OpenVolumeMesh2IO6detail9ovmb_sizeINS1_9ArraySpanEEE);
  v5 = ((u64)(v4 + ((u64)4ULL)));
  *(&_ZN14OpenVolumeMesh2IO6detail9ovmb_sizeINS1_15PropChunkHeaderEEE) = v5;
  __cxa_guard_release((&_ZGVN14OpenVolumeMesh2IO6detail9ovmb_sizeINS1_15PropChunkHeaderEEE));
  goto L3;
L3: ;
  return;
}

void __cxx_global_var_init_4(void) {
  u8 v0;
  u1 v1;
  u32 v2;
  u1 v3;
  u64 v4;
  u64 v5;
L0: ;
  v0 = *((u8*)(&_ZGVN14OpenVolumeMesh2IO6detail9ovmb_sizeINS1_17VertexChunkHeaderEEE));
  v1 = (v0 == ((u8)0ULL));
  if (v1) {
    goto L1;
  } else {
    goto L3;
  }
L1: ;
  v2 = __cxa_guard_acquire((&_ZGVN14OpenVolumeMesh2IO6detail9ovmb_sizeINS1_17VertexChunkHeaderEEE));
  v3 = (v2 == ((u32)0ULL));
  if (v3) {
    goto L3;
  } else {
    goto L2;
  }
L2: ;
  v4 = *(&_ZN14OpenVolumeMesh2IO6detail9ovmb_sizeINS1_9ArraySpanEEE);
  v5 = ((u64)(v4 + ((u64)4ULL)));
  *(&_ZN14OpenVolumeMesh2IO6detail9ovmb_sizeINS1_17VertexChunkHeaderEEE) = v5;
  __cxa_guard_release((&_ZGVN14OpenVolumeMesh2IO6detail9ovmb_sizeINS1_17VertexChunkHeaderEEE));
  goto L3;
L3: ;
  return;
}

void __cxx_global_var_init_5(void) {
  u8 v0;
  u1 v1;
  u32 v2;
  u1 v3;
  u64 v4;
  u64 v5;
  u64 v6;
  u64 v7;
  u64 v8;
  u64 v9;
  u64 v10;
L0: ;
  v0 = *((u8*)(&_ZGVN14OpenVolumeMesh2IO6detail9ovmb_sizeINS1_15TopoChunkHeaderEEE));
  v1 = (v0 == ((u8)0ULL));
  if (v1) {
    goto L1;
  } else {
    goto L3;
  }
L1: ;
  v2 = __cxa_guard_acquire((&_ZGVN14OpenVolumeMesh2IO6detail9ovmb_sizeINS1_15TopoChunkHeaderEEE));
  v3 = (v2 == ((u32)0ULL));
  if (v3) {
    goto L3;
  } else {
    goto L2;
  }
L2: ;
  v4 = *(&_ZN14OpenVolumeMesh2IO6detail9ovmb_sizeINS1_9ArraySpanEEE);
  v5 = *(&_ZN14OpenVolumeMesh2IO6detail9ovmb_sizeINS1_10TopoEntityEEE);
  v6 = *(&_ZN14OpenVolumeMesh2IO6detail9ovmb_sizeINS1_11IntEncodingEEE);
  v7 = ((u64)(v6 << ((u64)1ULL)));
  v8 = ((u64)(v4 + ((u64)9ULL)));
  v9 = ((u64)(v8 + v5));
  v10 = ((u64)(v9 + v7));
  *(&_ZN14OpenVolumeMesh2IO6detail9ovmb_sizeINS1_15TopoChunkHeaderEEE) = v10;
  __cxa_guard_release((&_ZGVN14OpenVolumeMesh2IO6detail9ovmb_sizeINS1_15TopoChunkHeaderEEE));
  goto L3;
L3: ;
  return;
}

void _GLOBAL__sub_I_Encoder_cc(void) {
  u32 v0;
L0: ;
  _ZNSt8ios_base4InitC1Ev((&_ZStL8__ioinit_94));
  if (v_exc) return;
  v0 = __cxa_atexit(((fnptr_t)((fnptr_t)_ZNSt8ios_base4InitD1Ev)), ((u8*)(&(*(&_ZStL8__ioinit_94)).f0)), (&__dso_handle));
  return;
}

void _GLOBAL__sub_I_WriteBuffer_cc(void) {
  u32 v0;
L0: ;
  _ZNSt8ios_base4InitC1Ev((&_ZStL8__ioinit_107));
  if (v_exc) return;
  v0 = __cxa_atexit(((fnptr_t)((fnptr_t)_ZNSt8ios_base4InitD1Ev)), ((u8*)(&(*(&_ZStL8__ioinit_107)).f0)), (&__dso_handle));
  return;
}

void _ZSt20__throw_length_errorPKc(u8* a0) {
L0: ;
  v_throw_std(((u32)1ULL));
  if (v_exc) return;
  __CPROVER_assume(0);
}

void _ZSt17__throw_bad_allocv(void) {
L0: ;
  v_throw_std(((u32)2ULL));
  if (v_exc) return;
  __CPROVER_assume(0);
}

void _ZNSt7__cxx1112basic_stringIcSt11char_traitsIcESaIcEE9_M_mutateEmmPKcm(struct S6_class_std____cxx11__basic_string* a0, u64 a1, u64 a2, u8* a3, u64 a4) {
  u64* v0;
  u64 v1;
  u64 v2;
  u64 v3;
  u64 v4;
  u64 v5;
  u8** v6;
  u8* v7;
  struct S7_union_anon* v8;
  u8* v9;
  u1 v10;
  u64* v11;
  u64 v12;
  u64 v13;
  u1 v14;
  u1 v15;
  u64 v16;
  u1 v17;
  u1 v18;
  u64 v19;
  u64 v20; u64 v20_t;
  u64 v21;
  u1 v22;
  u8* v23;
  u8 v24;
  u1 v25;
  u1 v26;
  u1 v27;
  u8* v28;
  u8 v29;
  u1 v30;
  u8* v31;
  u8* v32;
  u8* v33;
  u8* v34;
  u1 v35;
  u8 v36;
L0: ;
  v0 = (u64*)(&(*a0).f1);
  v1 = *v0;
  v2 = ((u64)(a2 + a1));
  v3 = ((u64)(v1 - v2));
  v4 = ((u64)(a4 - a2));
  v5 = ((u64)(v4 + v1));
  v6 = (u8**)(&(*a0).f0.f0);
  v7 = *v6;
  v8 = (struct S7_union_anon*)(&(*a0).f2);
  v9 = (u8*)v8;
  v10 = ((u8*)v7 == (u8*)v9);
  v11 = (u64*)(&(*a0).f2.f0.e[0]);
  v12 = *v11;
  v13 = (v10 ? ((u64)15ULL) : v12);
  v14 = (v5 > ((u64)4611686018427387903ULL));
  if (v14) {
    goto L1;
  } else {
    goto L2;
  }
L1: ;
  _ZSt20__throw_length_errorPKc(((u8*)0));
  if (v_exc) return;
  __CPROVER_assume(0);
L2: ;
  v15 = (v5 > v13);
  if (v15) {
    goto L3;
  } else {
    v20 = v5;
    goto L5;
  }
L3: ;
  v16 = ((u64)(v13 << ((u64)1ULL)));
  v17 = (v5 < v16);
  if (v17) {
    goto L4;
  } else {
    v20 = v5;
    goto L5;
  }
L4: ;
  v18 = (v16 < ((u64)4611686018427387903ULL));
  v19 = (v18 ? v16 : ((u64)4611686018427387903ULL));
  v20 = v19;
  goto L5;
L5: ;
  v21 = ((u64)(v20 + ((u64)1ULL)));
  v22 = (((s64)v21) < ((s64)((u64)0ULL)));
  if (v22) {
    goto L6;
  } else {
    goto L7;
  }
L6: ;
  _ZSt17__throw_bad_allocv();
  if (v_exc) return;
  __CPROVER_assume(0);
L7: ;
  v23 = _Znwm(v21);
  if (v_exc) return;
  switch (a1) {
  case ((u64)0ULL): {
    goto L10;
  }
  case ((u64)1ULL): {
    goto L8;
  }
  default: {
    goto L9;
  }
  }
L8: ;
  v24 = *v7;
  *v23 = v24;
  goto L10;
L9: ;
  v_memcpy((u8*)v23, (u8*)v7, (u64)a1);
  goto L10;
L10: ;
  v25 = ((u8*)a3 != (u8*)((u8*)0));
  v26 = (a4 != ((u64)0ULL));
  v27 = ((u1)((v25 & v26)&1));
  if (v27) {
    goto L11;
  } else {
    goto L14;
  }
L11: ;
  v28 = (u8*)(v23 + (s64)((s64)a1));
  switch (a4) {
  case ((u64)1ULL): {
    goto L12;
  }
  case ((u64)0ULL): {
    goto L14;
  }
  default: {
    goto L13;
  }
  }
L12: ;
  v29 = *a3;
  *v28 = v29;
  goto L14;
L13: ;
  v_memcpy((u8*)v28, (u8*)a3, (u64)a4);
  goto L14;
L14: ;
  v30 = (v3 == ((u64)0ULL));
  if (v30) {
    goto L18;
  } else {
    goto L15;
  }
L15: ;
  v31 = (u8*)(v23 + (s64)((s64)a1));
  v32 = (u8*)(v31 + (s64)((s64)a4));
  v33 = (u8*)(v7 + (s64)((s64)a1));
  v34 = (u8*)(v33 + (s64)((s64)a2));
  v35 = (v3 == ((u64)1ULL));
  if (v35) {
    goto L16;
  } else {
    goto L17;
  }
L16: ;
  v36 = *v34;
  *v32 = v36;
  goto L18;
L17: ;
  v_memcpy((u8*)v32, (u8*)v34, (u64)v3);
  goto L18;
L18: ;
  if (v10) {
    goto L20;
  } else {
    goto L19;
  }
L19: ;
  _ZdlPv(v7);
  goto L20;
L20: ;
  *v6 = v23;
  *v11 = v20;
  return;
}

void _ZNSt7__cxx1112basic_stringIcSt11char_traitsIcESaIcEE6resizeEmc(struct S6_class_std____cxx11__basic_string* a0, u64 a1, u8 a2) {
  u64* v0;
  u64 v1;
  u1 v2;
  u64 v3;
  u64 v4;
  u1 v5;
  u8** v6;
  u8* v7;
  struct S7_union_anon* v8;
  u8* v9;
  u1 v10;
  u64* v11;
  u64 v12;
  u64 v13;
  u1 v14;
  u1 v15;
  u8* v16;
  u8* v17;
  u1 v18;
  u1 v19;
  u8** v20;
  u8* v21;
  u8* v22;
L0: ;
  v0 = (u64*)(&(*a0).f1);
  v1 = *v0;
  v2 = (v1 < a1);
  if (v2) {
    goto L1;
  } else {
    goto L9;
  }
L1: ;
  v3 = ((u64)(a1 - v1));
  v4 = ((u64)(((u64)4611686018427387903ULL) - v1));
  v5 = (v4 < v3);
  if (v5) {
    goto L2;
  } else {
    goto L3;
  }
L2: ;
  _ZSt20__throw_length_errorPKc(((u8*)0));
  if (v_exc) return;
  __CPROVER_assume(0);
L3: ;
  v6 = (u8**)(&(*a0).f0.f0);
  v7 = *v6;
  v8 = (struct S7_union_anon*)(&(*a0).f2);
  v9 = (u8*)v8;
  v10 = ((u8*)v7 == (u8*)v9);
  v11 = (u64*)(&(*a0).f2.f0.e[0]);
  v12 = *v11;
  v13 = (v10 ? ((u64)15ULL) : v12);
  v14 = (v13 < a1);
  if (v14) {
    goto L4;
  } else {
    goto L5;
  }
L4: ;
  _ZNSt7__cxx1112basic_stringIcSt11char_traitsIcESaIcEE9_M_mutateEmmPKcm(a0, v1, ((u64)0ULL), ((u8*)0), v3);
  if (v_exc) return;
  goto L5;
L5: ;
  v15 = (v3 == ((u64)0ULL));
  if (v15) {
    goto L10;
  } else {
    goto L6;
  }
L6: ;
  v16 = *v6;
  v17 = (u8*)(v16 + (s64)((s64)v1));
  v18 = (v3 == ((u64)1ULL));
  if (v18) {
    goto L7;
  } else {
    goto L8;
  }
L7: ;
  *v17 = a2;
  goto L10;
L8: ;
  v_memset((u8*)v17, a2, (u64)v3);
  goto L10;
L9: ;
  v19 = (v1 > a1);
  if (v19) {
    goto L10;
  } else {
    goto L11;
  }
L10: ;
  *v0 = a1;
  v20 = (u8**)(&(*a0).f0.f0);
  v21 = *v20;
  v22 = (u8*)(v21 + (s64)((s64)a1));
  *v22 = ((u8)0ULL);
  goto L11;
L11: ;
  return;
}

void _ZNSt13runtime_errorD2Ev(struct S3_class_std__runtime_error* a0) { }
u8* _ZNKSt13runtime_error4whatEv(struct S3_class_std__runtime_error* a0) { static u8 empty[1]; return (u8*)empty; }
void _ZNSt13runtime_errorC2EPKc(struct S3_class_std__runtime_error* a0, u8* a1) { }
void v_run_static_init(void) {
  static int done; if (done) return; done = 1;
  _GLOBAL__sub_I_Decoder_cc();
  __cxx_global_var_init();
  __cxx_global_var_init_2();
  __cxx_global_var_init_3();
  __cxx_global_var_init_4();
  __cxx_global_var_init_5();
  _GLOBAL__sub_I_Encoder_cc();
  _GLOBAL__sub_I_WriteBuffer_cc();
}
u1 v_exc_match(u8* want) {
  if (v_exc_ti == (u8*)&_ZTIN14OpenVolumeMesh2IO6detail11parse_errorE) return 0 || want == (u8*)&_ZTIN14OpenVolumeMesh2IO6detail11parse_errorE || want == (u8*)&_ZTIN14OpenVolumeMesh2IO6detail8io_errorE || want == (u8*)&_ZTISt13runtime_error;
  if (v_exc_ti == (u8*)&_ZTISt13runtime_error) return 0 || want == (u8*)&_ZTISt13runtime_error;
  if (v_exc_ti == (u8*)&_ZTIN14OpenVolumeMesh2IO6detail8io_errorE) return 0 || want == (u8*)&_ZTIN14OpenVolumeMesh2IO6detail8io_errorE || want == (u8*)&_ZTISt13runtime_error;
  return 0;
}
