#include "v_rt.h"
struct S0_class_std__ios_base__Init;
struct S1;
struct S2;
struct S3_struct_std__array_13;
struct S4_class_OpenVolumeMesh__IO__detail__Decode;
struct S5_class_std____cxx11__basic_string;
struct S6_class_std__runtime_error;
struct S7_class_OpenVolumeMesh__IO__detail__parse_;
struct S8_class_std__vector;
struct S9_struct_OpenVolumeMesh__IO__detail__FileH;
struct S10_struct_OpenVolumeMesh__IO__detail__Array;
struct S11_struct_OpenVolumeMesh__IO__detail__Chunk;
struct S12_struct_OpenVolumeMesh__IO__detail__PropC;
struct S13_struct_OpenVolumeMesh__IO__detail__Verte;
struct S14_struct_OpenVolumeMesh__IO__detail__TopoC;
struct S15_struct_OpenVolumeMesh__IO__detail__Prope;
struct S16;
struct S17_struct_std__array;
struct S18_union_anon;
struct S19_struct_std__array_9;
struct A0;
struct A1;
struct A2;
struct A3;
struct A4;
struct A5;
struct A6;
struct A7;
struct A8;
struct A9;
struct A10;
struct A11;
struct A12;
struct A13;
struct A14;
struct A15;
struct A16;
struct A17;
struct A18;
struct A19;
struct A20;
struct A21;
struct A22;
struct A23;
struct A24;
struct A25;
struct A26;
struct A27;
struct A28;
struct A29;
struct A30;
struct A31;
struct A32;
struct A33;
struct A34;
struct A35;
struct A36;
struct A37;
struct A38;
struct A39;
struct A40;
struct A41;
struct A42;
struct A43;
struct A44;
struct S0_class_std__ios_base__Init { u8 f0; };
struct S1 { u8* f0; u8* f1; u8* f2; };
struct A45 { u8* e[5]; };
struct S2 { struct A45 f0; };
struct A46 { u8 e[8]; };
struct S3_struct_std__array_13 { struct A46 f0; };
struct S20_struct_std___Vector_base_unsigned_char__ { u8* f0; u8* f1; u8* f2; };
struct S21_struct_std___Vector_base_unsigned_char__ { struct S20_struct_std___Vector_base_unsigned_char__ f0; };
struct S22_struct_std___Vector_base { struct S21_struct_std___Vector_base_unsigned_char__ f0; };
struct S8_class_std__vector { struct S22_struct_std___Vector_base f0; };
struct S4_class_OpenVolumeMesh__IO__detail__Decode { struct S8_class_std__vector f0; u8* f1; u8* f2; };
struct S23_struct_std____cxx11__basic_string_char__ { u8* f0; };
struct A47 { u8 e[16]; };
struct S18_union_anon { struct A47 f0; };
struct S5_class_std____cxx11__basic_string { struct S23_struct_std____cxx11__basic_string_char__ f0; u64 f1; struct S18_union_anon f2; };
struct S24_class_std__exception { fnptr_t* f0; };
struct S25_struct_std____cow_string { struct S23_struct_std____cxx11__basic_string_char__ f0; };
struct S6_class_std__runtime_error { struct S24_class_std__exception f0; struct S25_struct_std____cow_string f1; };
struct S26_class_OpenVolumeMesh__IO__detail__io_err { struct S6_class_std__runtime_error f0; };
struct S7_class_OpenVolumeMesh__IO__detail__parse_ { struct S26_class_OpenVolumeMesh__IO__detail__io_err f0; };
struct S9_struct_OpenVolumeMesh__IO__detail__FileH { u8 f0; u8 f1; u8 f2; u8 f3; u64 f4; u64 f5; u64 f6; u64 f7; };
struct S10_struct_OpenVolumeMesh__IO__detail__Array { u64 f0; u32 f1; };
struct S11_struct_OpenVolumeMesh__IO__detail__Chunk { u32 f0; u8 f1; u8 f2; u8 f3; u8 f4; u64 f5; u64 f6; };
struct S12_struct_OpenVolumeMesh__IO__detail__PropC { struct S10_struct_OpenVolumeMesh__IO__detail__Array f0; u32 f1; };
struct S13_struct_OpenVolumeMesh__IO__detail__Verte { struct S10_struct_OpenVolumeMesh__IO__detail__Array f0; u8 f1; };
struct S14_struct_OpenVolumeMesh__IO__detail__TopoC { struct S10_struct_OpenVolumeMesh__IO__detail__Array f0; u8 f1; u8 f2; u8 f3; u8 f4; u64 f5; };
struct S15_struct_OpenVolumeMesh__IO__detail__Prope { u8 f0; struct S5_class_std____cxx11__basic_string f1; struct S5_class_std____cxx11__basic_string f2; struct S8_class_std__vector f3; };
struct S16 { u8* f0; u32 f1; };
struct A48 { u8 e[3]; };
struct S17_struct_std__array { struct A48 f0; };
struct A49 { u8 e[4]; };
struct S19_struct_std__array_9 { struct A49 f0; };
struct A0 { u8 e[64]; };
struct A1 { u8 e[48]; };
struct A2 { u8 e[52]; };
struct A3 { u8 e[47]; };
struct A4 { u8 e[54]; };
struct A5 { u8 e[51]; };
struct A6 { u8 e[153]; };
struct A7 { u8 e[164]; };
struct A8 { u8 e[50]; };
struct A9 { u8 e[22]; };
struct A10 { u8 e[42]; };
struct A11 { u8 e[58]; };
struct A12 { u8 e[45]; };
struct A13 { u8 e[198]; };
struct A14 { u8 e[96]; };
struct A15 { u8 e[23]; };
struct A16 { u8 e[49]; };
struct A17 { u8 e[55]; };
struct A18 { u8 e[40]; };
struct A19 { u8 e[184]; };
struct A20 { u8 e[28]; };
struct A21 { u8 e[33]; };
struct A22 { u8 e[135]; };
struct A23 { u8 e[21]; };
struct A24 { u8 e[188]; };
struct A25 { u8 e[30]; };
struct A26 { u8 e[43]; };
struct A27 { u8 e[186]; };
struct A28 { u8 e[178]; };
struct A29 { u8 e[31]; };
struct A30 { u8 e[56]; };
struct A31 { u8 e[39]; };
struct A32 { u8 e[29]; };
struct A33 { u8 e[38]; };
struct A34 { u8 e[85]; };
struct A35 { u8 e[57]; };
struct A36 { u8 e[18]; };
struct A37 { u8 e[26]; };
struct A38 { u8 e[37]; };
struct A39 { u8 e[61]; };
struct A40 { u8 e[66]; };
struct A41 { u8 e[25]; };
struct A42 { u8 e[19]; };
struct A43 { u8 e[14]; };
struct A44 { u8 e[201]; };
extern struct A0 _ZL5g_raw;
extern struct A1 _str_1;
extern struct A2 _str_6;
extern struct A3 _str_7;
extern struct A4 _str_8;
extern struct A5 _str_9;
extern struct A5 _str_10;
extern struct A6 _str_11;
extern struct A7 _str_12;
extern struct A8 _str_13;
extern struct A9 _str_14;
extern struct A1 _str_15;
extern struct A4 _str_16;
extern struct A10 _str_17;
extern struct A4 _str_18;
extern struct A11 _str_19;
extern struct A12 _str_20;
extern struct A13 _str_21;
extern struct A14 _str_22;
extern struct A5 _str_23;
extern struct A15 _str_24;
extern struct A16 _str_25;
extern struct A17 _str_26;
extern struct A5 _str_27;
extern struct A18 _str_28;
extern struct A19 _str_29;
extern struct A20 _str_30;
extern struct A16 _str_31;
extern struct A17 _str_32;
extern struct A21 _str_33;
extern struct A22 _str_34;
extern struct A23 _str_35;
extern struct A16 _str_36;
extern struct A17 _str_37;
extern struct A10 _str_38;
extern struct A17 _str_39;
extern struct A11 _str_40;
extern struct A24 _str_41;
extern struct A25 _str_42;
extern struct A16 _str_43;
extern struct A17 _str_44;
extern struct A18 _str_45;
extern struct A17 _str_46;
extern struct A26 _str_47;
extern struct A27 _str_48;
extern struct A28 _str_49;
extern struct A20 _str_50;
extern struct A16 _str_51;
extern struct A17 _str_52;
extern struct A29 _str_53;
extern struct A30 _str_54;
extern struct A5 _str_55;
extern struct A25 _str_56;
extern struct A31 _str_57;
extern struct A21 _str_58;
extern struct A16 _str_61;
extern struct A30 _str_62;
extern struct A5 _str_63;
extern struct A32 _str_64;
extern struct A33 _str_65;
extern struct A16 _str_66;
extern struct A17 _str_67;
extern struct A26 _str_68;
extern struct A17 _str_69;
extern struct A4 _str_70;
extern struct A34 _str_71;
extern struct A35 _str_72;
extern struct A36 _str_73;
extern struct A37 _str_74;
extern struct A16 _str_75;
extern struct A17 _str_76;
extern struct A38 _str_77;
extern struct A17 _str_78;
extern struct A39 _str_79;
extern struct A34 _str_80;
extern struct A40 _str_81;
extern struct A41 _str_82;
extern struct A16 _str_84;
extern struct A17 _str_85;
extern struct A18 _str_86;
extern struct A17 _str_88;
extern struct A30 _str_89;
extern struct S0_class_std__ios_base__Init _ZStL8__ioinit;
extern struct A42 _str_5;
extern struct A43 _str_1_12;
extern struct A42 _str_59;
extern struct A10 _ZTSN14OpenVolumeMesh2IO6detail11parse_errorE;
extern struct S1 _ZTIN14OpenVolumeMesh2IO6detail11parse_errorE;
extern u64 _ZN14OpenVolumeMesh2IO6detail9ovmb_sizeINS1_10FileHeaderEEE;
extern u64 _ZN14OpenVolumeMesh2IO6detail9ovmb_sizeINS1_9ArraySpanEEE;
extern u64 _ZN14OpenVolumeMesh2IO6detail9ovmb_sizeINS1_11ChunkHeaderEEE;
extern struct A26 _str_1_66;
extern u64 _ZN14OpenVolumeMesh2IO6detail9ovmb_sizeINS1_15PropChunkHeaderEEE;
extern u64 _ZN14OpenVolumeMesh2IO6detail9ovmb_sizeINS1_17VertexChunkHeaderEEE;
extern u64 _ZN14OpenVolumeMesh2IO6detail9ovmb_sizeINS1_15TopoChunkHeaderEEE;
extern struct S2 _ZTVN14OpenVolumeMesh2IO6detail11parse_errorE;
extern u64 _ZGVN14OpenVolumeMesh2IO6detail9ovmb_sizeINS1_10FileHeaderEEE;
extern u64 _ZN14OpenVolumeMesh2IO6detail9ovmb_sizeINS1_8TopoTypeEEE;
extern u64 _ZGVN14OpenVolumeMesh2IO6detail9ovmb_sizeINS1_11ChunkHeaderEEE;
extern u64 _ZN14OpenVolumeMesh2IO6detail9ovmb_sizeINS1_9ChunkTypeEEE;
extern u64 _ZN14OpenVolumeMesh2IO6detail9ovmb_sizeINS1_10ChunkFlagsEEE;
extern u64 _ZGVN14OpenVolumeMesh2IO6detail9ovmb_sizeINS1_15PropChunkHeaderEEE;
extern u64 _ZGVN14OpenVolumeMesh2IO6detail9ovmb_sizeINS1_17VertexChunkHeaderEEE;
extern u64 _ZGVN14OpenVolumeMesh2IO6detail9ovmb_sizeINS1_15TopoChunkHeaderEEE;
extern u64 _ZN14OpenVolumeMesh2IO6detail9ovmb_sizeINS1_10TopoEntityEEE;
extern u64 _ZN14OpenVolumeMesh2IO6detail9ovmb_sizeINS1_11IntEncodingEEE;
extern struct S3_struct_std__array_13 _ZN14OpenVolumeMesh2IO6detail10ovmb_magicE;
extern struct A44 _ZZNSt8__detail18__to_chars_10_implImEEvPcjT_E8__digits;
extern struct S0_class_std__ios_base__Init _ZStL8__ioinit_94;
extern u8* _ZTVN10__cxxabiv120__si_class_type_infoE;
extern struct A33 _ZTSN14OpenVolumeMesh2IO6detail8io_errorE;
extern u8* _ZTISt13runtime_error;
extern struct S1 _ZTIN14OpenVolumeMesh2IO6detail8io_errorE;
extern struct S0_class_std__ios_base__Init _ZStL8__ioinit_107;
extern u8 __dso_handle;
u32 v_nondet_u32(void);
void v_assume(u1);
u32 v_param(u32);
u8 v_nondet_u8(void);
u32 __gxx_personality_v0(void);
u8* _Znwm(u64);
u8* __cxa_begin_catch(u8*);
void __cxa_end_catch(void);
void v_assert(u1, u8*);
void v_witness(u8*);
void _ZdlPv(u8*);
void harness_file_header_full(void);
void harness_chunk_header(void);
void _ZN17Case_chunk_headerILj0EE3runEv(void);
void _ZN17Case_chunk_headerILj1EE3runEv(void);
void _ZN17Case_chunk_headerILj2EE3runEv(void);
void _ZN17Case_chunk_headerILj3EE3runEv(void);
void _ZN17Case_chunk_headerILj4EE3runEv(void);
void _ZN17Case_chunk_headerILj5EE3runEv(void);
void _ZN17Case_chunk_headerILj6EE3runEv(void);
void _ZN17Case_chunk_headerILj7EE3runEv(void);
void _ZN17Case_chunk_headerILj8EE3runEv(void);
void _ZN17Case_chunk_headerILj9EE3runEv(void);
void _ZN17Case_chunk_headerILj10EE3runEv(void);
void _ZN17Case_chunk_headerILj11EE3runEv(void);
void _ZN17Case_chunk_headerILj12EE3runEv(void);
void _ZN17Case_chunk_headerILj13EE3runEv(void);
void _ZN17Case_chunk_headerILj14EE3runEv(void);
void _ZN17Case_chunk_headerILj15EE3runEv(void);
void _ZN17Case_chunk_headerILj16EE3runEv(void);
void _ZN17Case_chunk_headerILj17EE3runEv(void);
void _ZN17Case_chunk_headerILj18EE3runEv(void);
void _ZN17Case_chunk_headerILj19EE3runEv(void);
void _ZN17Case_chunk_headerILj20EE3runEv(void);
void _ZN17Case_chunk_headerILj21EE3runEv(void);
void _ZN17Case_chunk_headerILj22EE3runEv(void);
void _ZN17Case_chunk_headerILj23EE3runEv(void);
void _ZN17Case_chunk_headerILj24EE3runEv(void);
void _ZL17body_chunk_headerj(u32);
void harness_prop_chunk_header(void);
void _ZN22Case_prop_chunk_headerILj0EE3runEv(void);
void _ZN22Case_prop_chunk_headerILj1EE3runEv(void);
void _ZN22Case_prop_chunk_headerILj2EE3runEv(void);
void _ZN22Case_prop_chunk_headerILj3EE3runEv(void);
void _ZN22Case_prop_chunk_headerILj4EE3runEv(void);
void _ZN22Case_prop_chunk_headerILj5EE3runEv(void);
void _ZN22Case_prop_chunk_headerILj6EE3runEv(void);
void _ZN22Case_prop_chunk_headerILj7EE3runEv(void);
void _ZN22Case_prop_chunk_headerILj8EE3runEv(void);
void _ZN22Case_prop_chunk_headerILj9EE3runEv(void);
void _ZN22Case_prop_chunk_headerILj10EE3runEv(void);
void _ZN22Case_prop_chunk_headerILj11EE3runEv(void);
void _ZN22Case_prop_chunk_headerILj12EE3runEv(void);
void _ZN22Case_prop_chunk_headerILj13EE3runEv(void);
void _ZN22Case_prop_chunk_headerILj14EE3runEv(void);
void _ZN22Case_prop_chunk_headerILj15EE3runEv(void);
void _ZN22Case_prop_chunk_headerILj16EE3runEv(void);
void _ZN22Case_prop_chunk_headerILj17EE3runEv(void);
void _ZN22Case_prop_chunk_headerILj18EE3runEv(void);
void _ZN22Case_prop_chunk_headerILj19EE3runEv(void);
void _ZN22Case_prop_chunk_headerILj20EE3runEv(void);
void _ZN22Case_prop_chunk_headerILj21EE3runEv(void);
void _ZN22Case_prop_chunk_headerILj22EE3runEv(void);
void _ZN22Case_prop_chunk_headerILj23EE3runEv(void);
void _ZN22Case_prop_chunk_headerILj24EE3runEv(void);
void _ZL22body_prop_chunk_headerj(u32);
void harness_array_span(void);
void _ZN15Case_array_spanILj0EE3runEv(void);
void _ZN15Case_array_spanILj1EE3runEv(void);
void _ZN15Case_array_spanILj2EE3runEv(void);
void _ZN15Case_array_spanILj3EE3runEv(void);
void _ZN15Case_array_spanILj4EE3runEv(void);
void _ZN15Case_array_spanILj5EE3runEv(void);
void _ZN15Case_array_spanILj6EE3runEv(void);
void _ZN15Case_array_spanILj7EE3runEv(void);
void _ZN15Case_array_spanILj8EE3runEv(void);
void _ZN15Case_array_spanILj9EE3runEv(void);
void _ZN15Case_array_spanILj10EE3runEv(void);
void _ZN15Case_array_spanILj11EE3runEv(void);
void _ZN15Case_array_spanILj12EE3runEv(void);
void _ZN15Case_array_spanILj13EE3runEv(void);
void _ZN15Case_array_spanILj14EE3runEv(void);
void _ZN15Case_array_spanILj15EE3runEv(void);
void _ZN15Case_array_spanILj16EE3runEv(void);
void _ZN15Case_array_spanILj17EE3runEv(void);
void _ZN15Case_array_spanILj18EE3runEv(void);
void _ZN15Case_array_spanILj19EE3runEv(void);
void _ZN15Case_array_spanILj20EE3runEv(void);
void _ZN15Case_array_spanILj21EE3runEv(void);
void _ZN15Case_array_spanILj22EE3runEv(void);
void _ZN15Case_array_spanILj23EE3runEv(void);
void _ZN15Case_array_spanILj24EE3runEv(void);
void _ZL15body_array_spanj(u32);
void harness_vertex_chunk_header(void);
void _ZN24Case_vertex_chunk_headerILj0EE3runEv(void);
void _ZN24Case_vertex_chunk_headerILj1EE3runEv(void);
void _ZN24Case_vertex_chunk_headerILj2EE3runEv(void);
void _ZN24Case_vertex_chunk_headerILj3EE3runEv(void);
void _ZN24Case_vertex_chunk_headerILj4EE3runEv(void);
void _ZN24Case_vertex_chunk_headerILj5EE3runEv(void);
void _ZN24Case_vertex_chunk_headerILj6EE3runEv(void);
void _ZN24Case_vertex_chunk_headerILj7EE3runEv(void);
void _ZN24Case_vertex_chunk_headerILj8EE3runEv(void);
void _ZN24Case_vertex_chunk_headerILj9EE3runEv(void);
void _ZN24Case_vertex_chunk_headerILj10EE3runEv(void);
void _ZN24Case_vertex_chunk_headerILj11EE3runEv(void);
void _ZN24Case_vertex_chunk_headerILj12EE3runEv(void);
void _ZN24Case_vertex_chunk_headerILj13EE3runEv(void);
void _ZN24Case_vertex_chunk_headerILj14EE3runEv(void);
void _ZN24Case_vertex_chunk_headerILj15EE3runEv(void);
void _ZN24Case_vertex_chunk_headerILj16EE3runEv(void);
void _ZN24Case_vertex_chunk_headerILj17EE3runEv(void);
void _ZN24Case_vertex_chunk_headerILj18EE3runEv(void);
void _ZN24Case_vertex_chunk_headerILj19EE3runEv(void);
void _ZN24Case_vertex_chunk_headerILj20EE3runEv(void);
void _ZN24Case_vertex_chunk_headerILj21EE3runEv(void);
void _ZN24Case_vertex_chunk_headerILj22EE3runEv(void);
void _ZN24Case_vertex_chunk_headerILj23EE3runEv(void);
void _ZN24Case_vertex_chunk_headerILj24EE3runEv(void);
void _ZL24body_vertex_chunk_headerj(u32);
void harness_topo_chunk_header(void);
void _ZN22Case_topo_chunk_headerILj0EE3runEv(void);
void _ZN22Case_topo_chunk_headerILj1EE3runEv(void);
void _ZN22Case_topo_chunk_headerILj2EE3runEv(void);
void _ZN22Case_topo_chunk_headerILj3EE3runEv(void);
void _ZN22Case_topo_chunk_headerILj4EE3runEv(void);
void _ZN22Case_topo_chunk_headerILj5EE3runEv(void);
void _ZN22Case_topo_chunk_headerILj6EE3runEv(void);
void _ZN22Case_topo_chunk_headerILj7EE3runEv(void);
void _ZN22Case_topo_chunk_headerILj8EE3runEv(void);
void _ZN22Case_topo_chunk_headerILj9EE3runEv(void);
void _ZN22Case_topo_chunk_headerILj10EE3runEv(void);
void _ZN22Case_topo_chunk_headerILj11EE3runEv(void);
void _ZN22Case_topo_chunk_headerILj12EE3runEv(void);
void _ZN22Case_topo_chunk_headerILj13EE3runEv(void);
void _ZN22Case_topo_chunk_headerILj14EE3runEv(void);
void _ZN22Case_topo_chunk_headerILj15EE3runEv(void);
void _ZN22Case_topo_chunk_headerILj16EE3runEv(void);
void _ZN22Case_topo_chunk_headerILj17EE3runEv(void);
void _ZN22Case_topo_chunk_headerILj18EE3runEv(void);
void _ZN22Case_topo_chunk_headerILj19EE3runEv(void);
void _ZN22Case_topo_chunk_headerILj20EE3runEv(void);
void _ZN22Case_topo_chunk_headerILj21EE3runEv(void);
void _ZN22Case_topo_chunk_headerILj22EE3runEv(void);
void _ZN22Case_topo_chunk_headerILj23EE3runEv(void);
void _ZN22Case_topo_chunk_headerILj24EE3runEv(void);
void _ZL22body_topo_chunk_headerj(u32);
void harness_reserved3(void);
void _ZN14Case_reserved3ILj0EE3runEv(void);
void _ZN14Case_reserved3ILj1EE3runEv(void);
void _ZN14Case_reserved3ILj2EE3runEv(void);
void _ZN14Case_reserved3ILj3EE3runEv(void);
void _ZN14Case_reserved3ILj4EE3runEv(void);
void _ZN14Case_reserved3ILj5EE3runEv(void);
void _ZN14Case_reserved3ILj6EE3runEv(void);
void _ZN14Case_reserved3ILj7EE3runEv(void);
void _ZN14Case_reserved3ILj8EE3runEv(void);
void _ZL14body_reserved3j(u32);
void _ZN14OpenVolumeMesh2IO6detail7Decoder8reservedILh3EEEvv(struct S4_class_OpenVolumeMesh__IO__detail__Decode*);
u8* __cxa_allocate_exception(u64);
void _ZNSt7__cxx119to_stringEm(struct S5_class_std____cxx11__basic_string*, u64);
void _ZStplIcSt11char_traitsIcESaIcEENSt7__cxx1112basic_stringIT_T0_T1_EEPKS5_OS8_(struct S5_class_std____cxx11__basic_string*, u8*, struct S5_class_std____cxx11__basic_string*);
void _ZNSt13runtime_errorC2ERKNSt7__cxx1112basic_stringIcSt11char_traitsIcESaIcEEE(struct S6_class_std__runtime_error*, struct S5_class_std____cxx11__basic_string*);
void _ZNSt13runtime_errorD2Ev(struct S6_class_std__runtime_error*);
void __cxa_throw(u8*, u8*, u8*);
void __cxa_free_exception(u8*);
void _ZN14OpenVolumeMesh2IO6detail11parse_errorD0Ev(struct S7_class_OpenVolumeMesh__IO__detail__parse_*);
u8* _ZNKSt13runtime_error4whatEv(struct S6_class_std__runtime_error*);
u64 strlen(u8*);
void harness_reserved4(void);
void _ZN14Case_reserved4ILj0EE3runEv(void);
void _ZN14Case_reserved4ILj1EE3runEv(void);
void _ZN14Case_reserved4ILj2EE3runEv(void);
void _ZN14Case_reserved4ILj3EE3runEv(void);
void _ZN14Case_reserved4ILj4EE3runEv(void);
void _ZN14Case_reserved4ILj5EE3runEv(void);
void _ZN14Case_reserved4ILj6EE3runEv(void);
void _ZN14Case_reserved4ILj7EE3runEv(void);
void _ZN14Case_reserved4ILj8EE3runEv(void);
void _ZL14body_reserved4j(u32);
void _ZN14OpenVolumeMesh2IO6detail7Decoder8reservedILh4EEEvv(struct S4_class_OpenVolumeMesh__IO__detail__Decode*);
void harness_padding(void);
void _ZN12Case_paddingILj0EE3runEv(void);
void _ZN12Case_paddingILj1EE3runEv(void);
void _ZN12Case_paddingILj2EE3runEv(void);
void _ZN12Case_paddingILj3EE3runEv(void);
void _ZN12Case_paddingILj4EE3runEv(void);
void _ZN12Case_paddingILj5EE3runEv(void);
void _ZN12Case_paddingILj6EE3runEv(void);
void _ZN12Case_paddingILj7EE3runEv(void);
void _ZN12Case_paddingILj8EE3runEv(void);
void _ZN12Case_paddingILj9EE3runEv(void);
void _ZN12Case_paddingILj10EE3runEv(void);
void _ZN12Case_paddingILj11EE3runEv(void);
void _ZN12Case_paddingILj12EE3runEv(void);
void _ZN12Case_paddingILj13EE3runEv(void);
void _ZN12Case_paddingILj14EE3runEv(void);
void _ZN12Case_paddingILj15EE3runEv(void);
void _ZN12Case_paddingILj16EE3runEv(void);
void _ZN12Case_paddingILj17EE3runEv(void);
void _ZN12Case_paddingILj18EE3runEv(void);
void _ZN12Case_paddingILj19EE3runEv(void);
void _ZN12Case_paddingILj20EE3runEv(void);
void _ZN12Case_paddingILj21EE3runEv(void);
void _ZN12Case_paddingILj22EE3runEv(void);
void _ZN12Case_paddingILj23EE3runEv(void);
void _ZN12Case_paddingILj24EE3runEv(void);
void _ZL12body_paddingj(u32);
void harness_readvec(void);
void _ZN12Case_readvecILj0EE3runEv(void);
void _ZN12Case_readvecILj1EE3runEv(void);
void _ZN12Case_readvecILj2EE3runEv(void);
void _ZN12Case_readvecILj3EE3runEv(void);
void _ZN12Case_readvecILj4EE3runEv(void);
void _ZN12Case_readvecILj5EE3runEv(void);
void _ZN12Case_readvecILj6EE3runEv(void);
void _ZN12Case_readvecILj7EE3runEv(void);
void _ZN12Case_readvecILj8EE3runEv(void);
void _ZN12Case_readvecILj9EE3runEv(void);
void _ZN12Case_readvecILj10EE3runEv(void);
void _ZN12Case_readvecILj11EE3runEv(void);
void _ZN12Case_readvecILj12EE3runEv(void);
void _ZN12Case_readvecILj13EE3runEv(void);
void _ZN12Case_readvecILj14EE3runEv(void);
void _ZN12Case_readvecILj15EE3runEv(void);
void _ZN12Case_readvecILj16EE3runEv(void);
void _ZN12Case_readvecILj17EE3runEv(void);
void _ZN12Case_readvecILj18EE3runEv(void);
void _ZN12Case_readvecILj19EE3runEv(void);
void _ZN12Case_readvecILj20EE3runEv(void);
void _ZN12Case_readvecILj21EE3runEv(void);
void _ZN12Case_readvecILj22EE3runEv(void);
void _ZN12Case_readvecILj23EE3runEv(void);
void _ZN12Case_readvecILj24EE3runEv(void);
void _ZL12body_readvecj(u32);
void _ZNSt6vectorIhSaIhEE17_M_default_appendEm(struct S8_class_std__vector*, u64);
void harness_string_after_need(void);
void _ZN22Case_string_after_needILj0EE3runEv(void);
void _ZN22Case_string_after_needILj1EE3runEv(void);
void _ZN22Case_string_after_needILj2EE3runEv(void);
void _ZN22Case_string_after_needILj3EE3runEv(void);
void _ZN22Case_string_after_needILj4EE3runEv(void);
void _ZN22Case_string_after_needILj5EE3runEv(void);
void _ZN22Case_string_after_needILj6EE3runEv(void);
void _ZN22Case_string_after_needILj7EE3runEv(void);
void _ZN22Case_string_after_needILj8EE3runEv(void);
void _ZN22Case_string_after_needILj9EE3runEv(void);
void _ZN22Case_string_after_needILj10EE3runEv(void);
void _ZN22Case_string_after_needILj11EE3runEv(void);
void _ZN22Case_string_after_needILj12EE3runEv(void);
void _ZN22Case_string_after_needILj13EE3runEv(void);
void _ZN22Case_string_after_needILj14EE3runEv(void);
void _ZN22Case_string_after_needILj15EE3runEv(void);
void _ZN22Case_string_after_needILj16EE3runEv(void);
void _ZN22Case_string_after_needILj17EE3runEv(void);
void _ZN22Case_string_after_needILj18EE3runEv(void);
void _ZN22Case_string_after_needILj19EE3runEv(void);
void _ZN22Case_string_after_needILj20EE3runEv(void);
void _ZN22Case_string_after_needILj21EE3runEv(void);
void _ZN22Case_string_after_needILj22EE3runEv(void);
void _ZN22Case_string_after_needILj23EE3runEv(void);
void _ZN22Case_string_after_needILj24EE3runEv(void);
void _ZL22body_string_after_needj(u32);
void harness_property_info_short(void);
void _ZN24Case_property_info_shortILj0EE3runEv(void);
void _ZN24Case_property_info_shortILj1EE3runEv(void);
void _ZN24Case_property_info_shortILj2EE3runEv(void);
void _ZN24Case_property_info_shortILj3EE3runEv(void);
void _ZN24Case_property_info_shortILj4EE3runEv(void);
void _ZN24Case_property_info_shortILj5EE3runEv(void);
void _ZN24Case_property_info_shortILj6EE3runEv(void);
void _ZN24Case_property_info_shortILj7EE3runEv(void);
void _ZN24Case_property_info_shortILj8EE3runEv(void);
void _ZN24Case_property_info_shortILj9EE3runEv(void);
void _ZN24Case_property_info_shortILj10EE3runEv(void);
void _ZN24Case_property_info_shortILj11EE3runEv(void);
void _ZN24Case_property_info_shortILj12EE3runEv(void);
void _ZL24body_property_info_shortj(u32);
void harness_property_info_13(void);
void _ZN21Case_property_info_13ILj0EE3runEv(void);
void _GLOBAL__sub_I_Decoder_cc(void);
void _ZNSt8ios_base4InitC1Ev(struct S0_class_std__ios_base__Init*);
void _ZNSt8ios_base4InitD1Ev(struct S0_class_std__ios_base__Init*);
u32 __cxa_atexit(fnptr_t, u8*, u8*);
u8 _ZN14OpenVolumeMesh2IO6detail7Decoder2u8Ev(struct S4_class_OpenVolumeMesh__IO__detail__Decode*);
u32 _ZN14OpenVolumeMesh2IO6detail7Decoder3u32Ev(struct S4_class_OpenVolumeMesh__IO__detail__Decode*);
u64 _ZN14OpenVolumeMesh2IO6detail7Decoder3u64Ev(struct S4_class_OpenVolumeMesh__IO__detail__Decode*);
void _ZN14OpenVolumeMesh2IO6detail7Decoder4readERNSt7__cxx1112basic_stringIcSt11char_traitsIcESaIcEEE(struct S4_class_OpenVolumeMesh__IO__detail__Decode*, struct S5_class_std____cxx11__basic_string*);
void _ZN14OpenVolumeMesh2IO6detail11parse_errorCI2St13runtime_errorEPKc(struct S7_class_OpenVolumeMesh__IO__detail__parse_*, u8*);
void _ZNSt13runtime_errorC2EPKc(struct S6_class_std__runtime_error*, u8*);
void _ZN14OpenVolumeMesh2IO6detail7Decoder4needEm(struct S4_class_OpenVolumeMesh__IO__detail__Decode*, u64);
void _ZN14OpenVolumeMesh2IO6detail7Decoder4readEPcm(struct S4_class_OpenVolumeMesh__IO__detail__Decode*, u8*, u64);
void _ZN14OpenVolumeMesh2IO6detail7Decoder4readEPhm(struct S4_class_OpenVolumeMesh__IO__detail__Decode*, u8*, u64);
void _ZN14OpenVolumeMesh2IO6detail7Decoder7paddingEh(struct S4_class_OpenVolumeMesh__IO__detail__Decode*, u8);
void __cxx_global_var_init(void);
void __cxx_global_var_init_2(void);
void __cxx_global_var_init_3(void);
void __cxx_global_var_init_4(void);
void __cxx_global_var_init_5(void);
u32 __cxa_guard_acquire(u64*);
void __cxa_guard_release(u64*);
u1 _ZN14OpenVolumeMesh2IO6detail4readERNS1_7DecoderERNS1_10FileHeaderE(struct S4_class_OpenVolumeMesh__IO__detail__Decode*, struct S9_struct_OpenVolumeMesh__IO__detail__FileH*);
u32 bcmp(u8*, u8*, u64);
void _ZN14OpenVolumeMesh2IO6detail4readERNS1_7DecoderERNS1_9ArraySpanE(struct S4_class_OpenVolumeMesh__IO__detail__Decode*, struct S10_struct_OpenVolumeMesh__IO__detail__Array*);
void _ZN14OpenVolumeMesh2IO6detail4readERNS1_7DecoderERNS1_11ChunkHeaderE(struct S4_class_OpenVolumeMesh__IO__detail__Decode*, struct S11_struct_OpenVolumeMesh__IO__detail__Chunk*);
void _ZN14OpenVolumeMesh2IO6detail4readERNS1_7DecoderERNS1_15PropChunkHeaderE(struct S4_class_OpenVolumeMesh__IO__detail__Decode*, struct S12_struct_OpenVolumeMesh__IO__detail__PropC*);
void _ZN14OpenVolumeMesh2IO6detail4readERNS1_7DecoderERNS1_17VertexChunkHeaderE(struct S4_class_OpenVolumeMesh__IO__detail__Decode*, struct S13_struct_OpenVolumeMesh__IO__detail__Verte*);
void _ZN14OpenVolumeMesh2IO6detail4readERNS1_7DecoderERNS1_15TopoChunkHeaderE(struct S4_class_OpenVolumeMesh__IO__detail__Decode*, struct S14_struct_OpenVolumeMesh__IO__detail__TopoC*);
void _ZN14OpenVolumeMesh2IO6detail4readERNS1_7DecoderERNS1_12PropertyInfoE(struct S4_class_OpenVolumeMesh__IO__detail__Decode*, struct S15_struct_OpenVolumeMesh__IO__detail__Prope*);
void _GLOBAL__sub_I_Encoder_cc(void);
void _GLOBAL__sub_I_WriteBuffer_cc(void);
void _ZSt20__throw_length_errorPKc(u8*);
void v_throw_std(u32);
void _ZSt17__throw_bad_allocv(void);
void _ZNSt7__cxx1112basic_stringIcSt11char_traitsIcESaIcEE12_M_constructEmc(struct S5_class_std____cxx11__basic_string*, u64, u8);
void _ZNSt7__cxx1112basic_stringIcSt11char_traitsIcESaIcEE9_M_mutateEmmPKcm(struct S5_class_std____cxx11__basic_string*, u64, u64, u8*, u64);
struct S5_class_std____cxx11__basic_string* _ZNSt7__cxx1112basic_stringIcSt11char_traitsIcESaIcEE10_M_replaceEmmPKcm(struct S5_class_std____cxx11__basic_string*, u64, u64, u8*, u64);
void _ZNSt7__cxx1112basic_stringIcSt11char_traitsIcESaIcEE6resizeEmc(struct S5_class_std____cxx11__basic_string*, u64, u8);
void v_run_static_init(void);
struct A0 _ZL5g_raw = {0};
struct A1 _str_1 = {{((u8)111ULL), ((u8)117ULL), ((u8)116ULL), ((u8)32ULL), ((u8)33ULL), ((u8)61ULL), ((u8)32ULL), ((u8)79ULL), ((u8)84ULL), ((u8)72ULL), ((u8)69ULL), ((u8)82ULL), ((u8)32ULL), ((u8)64ULL), ((u8)47ULL), ((u8)118ULL), ((u8)101ULL), ((u8)114ULL), ((u8)105ULL), ((u8)102ULL), ((u8)47ULL), ((u8)104ULL), ((u8)97ULL), ((u8)114ULL), ((u8)110ULL), ((u8)101ULL), ((u8)115ULL), ((u8)115ULL), ((u8)47ULL), ((u8)67ULL), ((u8)48ULL), ((u8)55ULL), ((u8)95ULL), ((u8)100ULL), ((u8)101ULL), ((u8)99ULL), ((u8)111ULL), ((u8)100ULL), ((u8)101ULL), ((u8)114ULL), ((u8)46ULL), ((u8)99ULL), ((u8)112ULL), ((u8)112ULL), ((u8)58ULL), ((u8)53ULL), ((u8)54ULL), ((u8)0ULL)}};
struct A2 _str_6 = {{((u8)111ULL), ((u8)117ULL), ((u8)116ULL), ((u8)32ULL), ((u8)61ULL), ((u8)61ULL), ((u8)32ULL), ((u8)79ULL), ((u8)75ULL), ((u8)32ULL), ((u8)38ULL), ((u8)38ULL), ((u8)32ULL), ((u8)33ULL), ((u8)111ULL), ((u8)107ULL), ((u8)32ULL), ((u8)64ULL), ((u8)47ULL), ((u8)118ULL), ((u8)101ULL), ((u8)114ULL), ((u8)105ULL), ((u8)102ULL), ((u8)47ULL), ((u8)104ULL), ((u8)97ULL), ((u8)114ULL), ((u8)110ULL), ((u8)101ULL), ((u8)115ULL), ((u8)115ULL), ((u8)47ULL), ((u8)67ULL), ((u8)48ULL), ((u8)55ULL), ((u8)95ULL), ((u8)100ULL), ((u8)101ULL), ((u8)99ULL), ((u8)111ULL), ((u8)100ULL), ((u8)101ULL), ((u8)114ULL), ((u8)46ULL), ((u8)99ULL), ((u8)112ULL), ((u8)112ULL), ((u8)58ULL), ((u8)54ULL), ((u8)52ULL), ((u8)0ULL)}};
struct A3 _str_7 = {{((u8)102ULL), ((u8)105ULL), ((u8)108ULL), ((u8)101ULL), ((u8)32ULL), ((u8)104ULL), ((u8)101ULL), ((u8)97ULL), ((u8)100ULL), ((u8)101ULL), ((u8)114ULL), ((u8)58ULL), ((u8)32ULL), ((u8)98ULL), ((u8)97ULL), ((u8)100ULL), ((u8)32ULL), ((u8)109ULL), ((u8)97ULL), ((u8)103ULL), ((u8)105ULL), ((u8)99ULL), ((u8)47ULL), ((u8)104ULL), ((u8)101ULL), ((u8)97ULL), ((u8)100ULL), ((u8)101ULL), ((u8)114ULL), ((u8)95ULL), ((u8)118ULL), ((u8)101ULL), ((u8)114ULL), ((u8)115ULL), ((u8)105ULL), ((u8)111ULL), ((u8)110ULL), ((u8)32ULL), ((u8)45ULL), ((u8)62ULL), ((u8)32ULL), ((u8)102ULL), ((u8)97ULL), ((u8)108ULL), ((u8)115ULL), ((u8)101ULL), ((u8)0ULL)}};
struct A4 _str_8 = {{((u8)111ULL), ((u8)117ULL), ((u8)116ULL), ((u8)32ULL), ((u8)61ULL), ((u8)61ULL), ((u8)32ULL), ((u8)80ULL), ((u8)65ULL), ((u8)82ULL), ((u8)83ULL), ((u8)69ULL), ((u8)95ULL), ((u8)69ULL), ((u8)82ULL), ((u8)82ULL), ((u8)79ULL), ((u8)82ULL), ((u8)32ULL), ((u8)64ULL), ((u8)47ULL), ((u8)118ULL), ((u8)101ULL), ((u8)114ULL), ((u8)105ULL), ((u8)102ULL), ((u8)47ULL), ((u8)104ULL), ((u8)97ULL), ((u8)114ULL), ((u8)110ULL), ((u8)101ULL), ((u8)115ULL), ((u8)115ULL), ((u8)47ULL), ((u8)67ULL), ((u8)48ULL), ((u8)55ULL), ((u8)95ULL), ((u8)100ULL), ((u8)101ULL), ((u8)99ULL), ((u8)111ULL), ((u8)100ULL), ((u8)101ULL), ((u8)114ULL), ((u8)46ULL), ((u8)99ULL), ((u8)112ULL), ((u8)112ULL), ((u8)58ULL), ((u8)54ULL), ((u8)53ULL), ((u8)0ULL)}};
struct A5 _str_9 = {{((u8)102ULL), ((u8)105ULL), ((u8)108ULL), ((u8)101ULL), ((u8)32ULL), ((u8)104ULL), ((u8)101ULL), ((u8)97ULL), ((u8)100ULL), ((u8)101ULL), ((u8)114ULL), ((u8)58ULL), ((u8)32ULL), ((u8)98ULL), ((u8)97ULL), ((u8)100ULL), ((u8)32ULL), ((u8)116ULL), ((u8)111ULL), ((u8)112ULL), ((u8)111ULL), ((u8)95ULL), ((u8)116ULL), ((u8)121ULL), ((u8)112ULL), ((u8)101ULL), ((u8)47ULL), ((u8)114ULL), ((u8)101ULL), ((u8)115ULL), ((u8)101ULL), ((u8)114ULL), ((u8)118ULL), ((u8)101ULL), ((u8)100ULL), ((u8)32ULL), ((u8)45ULL), ((u8)62ULL), ((u8)32ULL), ((u8)112ULL), ((u8)97ULL), ((u8)114ULL), ((u8)115ULL), ((u8)101ULL), ((u8)95ULL), ((u8)101ULL), ((u8)114ULL), ((u8)114ULL), ((u8)111ULL), ((u8)114ULL), ((u8)0ULL)}};
struct A5 _str_10 = {{((u8)111ULL), ((u8)117ULL), ((u8)116ULL), ((u8)32ULL), ((u8)61ULL), ((u8)61ULL), ((u8)32ULL), ((u8)79ULL), ((u8)75ULL), ((u8)32ULL), ((u8)38ULL), ((u8)38ULL), ((u8)32ULL), ((u8)111ULL), ((u8)107ULL), ((u8)32ULL), ((u8)64ULL), ((u8)47ULL), ((u8)118ULL), ((u8)101ULL), ((u8)114ULL), ((u8)105ULL), ((u8)102ULL), ((u8)47ULL), ((u8)104ULL), ((u8)97ULL), ((u8)114ULL), ((u8)110ULL), ((u8)101ULL), ((u8)115ULL), ((u8)115ULL), ((u8)47ULL), ((u8)67ULL), ((u8)48ULL), ((u8)55ULL), ((u8)95ULL), ((u8)100ULL), ((u8)101ULL), ((u8)99ULL), ((u8)111ULL), ((u8)100ULL), ((u8)101ULL), ((u8)114ULL), ((u8)46ULL), ((u8)99ULL), ((u8)112ULL), ((u8)112ULL), ((u8)58ULL), ((u8)54ULL), ((u8)54ULL), ((u8)0ULL)}};
struct A6 _str_11 = {{((u8)104ULL), ((u8)46ULL), ((u8)102ULL), ((u8)105ULL), ((u8)108ULL), ((u8)101ULL), ((u8)95ULL), ((u8)118ULL), ((u8)101ULL), ((u8)114ULL), ((u8)115ULL), ((u8)105ULL), ((u8)111ULL), ((u8)110ULL), ((u8)32ULL), ((u8)61ULL), ((u8)61ULL), ((u8)32ULL), ((u8)98ULL), ((u8)121ULL), ((u8)116ULL), ((u8)101ULL), ((u8)115ULL), ((u8)91ULL), ((u8)56ULL), ((u8)93ULL), ((u8)32ULL), ((u8)38ULL), ((u8)38ULL), ((u8)32ULL), ((u8)104ULL), ((u8)46ULL), ((u8)104ULL), ((u8)101ULL), ((u8)97ULL), ((u8)100ULL), ((u8)101ULL), ((u8)114ULL), ((u8)95ULL), ((u8)118ULL), ((u8)101ULL), ((u8)114ULL), ((u8)115ULL), ((u8)105ULL), ((u8)111ULL), ((u8)110ULL), ((u8)32ULL), ((u8)61ULL), ((u8)61ULL), ((u8)32ULL), ((u8)49ULL), ((u8)32ULL), ((u8)38ULL), ((u8)38ULL), ((u8)32ULL), ((u8)104ULL), ((u8)46ULL), ((u8)118ULL), ((u8)101ULL), ((u8)114ULL), ((u8)116ULL), ((u8)101ULL), ((u8)120ULL), ((u8)95ULL), ((u8)100ULL), ((u8)105ULL), ((u8)109ULL), ((u8)32ULL), ((u8)61ULL), ((u8)61ULL), ((u8)32ULL), ((u8)98ULL), ((u8)121ULL), ((u8)116ULL), ((u8)101ULL), ((u8)115ULL), ((u8)91ULL), ((u8)49ULL), ((u8)48ULL), ((u8)93ULL), ((u8)32ULL), ((u8)38ULL), ((u8)38ULL), ((u8)32ULL), ((u8)40ULL), ((u8)117ULL), ((u8)105ULL), ((u8)110ULL), ((u8)116ULL), ((u8)56ULL), ((u8)95ULL), ((u8)116ULL), ((u8)41ULL), ((u8)104ULL), ((u8)46ULL), ((u8)116ULL), ((u8)111ULL), ((u8)112ULL), ((u8)111ULL), ((u8)95ULL), ((u8)116ULL), ((u8)121ULL), ((u8)112ULL), ((u8)101ULL), ((u8)32ULL), ((u8)61ULL), ((u8)61ULL), ((u8)32ULL), ((u8)98ULL), ((u8)121ULL), ((u8)116ULL), ((u8)101ULL), ((u8)115ULL), ((u8)91ULL), ((u8)49ULL), ((u8)49ULL), ((u8)93ULL), ((u8)32ULL), ((u8)64ULL), ((u8)47ULL), ((u8)118ULL), ((u8)101ULL), ((u8)114ULL), ((u8)105ULL), ((u8)102ULL), ((u8)47ULL), ((u8)104ULL), ((u8)97ULL), ((u8)114ULL), ((u8)110ULL), ((u8)101ULL), ((u8)115ULL), ((u8)115ULL), ((u8)47ULL), ((u8)67ULL), ((u8)48ULL), ((u8)55ULL), ((u8)95ULL), ((u8)100ULL), ((u8)101ULL), ((u8)99ULL), ((u8)111ULL), ((u8)100ULL), ((u8)101ULL), ((u8)114ULL), ((u8)46ULL), ((u8)99ULL), ((u8)112ULL), ((u8)112ULL), ((u8)58ULL), ((u8)54ULL), ((u8)55ULL), ((u8)0ULL)}};
struct A7 _str_12 = {{((u8)104ULL), ((u8)46ULL), ((u8)110ULL), ((u8)95ULL), ((u8)118ULL), ((u8)101ULL), ((u8)114ULL), ((u8)116ULL), ((u8)115ULL), ((u8)32ULL), ((u8)61ULL), ((u8)61ULL), ((u8)32ULL), ((u8)108ULL), ((u8)101ULL), ((u8)40ULL), ((u8)98ULL), ((u8)121ULL), ((u8)116ULL), ((u8)101ULL), ((u8)115ULL), ((u8)44ULL), ((u8)32ULL), ((u8)49ULL), ((u8)54ULL), ((u8)44ULL), ((u8)32ULL), ((u8)56ULL), ((u8)41ULL), ((u8)32ULL), ((u8)38ULL), ((u8)38ULL), ((u8)32ULL), ((u8)104ULL), ((u8)46ULL), ((u8)110ULL), ((u8)95ULL), ((u8)101ULL), ((u8)100ULL), ((u8)103ULL), ((u8)101ULL), ((u8)115ULL), ((u8)32ULL), ((u8)61ULL), ((u8)61ULL), ((u8)32ULL), ((u8)108ULL), ((u8)101ULL), ((u8)40ULL), ((u8)98ULL), ((u8)121ULL), ((u8)116ULL), ((u8)101ULL), ((u8)115ULL), ((u8)44ULL), ((u8)32ULL), ((u8)50ULL), ((u8)52ULL), ((u8)44ULL), ((u8)32ULL), ((u8)56ULL), ((u8)41ULL), ((u8)32ULL), ((u8)38ULL), ((u8)38ULL), ((u8)32ULL), ((u8)104ULL), ((u8)46ULL), ((u8)110ULL), ((u8)95ULL), ((u8)102ULL), ((u8)97ULL), ((u8)99ULL), ((u8)101ULL), ((u8)115ULL), ((u8)32ULL), ((u8)61ULL), ((u8)61ULL), ((u8)32ULL), ((u8)108ULL), ((u8)101ULL), ((u8)40ULL), ((u8)98ULL), ((u8)121ULL), ((u8)116ULL), ((u8)101ULL), ((u8)115ULL), ((u8)44ULL), ((u8)32ULL), ((u8)51ULL), ((u8)50ULL), ((u8)44ULL), ((u8)32ULL), ((u8)56ULL), ((u8)41ULL), ((u8)32ULL), ((u8)38ULL), ((u8)38ULL), ((u8)32ULL), ((u8)104ULL), ((u8)46ULL), ((u8)110ULL), ((u8)95ULL), ((u8)99ULL), ((u8)101ULL), ((u8)108ULL), ((u8)108ULL), ((u8)115ULL), ((u8)32ULL), ((u8)61ULL), ((u8)61ULL), ((u8)32ULL), ((u8)108ULL), ((u8)101ULL), ((u8)40ULL), ((u8)98ULL), ((u8)121ULL), ((u8)116ULL), ((u8)101ULL), ((u8)115ULL), ((u8)44ULL), ((u8)32ULL), ((u8)52ULL), ((u8)48ULL), ((u8)44ULL), ((u8)32ULL), ((u8)56ULL), ((u8)41ULL), ((u8)32ULL), ((u8)64ULL), ((u8)47ULL), ((u8)118ULL), ((u8)101ULL), ((u8)114ULL), ((u8)105ULL), ((u8)102ULL), ((u8)47ULL), ((u8)104ULL), ((u8)97ULL), ((u8)114ULL), ((u8)110ULL), ((u8)101ULL), ((u8)115ULL), ((u8)115ULL), ((u8)47ULL), ((u8)67ULL), ((u8)48ULL), ((u8)55ULL), ((u8)95ULL), ((u8)100ULL), ((u8)101ULL), ((u8)99ULL), ((u8)111ULL), ((u8)100ULL), ((u8)101ULL), ((u8)114ULL), ((u8)46ULL), ((u8)99ULL), ((u8)112ULL), ((u8)112ULL), ((u8)58ULL), ((u8)54ULL), ((u8)56ULL), ((u8)0ULL)}};
struct A8 _str_13 = {{((u8)100ULL), ((u8)101ULL), ((u8)99ULL), ((u8)46ULL), ((u8)102ULL), ((u8)105ULL), ((u8)110ULL), ((u8)105ULL), ((u8)115ULL), ((u8)104ULL), ((u8)101ULL), ((u8)100ULL), ((u8)40ULL), ((u8)41ULL), ((u8)32ULL), ((u8)64ULL), ((u8)47ULL), ((u8)118ULL), ((u8)101ULL), ((u8)114ULL), ((u8)105ULL), ((u8)102ULL), ((u8)47ULL), ((u8)104ULL), ((u8)97ULL), ((u8)114ULL), ((u8)110ULL), ((u8)101ULL), ((u8)115ULL), ((u8)115ULL), ((u8)47ULL), ((u8)67ULL), ((u8)48ULL), ((u8)55ULL), ((u8)95ULL), ((u8)100ULL), ((u8)101ULL), ((u8)99ULL), ((u8)111ULL), ((u8)100ULL), ((u8)101ULL), ((u8)114ULL), ((u8)46ULL), ((u8)99ULL), ((u8)112ULL), ((u8)112ULL), ((u8)58ULL), ((u8)54ULL), ((u8)57ULL), ((u8)0ULL)}};
struct A9 _str_14 = {{((u8)102ULL), ((u8)105ULL), ((u8)108ULL), ((u8)101ULL), ((u8)32ULL), ((u8)104ULL), ((u8)101ULL), ((u8)97ULL), ((u8)100ULL), ((u8)101ULL), ((u8)114ULL), ((u8)58ULL), ((u8)32ULL), ((u8)97ULL), ((u8)99ULL), ((u8)99ULL), ((u8)101ULL), ((u8)112ULL), ((u8)116ULL), ((u8)101ULL), ((u8)100ULL), ((u8)0ULL)}};
struct A1 _str_15 = {{((u8)111ULL), ((u8)117ULL), ((u8)116ULL), ((u8)32ULL), ((u8)33ULL), ((u8)61ULL), ((u8)32ULL), ((u8)79ULL), ((u8)84ULL), ((u8)72ULL), ((u8)69ULL), ((u8)82ULL), ((u8)32ULL), ((u8)64ULL), ((u8)47ULL), ((u8)118ULL), ((u8)101ULL), ((u8)114ULL), ((u8)105ULL), ((u8)102ULL), ((u8)47ULL), ((u8)104ULL), ((u8)97ULL), ((u8)114ULL), ((u8)110ULL), ((u8)101ULL), ((u8)115ULL), ((u8)115ULL), ((u8)47ULL), ((u8)67ULL), ((u8)48ULL), ((u8)55ULL), ((u8)95ULL), ((u8)100ULL), ((u8)101ULL), ((u8)99ULL), ((u8)111ULL), ((u8)100ULL), ((u8)101ULL), ((u8)114ULL), ((u8)46ULL), ((u8)99ULL), ((u8)112ULL), ((u8)112ULL), ((u8)58ULL), ((u8)56ULL), ((u8)50ULL), ((u8)0ULL)}};
struct A4 _str_16 = {{((u8)111ULL), ((u8)117ULL), ((u8)116ULL), ((u8)32ULL), ((u8)61ULL), ((u8)61ULL), ((u8)32ULL), ((u8)80ULL), ((u8)65ULL), ((u8)82ULL), ((u8)83ULL), ((u8)69ULL), ((u8)95ULL), ((u8)69ULL), ((u8)82ULL), ((u8)82ULL), ((u8)79ULL), ((u8)82ULL), ((u8)32ULL), ((u8)64ULL), ((u8)47ULL), ((u8)118ULL), ((u8)101ULL), ((u8)114ULL), ((u8)105ULL), ((u8)102ULL), ((u8)47ULL), ((u8)104ULL), ((u8)97ULL), ((u8)114ULL), ((u8)110ULL), ((u8)101ULL), ((u8)115ULL), ((u8)115ULL), ((u8)47ULL), ((u8)67ULL), ((u8)48ULL), ((u8)55ULL), ((u8)95ULL), ((u8)100ULL), ((u8)101ULL), ((u8)99ULL), ((u8)111ULL), ((u8)100ULL), ((u8)101ULL), ((u8)114ULL), ((u8)46ULL), ((u8)99ULL), ((u8)112ULL), ((u8)112ULL), ((u8)58ULL), ((u8)56ULL), ((u8)51ULL), ((u8)0ULL)}};
struct A10 _str_17 = {{((u8)99ULL), ((u8)104ULL), ((u8)117ULL), ((u8)110ULL), ((u8)107ULL), ((u8)32ULL), ((u8)104ULL), ((u8)101ULL), ((u8)97ULL), ((u8)100ULL), ((u8)101ULL), ((u8)114ULL), ((u8)58ULL), ((u8)32ULL), ((u8)115ULL), ((u8)104ULL), ((u8)111ULL), ((u8)114ULL), ((u8)116ULL), ((u8)32ULL), ((u8)98ULL), ((u8)117ULL), ((u8)102ULL), ((u8)102ULL), ((u8)101ULL), ((u8)114ULL), ((u8)32ULL), ((u8)45ULL), ((u8)62ULL), ((u8)32ULL), ((u8)112ULL), ((u8)97ULL), ((u8)114ULL), ((u8)115ULL), ((u8)101ULL), ((u8)95ULL), ((u8)101ULL), ((u8)114ULL), ((u8)114ULL), ((u8)111ULL), ((u8)114ULL), ((u8)0ULL)}};
struct A4 _str_18 = {{((u8)111ULL), ((u8)117ULL), ((u8)116ULL), ((u8)32ULL), ((u8)61ULL), ((u8)61ULL), ((u8)32ULL), ((u8)80ULL), ((u8)65ULL), ((u8)82ULL), ((u8)83ULL), ((u8)69ULL), ((u8)95ULL), ((u8)69ULL), ((u8)82ULL), ((u8)82ULL), ((u8)79ULL), ((u8)82ULL), ((u8)32ULL), ((u8)64ULL), ((u8)47ULL), ((u8)118ULL), ((u8)101ULL), ((u8)114ULL), ((u8)105ULL), ((u8)102ULL), ((u8)47ULL), ((u8)104ULL), ((u8)97ULL), ((u8)114ULL), ((u8)110ULL), ((u8)101ULL), ((u8)115ULL), ((u8)115ULL), ((u8)47ULL), ((u8)67ULL), ((u8)48ULL), ((u8)55ULL), ((u8)95ULL), ((u8)100ULL), ((u8)101ULL), ((u8)99ULL), ((u8)111ULL), ((u8)100ULL), ((u8)101ULL), ((u8)114ULL), ((u8)46ULL), ((u8)99ULL), ((u8)112ULL), ((u8)112ULL), ((u8)58ULL), ((u8)56ULL), ((u8)55ULL), ((u8)0ULL)}};
struct A11 _str_19 = {{((u8)99ULL), ((u8)104ULL), ((u8)117ULL), ((u8)110ULL), ((u8)107ULL), ((u8)32ULL), ((u8)104ULL), ((u8)101ULL), ((u8)97ULL), ((u8)100ULL), ((u8)101ULL), ((u8)114ULL), ((u8)58ULL), ((u8)32ULL), ((u8)98ULL), ((u8)97ULL), ((u8)100ULL), ((u8)32ULL), ((u8)102ULL), ((u8)108ULL), ((u8)97ULL), ((u8)103ULL), ((u8)115ULL), ((u8)32ULL), ((u8)47ULL), ((u8)32ULL), ((u8)112ULL), ((u8)97ULL), ((u8)100ULL), ((u8)100ULL), ((u8)105ULL), ((u8)110ULL), ((u8)103ULL), ((u8)32ULL), ((u8)62ULL), ((u8)32ULL), ((u8)108ULL), ((u8)101ULL), ((u8)110ULL), ((u8)103ULL), ((u8)116ULL), ((u8)104ULL), ((u8)32ULL), ((u8)45ULL), ((u8)62ULL), ((u8)32ULL), ((u8)112ULL), ((u8)97ULL), ((u8)114ULL), ((u8)115ULL), ((u8)101ULL), ((u8)95ULL), ((u8)101ULL), ((u8)114ULL), ((u8)114ULL), ((u8)111ULL), ((u8)114ULL), ((u8)0ULL)}};
struct A12 _str_20 = {{((u8)111ULL), ((u8)117ULL), ((u8)116ULL), ((u8)32ULL), ((u8)61ULL), ((u8)61ULL), ((u8)32ULL), ((u8)79ULL), ((u8)75ULL), ((u8)32ULL), ((u8)64ULL), ((u8)47ULL), ((u8)118ULL), ((u8)101ULL), ((u8)114ULL), ((u8)105ULL), ((u8)102ULL), ((u8)47ULL), ((u8)104ULL), ((u8)97ULL), ((u8)114ULL), ((u8)110ULL), ((u8)101ULL), ((u8)115ULL), ((u8)115ULL), ((u8)47ULL), ((u8)67ULL), ((u8)48ULL), ((u8)55ULL), ((u8)95ULL), ((u8)100ULL), ((u8)101ULL), ((u8)99ULL), ((u8)111ULL), ((u8)100ULL), ((u8)101ULL), ((u8)114ULL), ((u8)46ULL), ((u8)99ULL), ((u8)112ULL), ((u8)112ULL), ((u8)58ULL), ((u8)56ULL), ((u8)56ULL), ((u8)0ULL)}};
struct A13 _str_21 = {{((u8)40ULL), ((u8)117ULL), ((u8)105ULL), ((u8)110ULL), ((u8)116ULL), ((u8)51ULL), ((u8)50ULL), ((u8)95ULL), ((u8)116ULL), ((u8)41ULL), ((u8)104ULL), ((u8)46ULL), ((u8)116ULL), ((u8)121ULL), ((u8)112ULL), ((u8)101ULL), ((u8)32ULL), ((u8)61ULL), ((u8)61ULL), ((u8)32ULL), ((u8)40ULL), ((u8)117ULL), ((u8)105ULL), ((u8)110ULL), ((u8)116ULL), ((u8)51ULL), ((u8)50ULL), ((u8)95ULL), ((u8)116ULL), ((u8)41ULL), ((u8)108ULL), ((u8)101ULL), ((u8)40ULL), ((u8)98ULL), ((u8)121ULL), ((u8)116ULL), ((u8)101ULL), ((u8)115ULL), ((u8)44ULL), ((u8)32ULL), ((u8)48ULL), ((u8)44ULL), ((u8)32ULL), ((u8)52ULL), ((u8)41ULL), ((u8)32ULL), ((u8)38ULL), ((u8)38ULL), ((u8)32ULL), ((u8)104ULL), ((u8)46ULL), ((u8)118ULL), ((u8)101ULL), ((u8)114ULL), ((u8)115ULL), ((u8)105ULL), ((u8)111ULL), ((u8)110ULL), ((u8)32ULL), ((u8)61ULL), ((u8)61ULL), ((u8)32ULL), ((u8)98ULL), ((u8)121ULL), ((u8)116ULL), ((u8)101ULL), ((u8)115ULL), ((u8)91ULL), ((u8)52ULL), ((u8)93ULL), ((u8)32ULL), ((u8)38ULL), ((u8)38ULL), ((u8)32ULL), ((u8)104ULL), ((u8)46ULL), ((u8)112ULL), ((u8)97ULL), ((u8)100ULL), ((u8)100ULL), ((u8)105ULL), ((u8)110ULL), ((u8)103ULL), ((u8)95ULL), ((u8)98ULL), ((u8)121ULL), ((u8)116ULL), ((u8)101ULL), ((u8)115ULL), ((u8)32ULL), ((u8)61ULL), ((u8)61ULL), ((u8)32ULL), ((u8)98ULL), ((u8)121ULL), ((u8)116ULL), ((u8)101ULL), ((u8)115ULL), ((u8)91ULL), ((u8)53ULL), ((u8)93ULL), ((u8)32ULL), ((u8)38ULL), ((u8)38ULL), ((u8)32ULL), ((u8)104ULL), ((u8)46ULL), ((u8)99ULL), ((u8)111ULL), ((u8)109ULL), ((u8)112ULL), ((u8)114ULL), ((u8)101ULL), ((u8)115ULL), ((u8)115ULL), ((u8)105ULL), ((u8)111ULL), ((u8)110ULL), ((u8)32ULL), ((u8)61ULL), ((u8)61ULL), ((u8)32ULL), ((u8)98ULL), ((u8)121ULL), ((u8)116ULL), ((u8)101ULL), ((u8)115ULL), ((u8)91ULL), ((u8)54ULL), ((u8)93ULL), ((u8)32ULL), ((u8)38ULL), ((u8)38ULL), ((u8)32ULL), ((u8)40ULL), ((u8)117ULL), ((u8)105ULL), ((u8)110ULL), ((u8)116ULL), ((u8)56ULL), ((u8)95ULL), ((u8)116ULL), ((u8)41ULL), ((u8)104ULL), ((u8)46ULL), ((u8)102ULL), ((u8)108ULL), ((u8)97ULL), ((u8)103ULL), ((u8)115ULL), ((u8)32ULL), ((u8)61ULL), ((u8)61ULL), ((u8)32ULL), ((u8)98ULL), ((u8)121ULL), ((u8)116ULL), ((u8)101ULL), ((u8)115ULL), ((u8)91ULL), ((u8)55ULL), ((u8)93ULL), ((u8)32ULL), ((u8)64ULL), ((u8)47ULL), ((u8)118ULL), ((u8)101ULL), ((u8)114ULL), ((u8)105ULL), ((u8)102ULL), ((u8)47ULL), ((u8)104ULL), ((u8)97ULL), ((u8)114ULL), ((u8)110ULL), ((u8)101ULL), ((u8)115ULL), ((u8)115ULL), ((u8)47ULL), ((u8)67ULL), ((u8)48ULL), ((u8)55ULL), ((u8)95ULL), ((u8)100ULL), ((u8)101ULL), ((u8)99ULL), ((u8)111ULL), ((u8)100ULL), ((u8)101ULL), ((u8)114ULL), ((u8)46ULL), ((u8)99ULL), ((u8)112ULL), ((u8)112ULL), ((u8)58ULL), ((u8)56ULL), ((u8)57ULL), ((u8)0ULL)}};
struct A14 _str_22 = {{((u8)104ULL), ((u8)46ULL), ((u8)102ULL), ((u8)105ULL), ((u8)108ULL), ((u8)101ULL), ((u8)95ULL), ((u8)108ULL), ((u8)101ULL), ((u8)110ULL), ((u8)103ULL), ((u8)116ULL), ((u8)104ULL), ((u8)32ULL), ((u8)61ULL), ((u8)61ULL), ((u8)32ULL), ((u8)102ULL), ((u8)108ULL), ((u8)101ULL), ((u8)110ULL), ((u8)32ULL), ((u8)38ULL), ((u8)38ULL), ((u8)32ULL), ((u8)104ULL), ((u8)46ULL), ((u8)112ULL), ((u8)97ULL), ((u8)121ULL), ((u8)108ULL), ((u8)111ULL), ((u8)97ULL), ((u8)100ULL), ((u8)95ULL), ((u8)108ULL), ((u8)101ULL), ((u8)110ULL), ((u8)103ULL), ((u8)116ULL), ((u8)104ULL), ((u8)32ULL), ((u8)61ULL), ((u8)61ULL), ((u8)32ULL), ((u8)102ULL), ((u8)108ULL), ((u8)101ULL), ((u8)110ULL), ((u8)32ULL), ((u8)45ULL), ((u8)32ULL), ((u8)98ULL), ((u8)121ULL), ((u8)116ULL), ((u8)101ULL), ((u8)115ULL), ((u8)91ULL), ((u8)53ULL), ((u8)93ULL), ((u8)32ULL), ((u8)64ULL), ((u8)47ULL), ((u8)118ULL), ((u8)101ULL), ((u8)114ULL), ((u8)105ULL), ((u8)102ULL), ((u8)47ULL), ((u8)104ULL), ((u8)97ULL), ((u8)114ULL), ((u8)110ULL), ((u8)101ULL), ((u8)115ULL), ((u8)115ULL), ((u8)47ULL), ((u8)67ULL), ((u8)48ULL), ((u8)55ULL), ((u8)95ULL), ((u8)100ULL), ((u8)101ULL), ((u8)99ULL), ((u8)111ULL), ((u8)100ULL), ((u8)101ULL), ((u8)114ULL), ((u8)46ULL), ((u8)99ULL), ((u8)112ULL), ((u8)112ULL), ((u8)58ULL), ((u8)57ULL), ((u8)48ULL), ((u8)0ULL)}};
struct A5 _str_23 = {{((u8)100ULL), ((u8)101ULL), ((u8)99ULL), ((u8)46ULL), ((u8)112ULL), ((u8)111ULL), ((u8)115ULL), ((u8)40ULL), ((u8)41ULL), ((u8)32ULL), ((u8)61ULL), ((u8)61ULL), ((u8)32ULL), ((u8)49ULL), ((u8)54ULL), ((u8)32ULL), ((u8)64ULL), ((u8)47ULL), ((u8)118ULL), ((u8)101ULL), ((u8)114ULL), ((u8)105ULL), ((u8)102ULL), ((u8)47ULL), ((u8)104ULL), ((u8)97ULL), ((u8)114ULL), ((u8)110ULL), ((u8)101ULL), ((u8)115ULL), ((u8)115ULL), ((u8)47ULL), ((u8)67ULL), ((u8)48ULL), ((u8)55ULL), ((u8)95ULL), ((u8)100ULL), ((u8)101ULL), ((u8)99ULL), ((u8)111ULL), ((u8)100ULL), ((u8)101ULL), ((u8)114ULL), ((u8)46ULL), ((u8)99ULL), ((u8)112ULL), ((u8)112ULL), ((u8)58ULL), ((u8)57ULL), ((u8)49ULL), ((u8)0ULL)}};
struct A15 _str_24 = {{((u8)99ULL), ((u8)104ULL), ((u8)117ULL), ((u8)110ULL), ((u8)107ULL), ((u8)32ULL), ((u8)104ULL), ((u8)101ULL), ((u8)97ULL), ((u8)100ULL), ((u8)101ULL), ((u8)114ULL), ((u8)58ULL), ((u8)32ULL), ((u8)97ULL), ((u8)99ULL), ((u8)99ULL), ((u8)101ULL), ((u8)112ULL), ((u8)116ULL), ((u8)101ULL), ((u8)100ULL), ((u8)0ULL)}};
struct A16 _str_25 = {{((u8)111ULL), ((u8)117ULL), ((u8)116ULL), ((u8)32ULL), ((u8)33ULL), ((u8)61ULL), ((u8)32ULL), ((u8)79ULL), ((u8)84ULL), ((u8)72ULL), ((u8)69ULL), ((u8)82ULL), ((u8)32ULL), ((u8)64ULL), ((u8)47ULL), ((u8)118ULL), ((u8)101ULL), ((u8)114ULL), ((u8)105ULL), ((u8)102ULL), ((u8)47ULL), ((u8)104ULL), ((u8)97ULL), ((u8)114ULL), ((u8)110ULL), ((u8)101ULL), ((u8)115ULL), ((u8)115ULL), ((u8)47ULL), ((u8)67ULL), ((u8)48ULL), ((u8)55ULL), ((u8)95ULL), ((u8)100ULL), ((u8)101ULL), ((u8)99ULL), ((u8)111ULL), ((u8)100ULL), ((u8)101ULL), ((u8)114ULL), ((u8)46ULL), ((u8)99ULL), ((u8)112ULL), ((u8)112ULL), ((u8)58ULL), ((u8)49ULL), ((u8)48ULL), ((u8)49ULL), ((u8)0ULL)}};
struct A17 _str_26 = {{((u8)111ULL), ((u8)117ULL), ((u8)116ULL), ((u8)32ULL), ((u8)61ULL), ((u8)61ULL), ((u8)32ULL), ((u8)80ULL), ((u8)65ULL), ((u8)82ULL), ((u8)83ULL), ((u8)69ULL), ((u8)95ULL), ((u8)69ULL), ((u8)82ULL), ((u8)82ULL), ((u8)79ULL), ((u8)82ULL), ((u8)32ULL), ((u8)64ULL), ((u8)47ULL), ((u8)118ULL), ((u8)101ULL), ((u8)114ULL), ((u8)105ULL), ((u8)102ULL), ((u8)47ULL), ((u8)104ULL), ((u8)97ULL), ((u8)114ULL), ((u8)110ULL), ((u8)101ULL), ((u8)115ULL), ((u8)115ULL), ((u8)47ULL), ((u8)67ULL), ((u8)48ULL), ((u8)55ULL), ((u8)95ULL), ((u8)100ULL), ((u8)101ULL), ((u8)99ULL), ((u8)111ULL), ((u8)100ULL), ((u8)101ULL), ((u8)114ULL), ((u8)46ULL), ((u8)99ULL), ((u8)112ULL), ((u8)112ULL), ((u8)58ULL), ((u8)49ULL), ((u8)48ULL), ((u8)50ULL), ((u8)0ULL)}};
struct A5 _str_27 = {{((u8)100ULL), ((u8)101ULL), ((u8)99ULL), ((u8)46ULL), ((u8)112ULL), ((u8)111ULL), ((u8)115ULL), ((u8)40ULL), ((u8)41ULL), ((u8)32ULL), ((u8)61ULL), ((u8)61ULL), ((u8)32ULL), ((u8)48ULL), ((u8)32ULL), ((u8)64ULL), ((u8)47ULL), ((u8)118ULL), ((u8)101ULL), ((u8)114ULL), ((u8)105ULL), ((u8)102ULL), ((u8)47ULL), ((u8)104ULL), ((u8)97ULL), ((u8)114ULL), ((u8)110ULL), ((u8)101ULL), ((u8)115ULL), ((u8)115ULL), ((u8)47ULL), ((u8)67ULL), ((u8)48ULL), ((u8)55ULL), ((u8)95ULL), ((u8)100ULL), ((u8)101ULL), ((u8)99ULL), ((u8)111ULL), ((u8)100ULL), ((u8)101ULL), ((u8)114ULL), ((u8)46ULL), ((u8)99ULL), ((u8)112ULL), ((u8)112ULL), ((u8)58ULL), ((u8)49ULL), ((u8)48ULL), ((u8)50ULL), ((u8)0ULL)}};
struct A18 _str_28 = {{((u8)112ULL), ((u8)114ULL), ((u8)111ULL), ((u8)112ULL), ((u8)32ULL), ((u8)99ULL), ((u8)104ULL), ((u8)117ULL), ((u8)110ULL), ((u8)107ULL), ((u8)32ULL), ((u8)104ULL), ((u8)101ULL), ((u8)97ULL), ((u8)100ULL), ((u8)101ULL), ((u8)114ULL), ((u8)58ULL), ((u8)32ULL), ((u8)115ULL), ((u8)104ULL), ((u8)111ULL), ((u8)114ULL), ((u8)116ULL), ((u8)32ULL), ((u8)45ULL), ((u8)62ULL), ((u8)32ULL), ((u8)112ULL), ((u8)97ULL), ((u8)114ULL), ((u8)115ULL), ((u8)101ULL), ((u8)95ULL), ((u8)101ULL), ((u8)114ULL), ((u8)114ULL), ((u8)111ULL), ((u8)114ULL), ((u8)0ULL)}};
struct A19 _str_29 = {{((u8)111ULL), ((u8)117ULL), ((u8)116ULL), ((u8)32ULL), ((u8)61ULL), ((u8)61ULL), ((u8)32ULL), ((u8)79ULL), ((u8)75ULL), ((u8)32ULL), ((u8)38ULL), ((u8)38ULL), ((u8)32ULL), ((u8)104ULL), ((u8)46ULL), ((u8)115ULL), ((u8)112ULL), ((u8)97ULL), ((u8)110ULL), ((u8)46ULL), ((u8)102ULL), ((u8)105ULL), ((u8)114ULL), ((u8)115ULL), ((u8)116ULL), ((u8)32ULL), ((u8)61ULL), ((u8)61ULL), ((u8)32ULL), ((u8)108ULL), ((u8)101ULL), ((u8)40ULL), ((u8)98ULL), ((u8)121ULL), ((u8)116ULL), ((u8)101ULL), ((u8)115ULL), ((u8)44ULL), ((u8)32ULL), ((u8)48ULL), ((u8)44ULL), ((u8)32ULL), ((u8)56ULL), ((u8)41ULL), ((u8)32ULL), ((u8)38ULL), ((u8)38ULL), ((u8)32ULL), ((u8)104ULL), ((u8)46ULL), ((u8)115ULL), ((u8)112ULL), ((u8)97ULL), ((u8)110ULL), ((u8)46ULL), ((u8)99ULL), ((u8)111ULL), ((u8)117ULL), ((u8)110ULL), ((u8)116ULL), ((u8)32ULL), ((u8)61ULL), ((u8)61ULL), ((u8)32ULL), ((u8)40ULL), ((u8)117ULL), ((u8)105ULL), ((u8)110ULL), ((u8)116ULL), ((u8)51ULL), ((u8)50ULL), ((u8)95ULL), ((u8)116ULL), ((u8)41ULL), ((u8)108ULL), ((u8)101ULL), ((u8)40ULL), ((u8)98ULL), ((u8)121ULL), ((u8)116ULL), ((u8)101ULL), ((u8)115ULL), ((u8)44ULL), ((u8)32ULL), ((u8)56ULL), ((u8)44ULL), ((u8)32ULL), ((u8)52ULL), ((u8)41ULL), ((u8)32ULL), ((u8)38ULL), ((u8)38ULL), ((u8)32ULL), ((u8)104ULL), ((u8)46ULL), ((u8)105ULL), ((u8)100ULL), ((u8)120ULL), ((u8)32ULL), ((u8)61ULL), ((u8)61ULL), ((u8)32ULL), ((u8)40ULL), ((u8)117ULL), ((u8)105ULL), ((u8)110ULL), ((u8)116ULL), ((u8)51ULL), ((u8)50ULL), ((u8)95ULL), ((u8)116ULL), ((u8)41ULL), ((u8)108ULL), ((u8)101ULL), ((u8)40ULL), ((u8)98ULL), ((u8)121ULL), ((u8)116ULL), ((u8)101ULL), ((u8)115ULL), ((u8)44ULL), ((u8)32ULL), ((u8)49ULL), ((u8)50ULL), ((u8)44ULL), ((u8)32ULL), ((u8)52ULL), ((u8)41ULL), ((u8)32ULL), ((u8)38ULL), ((u8)38ULL), ((u8)32ULL), ((u8)100ULL), ((u8)101ULL), ((u8)99ULL), ((u8)46ULL), ((u8)112ULL), ((u8)111ULL), ((u8)115ULL), ((u8)40ULL), ((u8)41ULL), ((u8)32ULL), ((u8)61ULL), ((u8)61ULL), ((u8)32ULL), ((u8)49ULL), ((u8)54ULL), ((u8)32ULL), ((u8)64ULL), ((u8)47ULL), ((u8)118ULL), ((u8)101ULL), ((u8)114ULL), ((u8)105ULL), ((u8)102ULL), ((u8)47ULL), ((u8)104ULL), ((u8)97ULL), ((u8)114ULL), ((u8)110ULL), ((u8)101ULL), ((u8)115ULL), ((u8)115ULL), ((u8)47ULL), ((u8)67ULL), ((u8)48ULL), ((u8)55ULL), ((u8)95ULL), ((u8)100ULL), ((u8)101ULL), ((u8)99ULL), ((u8)111ULL), ((u8)100ULL), ((u8)101ULL), ((u8)114ULL), ((u8)46ULL), ((u8)99ULL), ((u8)112ULL), ((u8)112ULL), ((u8)58ULL), ((u8)49ULL), ((u8)48ULL), ((u8)51ULL), ((u8)0ULL)}};
struct A20 _str_30 = {{((u8)112ULL), ((u8)114ULL), ((u8)111ULL), ((u8)112ULL), ((u8)32ULL), ((u8)99ULL), ((u8)104ULL), ((u8)117ULL), ((u8)110ULL), ((u8)107ULL), ((u8)32ULL), ((u8)104ULL), ((u8)101ULL), ((u8)97ULL), ((u8)100ULL), ((u8)101ULL), ((u8)114ULL), ((u8)58ULL), ((u8)32ULL), ((u8)97ULL), ((u8)99ULL), ((u8)99ULL), ((u8)101ULL), ((u8)112ULL), ((u8)116ULL), ((u8)101ULL), ((u8)100ULL), ((u8)0ULL)}};
struct A16 _str_31 = {{((u8)111ULL), ((u8)117ULL), ((u8)116ULL), ((u8)32ULL), ((u8)33ULL), ((u8)61ULL), ((u8)32ULL), ((u8)79ULL), ((u8)84ULL), ((u8)72ULL), ((u8)69ULL), ((u8)82ULL), ((u8)32ULL), ((u8)64ULL), ((u8)47ULL), ((u8)118ULL), ((u8)101ULL), ((u8)114ULL), ((u8)105ULL), ((u8)102ULL), ((u8)47ULL), ((u8)104ULL), ((u8)97ULL), ((u8)114ULL), ((u8)110ULL), ((u8)101ULL), ((u8)115ULL), ((u8)115ULL), ((u8)47ULL), ((u8)67ULL), ((u8)48ULL), ((u8)55ULL), ((u8)95ULL), ((u8)100ULL), ((u8)101ULL), ((u8)99ULL), ((u8)111ULL), ((u8)100ULL), ((u8)101ULL), ((u8)114ULL), ((u8)46ULL), ((u8)99ULL), ((u8)112ULL), ((u8)112ULL), ((u8)58ULL), ((u8)49ULL), ((u8)49ULL), ((u8)50ULL), ((u8)0ULL)}};
struct A17 _str_32 = {{((u8)111ULL), ((u8)117ULL), ((u8)116ULL), ((u8)32ULL), ((u8)61ULL), ((u8)61ULL), ((u8)32ULL), ((u8)80ULL), ((u8)65ULL), ((u8)82ULL), ((u8)83ULL), ((u8)69ULL), ((u8)95ULL), ((u8)69ULL), ((u8)82ULL), ((u8)82ULL), ((u8)79ULL), ((u8)82ULL), ((u8)32ULL), ((u8)64ULL), ((u8)47ULL), ((u8)118ULL), ((u8)101ULL), ((u8)114ULL), ((u8)105ULL), ((u8)102ULL), ((u8)47ULL), ((u8)104ULL), ((u8)97ULL), ((u8)114ULL), ((u8)110ULL), ((u8)101ULL), ((u8)115ULL), ((u8)115ULL), ((u8)47ULL), ((u8)67ULL), ((u8)48ULL), ((u8)55ULL), ((u8)95ULL), ((u8)100ULL), ((u8)101ULL), ((u8)99ULL), ((u8)111ULL), ((u8)100ULL), ((u8)101ULL), ((u8)114ULL), ((u8)46ULL), ((u8)99ULL), ((u8)112ULL), ((u8)112ULL), ((u8)58ULL), ((u8)49ULL), ((u8)49ULL), ((u8)51ULL), ((u8)0ULL)}};
struct A21 _str_33 = {{((u8)97ULL), ((u8)114ULL), ((u8)114ULL), ((u8)97ULL), ((u8)121ULL), ((u8)32ULL), ((u8)115ULL), ((u8)112ULL), ((u8)97ULL), ((u8)110ULL), ((u8)58ULL), ((u8)32ULL), ((u8)115ULL), ((u8)104ULL), ((u8)111ULL), ((u8)114ULL), ((u8)116ULL), ((u8)32ULL), ((u8)45ULL), ((u8)62ULL), ((u8)32ULL), ((u8)112ULL), ((u8)97ULL), ((u8)114ULL), ((u8)115ULL), ((u8)101ULL), ((u8)95ULL), ((u8)101ULL), ((u8)114ULL), ((u8)114ULL), ((u8)111ULL), ((u8)114ULL), ((u8)0ULL)}};
struct A22 _str_34 = {{((u8)111ULL), ((u8)117ULL), ((u8)116ULL), ((u8)32ULL), ((u8)61ULL), ((u8)61ULL), ((u8)32ULL), ((u8)79ULL), ((u8)75ULL), ((u8)32ULL), ((u8)38ULL), ((u8)38ULL), ((u8)32ULL), ((u8)115ULL), ((u8)46ULL), ((u8)102ULL), ((u8)105ULL), ((u8)114ULL), ((u8)115ULL), ((u8)116ULL), ((u8)32ULL), ((u8)61ULL), ((u8)61ULL), ((u8)32ULL), ((u8)108ULL), ((u8)101ULL), ((u8)40ULL), ((u8)98ULL), ((u8)121ULL), ((u8)116ULL), ((u8)101ULL), ((u8)115ULL), ((u8)44ULL), ((u8)32ULL), ((u8)48ULL), ((u8)44ULL), ((u8)32ULL), ((u8)56ULL), ((u8)41ULL), ((u8)32ULL), ((u8)38ULL), ((u8)38ULL), ((u8)32ULL), ((u8)115ULL), ((u8)46ULL), ((u8)99ULL), ((u8)111ULL), ((u8)117ULL), ((u8)110ULL), ((u8)116ULL), ((u8)32ULL), ((u8)61ULL), ((u8)61ULL), ((u8)32ULL), ((u8)40ULL), ((u8)117ULL), ((u8)105ULL), ((u8)110ULL), ((u8)116ULL), ((u8)51ULL), ((u8)50ULL), ((u8)95ULL), ((u8)116ULL), ((u8)41ULL), ((u8)108ULL), ((u8)101ULL), ((u8)40ULL), ((u8)98ULL), ((u8)121ULL), ((u8)116ULL), ((u8)101ULL), ((u8)115ULL), ((u8)44ULL), ((u8)32ULL), ((u8)56ULL), ((u8)44ULL), ((u8)32ULL), ((u8)52ULL), ((u8)41ULL), ((u8)32ULL), ((u8)38ULL), ((u8)38ULL), ((u8)32ULL), ((u8)100ULL), ((u8)101ULL), ((u8)99ULL), ((u8)46ULL), ((u8)112ULL), ((u8)111ULL), ((u8)115ULL), ((u8)40ULL), ((u8)41ULL), ((u8)32ULL), ((u8)61ULL), ((u8)61ULL), ((u8)32ULL), ((u8)49ULL), ((u8)50ULL), ((u8)32ULL), ((u8)64ULL), ((u8)47ULL), ((u8)118ULL), ((u8)101ULL), ((u8)114ULL), ((u8)105ULL), ((u8)102ULL), ((u8)47ULL), ((u8)104ULL), ((u8)97ULL), ((u8)114ULL), ((u8)110ULL), ((u8)101ULL), ((u8)115ULL), ((u8)115ULL), ((u8)47ULL), ((u8)67ULL), ((u8)48ULL), ((u8)55ULL), ((u8)95ULL), ((u8)100ULL), ((u8)101ULL), ((u8)99ULL), ((u8)111ULL), ((u8)100ULL), ((u8)101ULL), ((u8)114ULL), ((u8)46ULL), ((u8)99ULL), ((u8)112ULL), ((u8)112ULL), ((u8)58ULL), ((u8)49ULL), ((u8)49ULL), ((u8)52ULL), ((u8)0ULL)}};
struct A23 _str_35 = {{((u8)97ULL), ((u8)114ULL), ((u8)114ULL), ((u8)97ULL), ((u8)121ULL), ((u8)32ULL), ((u8)115ULL), ((u8)112ULL), ((u8)97ULL), ((u8)110ULL), ((u8)58ULL), ((u8)32ULL), ((u8)97ULL), ((u8)99ULL), ((u8)99ULL), ((u8)101ULL), ((u8)112ULL), ((u8)116ULL), ((u8)101ULL), ((u8)100ULL), ((u8)0ULL)}};
struct A16 _str_36 = {{((u8)111ULL), ((u8)117ULL), ((u8)116ULL), ((u8)32ULL), ((u8)33ULL), ((u8)61ULL), ((u8)32ULL), ((u8)79ULL), ((u8)84ULL), ((u8)72ULL), ((u8)69ULL), ((u8)82ULL), ((u8)32ULL), ((u8)64ULL), ((u8)47ULL), ((u8)118ULL), ((u8)101ULL), ((u8)114ULL), ((u8)105ULL), ((u8)102ULL), ((u8)47ULL), ((u8)104ULL), ((u8)97ULL), ((u8)114ULL), ((u8)110ULL), ((u8)101ULL), ((u8)115ULL), ((u8)115ULL), ((u8)47ULL), ((u8)67ULL), ((u8)48ULL), ((u8)55ULL), ((u8)95ULL), ((u8)100ULL), ((u8)101ULL), ((u8)99ULL), ((u8)111ULL), ((u8)100ULL), ((u8)101ULL), ((u8)114ULL), ((u8)46ULL), ((u8)99ULL), ((u8)112ULL), ((u8)112ULL), ((u8)58ULL), ((u8)49ULL), ((u8)50ULL), ((u8)52ULL), ((u8)0ULL)}};
struct A17 _str_37 = {{((u8)111ULL), ((u8)117ULL), ((u8)116ULL), ((u8)32ULL), ((u8)61ULL), ((u8)61ULL), ((u8)32ULL), ((u8)80ULL), ((u8)65ULL), ((u8)82ULL), ((u8)83ULL), ((u8)69ULL), ((u8)95ULL), ((u8)69ULL), ((u8)82ULL), ((u8)82ULL), ((u8)79ULL), ((u8)82ULL), ((u8)32ULL), ((u8)64ULL), ((u8)47ULL), ((u8)118ULL), ((u8)101ULL), ((u8)114ULL), ((u8)105ULL), ((u8)102ULL), ((u8)47ULL), ((u8)104ULL), ((u8)97ULL), ((u8)114ULL), ((u8)110ULL), ((u8)101ULL), ((u8)115ULL), ((u8)115ULL), ((u8)47ULL), ((u8)67ULL), ((u8)48ULL), ((u8)55ULL), ((u8)95ULL), ((u8)100ULL), ((u8)101ULL), ((u8)99ULL), ((u8)111ULL), ((u8)100ULL), ((u8)101ULL), ((u8)114ULL), ((u8)46ULL), ((u8)99ULL), ((u8)112ULL), ((u8)112ULL), ((u8)58ULL), ((u8)49ULL), ((u8)50ULL), ((u8)53ULL), ((u8)0ULL)}};
struct A10 _str_38 = {{((u8)118ULL), ((u8)101ULL), ((u8)114ULL), ((u8)116ULL), ((u8)101ULL), ((u8)120ULL), ((u8)32ULL), ((u8)99ULL), ((u8)104ULL), ((u8)117ULL), ((u8)110ULL), ((u8)107ULL), ((u8)32ULL), ((u8)104ULL), ((u8)101ULL), ((u8)97ULL), ((u8)100ULL), ((u8)101ULL), ((u8)114ULL), ((u8)58ULL), ((u8)32ULL), ((u8)115ULL), ((u8)104ULL), ((u8)111ULL), ((u8)114ULL), ((u8)116ULL), ((u8)32ULL), ((u8)45ULL), ((u8)62ULL), ((u8)32ULL), ((u8)112ULL), ((u8)97ULL), ((u8)114ULL), ((u8)115ULL), ((u8)101ULL), ((u8)95ULL), ((u8)101ULL), ((u8)114ULL), ((u8)114ULL), ((u8)111ULL), ((u8)114ULL), ((u8)0ULL)}};
struct A17 _str_39 = {{((u8)111ULL), ((u8)117ULL), ((u8)116ULL), ((u8)32ULL), ((u8)61ULL), ((u8)61ULL), ((u8)32ULL), ((u8)80ULL), ((u8)65ULL), ((u8)82ULL), ((u8)83ULL), ((u8)69ULL), ((u8)95ULL), ((u8)69ULL), ((u8)82ULL), ((u8)82ULL), ((u8)79ULL), ((u8)82ULL), ((u8)32ULL), ((u8)64ULL), ((u8)47ULL), ((u8)118ULL), ((u8)101ULL), ((u8)114ULL), ((u8)105ULL), ((u8)102ULL), ((u8)47ULL), ((u8)104ULL), ((u8)97ULL), ((u8)114ULL), ((u8)110ULL), ((u8)101ULL), ((u8)115ULL), ((u8)115ULL), ((u8)47ULL), ((u8)67ULL), ((u8)48ULL), ((u8)55ULL), ((u8)95ULL), ((u8)100ULL), ((u8)101ULL), ((u8)99ULL), ((u8)111ULL), ((u8)100ULL), ((u8)101ULL), ((u8)114ULL), ((u8)46ULL), ((u8)99ULL), ((u8)112ULL), ((u8)112ULL), ((u8)58ULL), ((u8)49ULL), ((u8)50ULL), ((u8)56ULL), ((u8)0ULL)}};
struct A11 _str_40 = {{((u8)118ULL), ((u8)101ULL), ((u8)114ULL), ((u8)116ULL), ((u8)101ULL), ((u8)120ULL), ((u8)32ULL), ((u8)99ULL), ((u8)104ULL), ((u8)117ULL), ((u8)110ULL), ((u8)107ULL), ((u8)32ULL), ((u8)104ULL), ((u8)101ULL), ((u8)97ULL), ((u8)100ULL), ((u8)101ULL), ((u8)114ULL), ((u8)58ULL), ((u8)32ULL), ((u8)98ULL), ((u8)97ULL), ((u8)100ULL), ((u8)32ULL), ((u8)101ULL), ((u8)110ULL), ((u8)99ULL), ((u8)111ULL), ((u8)100ULL), ((u8)105ULL), ((u8)110ULL), ((u8)103ULL), ((u8)47ULL), ((u8)114ULL), ((u8)101ULL), ((u8)115ULL), ((u8)101ULL), ((u8)114ULL), ((u8)118ULL), ((u8)101ULL), ((u8)100ULL), ((u8)32ULL), ((u8)45ULL), ((u8)62ULL), ((u8)32ULL), ((u8)112ULL), ((u8)97ULL), ((u8)114ULL), ((u8)115ULL), ((u8)101ULL), ((u8)95ULL), ((u8)101ULL), ((u8)114ULL), ((u8)114ULL), ((u8)111ULL), ((u8)114ULL), ((u8)0ULL)}};
struct A24 _str_41 = {{((u8)111ULL), ((u8)117ULL), ((u8)116ULL), ((u8)32ULL), ((u8)61ULL), ((u8)61ULL), ((u8)32ULL), ((u8)79ULL), ((u8)75ULL), ((u8)32ULL), ((u8)38ULL), ((u8)38ULL), ((u8)32ULL), ((u8)104ULL), ((u8)46ULL), ((u8)115ULL), ((u8)112ULL), ((u8)97ULL), ((u8)110ULL), ((u8)46ULL), ((u8)102ULL), ((u8)105ULL), ((u8)114ULL), ((u8)115ULL), ((u8)116ULL), ((u8)32ULL), ((u8)61ULL), ((u8)61ULL), ((u8)32ULL), ((u8)108ULL), ((u8)101ULL), ((u8)40ULL), ((u8)98ULL), ((u8)121ULL), ((u8)116ULL), ((u8)101ULL), ((u8)115ULL), ((u8)44ULL), ((u8)32ULL), ((u8)48ULL), ((u8)44ULL), ((u8)32ULL), ((u8)56ULL), ((u8)41ULL), ((u8)32ULL), ((u8)38ULL), ((u8)38ULL), ((u8)32ULL), ((u8)104ULL), ((u8)46ULL), ((u8)115ULL), ((u8)112ULL), ((u8)97ULL), ((u8)110ULL), ((u8)46ULL), ((u8)99ULL), ((u8)111ULL), ((u8)117ULL), ((u8)110ULL), ((u8)116ULL), ((u8)32ULL), ((u8)61ULL), ((u8)61ULL), ((u8)32ULL), ((u8)40ULL), ((u8)117ULL), ((u8)105ULL), ((u8)110ULL), ((u8)116ULL), ((u8)51ULL), ((u8)50ULL), ((u8)95ULL), ((u8)116ULL), ((u8)41ULL), ((u8)108ULL), ((u8)101ULL), ((u8)40ULL), ((u8)98ULL), ((u8)121ULL), ((u8)116ULL), ((u8)101ULL), ((u8)115ULL), ((u8)44ULL), ((u8)32ULL), ((u8)56ULL), ((u8)44ULL), ((u8)32ULL), ((u8)52ULL), ((u8)41ULL), ((u8)32ULL), ((u8)38ULL), ((u8)38ULL), ((u8)32ULL), ((u8)40ULL), ((u8)117ULL), ((u8)105ULL), ((u8)110ULL), ((u8)116ULL), ((u8)56ULL), ((u8)95ULL), ((u8)116ULL), ((u8)41ULL), ((u8)104ULL), ((u8)46ULL), ((u8)118ULL), ((u8)101ULL), ((u8)114ULL), ((u8)116ULL), ((u8)101ULL), ((u8)120ULL), ((u8)95ULL), ((u8)101ULL), ((u8)110ULL), ((u8)99ULL), ((u8)111ULL), ((u8)100ULL), ((u8)105ULL), ((u8)110ULL), ((u8)103ULL), ((u8)32ULL), ((u8)61ULL), ((u8)61ULL), ((u8)32ULL), ((u8)98ULL), ((u8)121ULL), ((u8)116ULL), ((u8)101ULL), ((u8)115ULL), ((u8)91ULL), ((u8)49ULL), ((u8)50ULL), ((u8)93ULL), ((u8)32ULL), ((u8)38ULL), ((u8)38ULL), ((u8)32ULL), ((u8)100ULL), ((u8)101ULL), ((u8)99ULL), ((u8)46ULL), ((u8)112ULL), ((u8)111ULL), ((u8)115ULL), ((u8)40ULL), ((u8)41ULL), ((u8)32ULL), ((u8)61ULL), ((u8)61ULL), ((u8)32ULL), ((u8)49ULL), ((u8)54ULL), ((u8)32ULL), ((u8)64ULL), ((u8)47ULL), ((u8)118ULL), ((u8)101ULL), ((u8)114ULL), ((u8)105ULL), ((u8)102ULL), ((u8)47ULL), ((u8)104ULL), ((u8)97ULL), ((u8)114ULL), ((u8)110ULL), ((u8)101ULL), ((u8)115ULL), ((u8)115ULL), ((u8)47ULL), ((u8)67ULL), ((u8)48ULL), ((u8)55ULL), ((u8)95ULL), ((u8)100ULL), ((u8)101ULL), ((u8)99ULL), ((u8)111ULL), ((u8)100ULL), ((u8)101ULL), ((u8)114ULL), ((u8)46ULL), ((u8)99ULL), ((u8)112ULL), ((u8)112ULL), ((u8)58ULL), ((u8)49ULL), ((u8)50ULL), ((u8)57ULL), ((u8)0ULL)}};
struct A25 _str_42 = {{((u8)118ULL), ((u8)101ULL), ((u8)114ULL), ((u8)116ULL), ((u8)101ULL), ((u8)120ULL), ((u8)32ULL), ((u8)99ULL), ((u8)104ULL), ((u8)117ULL), ((u8)110ULL), ((u8)107ULL), ((u8)32ULL), ((u8)104ULL), ((u8)101ULL), ((u8)97ULL), ((u8)100ULL), ((u8)101ULL), ((u8)114ULL), ((u8)58ULL), ((u8)32ULL), ((u8)97ULL), ((u8)99ULL), ((u8)99ULL), ((u8)101ULL), ((u8)112ULL), ((u8)116ULL), ((u8)101ULL), ((u8)100ULL), ((u8)0ULL)}};
struct A16 _str_43 = {{((u8)111ULL), ((u8)117ULL), ((u8)116ULL), ((u8)32ULL), ((u8)33ULL), ((u8)61ULL), ((u8)32ULL), ((u8)79ULL), ((u8)84ULL), ((u8)72ULL), ((u8)69ULL), ((u8)82ULL), ((u8)32ULL), ((u8)64ULL), ((u8)47ULL), ((u8)118ULL), ((u8)101ULL), ((u8)114ULL), ((u8)105ULL), ((u8)102ULL), ((u8)47ULL), ((u8)104ULL), ((u8)97ULL), ((u8)114ULL), ((u8)110ULL), ((u8)101ULL), ((u8)115ULL), ((u8)115ULL), ((u8)47ULL), ((u8)67ULL), ((u8)48ULL), ((u8)55ULL), ((u8)95ULL), ((u8)100ULL), ((u8)101ULL), ((u8)99ULL), ((u8)111ULL), ((u8)100ULL), ((u8)101ULL), ((u8)114ULL), ((u8)46ULL), ((u8)99ULL), ((u8)112ULL), ((u8)112ULL), ((u8)58ULL), ((u8)49ULL), ((u8)52ULL), ((u8)48ULL), ((u8)0ULL)}};
struct A17 _str_44 = {{((u8)111ULL), ((u8)117ULL), ((u8)116ULL), ((u8)32ULL), ((u8)61ULL), ((u8)61ULL), ((u8)32ULL), ((u8)80ULL), ((u8)65ULL), ((u8)82ULL), ((u8)83ULL), ((u8)69ULL), ((u8)95ULL), ((u8)69ULL), ((u8)82ULL), ((u8)82ULL), ((u8)79ULL), ((u8)82ULL), ((u8)32ULL), ((u8)64ULL), ((u8)47ULL), ((u8)118ULL), ((u8)101ULL), ((u8)114ULL), ((u8)105ULL), ((u8)102ULL), ((u8)47ULL), ((u8)104ULL), ((u8)97ULL), ((u8)114ULL), ((u8)110ULL), ((u8)101ULL), ((u8)115ULL), ((u8)115ULL), ((u8)47ULL), ((u8)67ULL), ((u8)48ULL), ((u8)55ULL), ((u8)95ULL), ((u8)100ULL), ((u8)101ULL), ((u8)99ULL), ((u8)111ULL), ((u8)100ULL), ((u8)101ULL), ((u8)114ULL), ((u8)46ULL), ((u8)99ULL), ((u8)112ULL), ((u8)112ULL), ((u8)58ULL), ((u8)49ULL), ((u8)52ULL), ((u8)49ULL), ((u8)0ULL)}};
struct A18 _str_45 = {{((u8)116ULL), ((u8)111ULL), ((u8)112ULL), ((u8)111ULL), ((u8)32ULL), ((u8)99ULL), ((u8)104ULL), ((u8)117ULL), ((u8)110ULL), ((u8)107ULL), ((u8)32ULL), ((u8)104ULL), ((u8)101ULL), ((u8)97ULL), ((u8)100ULL), ((u8)101ULL), ((u8)114ULL), ((u8)58ULL), ((u8)32ULL), ((u8)115ULL), ((u8)104ULL), ((u8)111ULL), ((u8)114ULL), ((u8)116ULL), ((u8)32ULL), ((u8)45ULL), ((u8)62ULL), ((u8)32ULL), ((u8)112ULL), ((u8)97ULL), ((u8)114ULL), ((u8)115ULL), ((u8)101ULL), ((u8)95ULL), ((u8)101ULL), ((u8)114ULL), ((u8)114ULL), ((u8)111ULL), ((u8)114ULL), ((u8)0ULL)}};
struct A17 _str_46 = {{((u8)111ULL), ((u8)117ULL), ((u8)116ULL), ((u8)32ULL), ((u8)61ULL), ((u8)61ULL), ((u8)32ULL), ((u8)80ULL), ((u8)65ULL), ((u8)82ULL), ((u8)83ULL), ((u8)69ULL), ((u8)95ULL), ((u8)69ULL), ((u8)82ULL), ((u8)82ULL), ((u8)79ULL), ((u8)82ULL), ((u8)32ULL), ((u8)64ULL), ((u8)47ULL), ((u8)118ULL), ((u8)101ULL), ((u8)114ULL), ((u8)105ULL), ((u8)102ULL), ((u8)47ULL), ((u8)104ULL), ((u8)97ULL), ((u8)114ULL), ((u8)110ULL), ((u8)101ULL), ((u8)115ULL), ((u8)115ULL), ((u8)47ULL), ((u8)67ULL), ((u8)48ULL), ((u8)55ULL), ((u8)95ULL), ((u8)100ULL), ((u8)101ULL), ((u8)99ULL), ((u8)111ULL), ((u8)100ULL), ((u8)101ULL), ((u8)114ULL), ((u8)46ULL), ((u8)99ULL), ((u8)112ULL), ((u8)112ULL), ((u8)58ULL), ((u8)49ULL), ((u8)52ULL), ((u8)51ULL), ((u8)0ULL)}};
struct A26 _str_47 = {{((u8)116ULL), ((u8)111ULL), ((u8)112ULL), ((u8)111ULL), ((u8)32ULL), ((u8)99ULL), ((u8)104ULL), ((u8)117ULL), ((u8)110ULL), ((u8)107ULL), ((u8)32ULL), ((u8)104ULL), ((u8)101ULL), ((u8)97ULL), ((u8)100ULL), ((u8)101ULL), ((u8)114ULL), ((u8)58ULL), ((u8)32ULL), ((u8)98ULL), ((u8)97ULL), ((u8)100ULL), ((u8)32ULL), ((u8)101ULL), ((u8)110ULL), ((u8)117ULL), ((u8)109ULL), ((u8)32ULL), ((u8)45ULL), ((u8)62ULL), ((u8)32ULL), ((u8)112ULL), ((u8)97ULL), ((u8)114ULL), ((u8)115ULL), ((u8)101ULL), ((u8)95ULL), ((u8)101ULL), ((u8)114ULL), ((u8)114ULL), ((u8)111ULL), ((u8)114ULL), ((u8)0ULL)}};
struct A27 _str_48 = {{((u8)111ULL), ((u8)117ULL), ((u8)116ULL), ((u8)32ULL), ((u8)61ULL), ((u8)61ULL), ((u8)32ULL), ((u8)79ULL), ((u8)75ULL), ((u8)32ULL), ((u8)38ULL), ((u8)38ULL), ((u8)32ULL), ((u8)104ULL), ((u8)46ULL), ((u8)115ULL), ((u8)112ULL), ((u8)97ULL), ((u8)110ULL), ((u8)46ULL), ((u8)102ULL), ((u8)105ULL), ((u8)114ULL), ((u8)115ULL), ((u8)116ULL), ((u8)32ULL), ((u8)61ULL), ((u8)61ULL), ((u8)32ULL), ((u8)108ULL), ((u8)101ULL), ((u8)40ULL), ((u8)98ULL), ((u8)121ULL), ((u8)116ULL), ((u8)101ULL), ((u8)115ULL), ((u8)44ULL), ((u8)32ULL), ((u8)48ULL), ((u8)44ULL), ((u8)32ULL), ((u8)56ULL), ((u8)41ULL), ((u8)32ULL), ((u8)38ULL), ((u8)38ULL), ((u8)32ULL), ((u8)104ULL), ((u8)46ULL), ((u8)115ULL), ((u8)112ULL), ((u8)97ULL), ((u8)110ULL), ((u8)46ULL), ((u8)99ULL), ((u8)111ULL), ((u8)117ULL), ((u8)110ULL), ((u8)116ULL), ((u8)32ULL), ((u8)61ULL), ((u8)61ULL), ((u8)32ULL), ((u8)40ULL), ((u8)117ULL), ((u8)105ULL), ((u8)110ULL), ((u8)116ULL), ((u8)51ULL), ((u8)50ULL), ((u8)95ULL), ((u8)116ULL), ((u8)41ULL), ((u8)108ULL), ((u8)101ULL), ((u8)40ULL), ((u8)98ULL), ((u8)121ULL), ((u8)116ULL), ((u8)101ULL), ((u8)115ULL), ((u8)44ULL), ((u8)32ULL), ((u8)56ULL), ((u8)44ULL), ((u8)32ULL), ((u8)52ULL), ((u8)41ULL), ((u8)32ULL), ((u8)38ULL), ((u8)38ULL), ((u8)32ULL), ((u8)40ULL), ((u8)117ULL), ((u8)105ULL), ((u8)110ULL), ((u8)116ULL), ((u8)56ULL), ((u8)95ULL), ((u8)116ULL), ((u8)41ULL), ((u8)104ULL), ((u8)46ULL), ((u8)101ULL), ((u8)110ULL), ((u8)116ULL), ((u8)105ULL), ((u8)116ULL), ((u8)121ULL), ((u8)32ULL), ((u8)61ULL), ((u8)61ULL), ((u8)32ULL), ((u8)98ULL), ((u8)121ULL), ((u8)116ULL), ((u8)101ULL), ((u8)115ULL), ((u8)91ULL), ((u8)49ULL), ((u8)50ULL), ((u8)93ULL), ((u8)32ULL), ((u8)38ULL), ((u8)38ULL), ((u8)32ULL), ((u8)104ULL), ((u8)46ULL), ((u8)118ULL), ((u8)97ULL), ((u8)108ULL), ((u8)101ULL), ((u8)110ULL), ((u8)99ULL), ((u8)101ULL), ((u8)32ULL), ((u8)61ULL), ((u8)61ULL), ((u8)32ULL), ((u8)98ULL), ((u8)121ULL), ((u8)116ULL), ((u8)101ULL), ((u8)115ULL), ((u8)91ULL), ((u8)49ULL), ((u8)51ULL), ((u8)93ULL), ((u8)32ULL), ((u8)64ULL), ((u8)47ULL), ((u8)118ULL), ((u8)101ULL), ((u8)114ULL), ((u8)105ULL), ((u8)102ULL), ((u8)47ULL), ((u8)104ULL), ((u8)97ULL), ((u8)114ULL), ((u8)110ULL), ((u8)101ULL), ((u8)115ULL), ((u8)115ULL), ((u8)47ULL), ((u8)67ULL), ((u8)48ULL), ((u8)55ULL), ((u8)95ULL), ((u8)100ULL), ((u8)101ULL), ((u8)99ULL), ((u8)111ULL), ((u8)100ULL), ((u8)101ULL), ((u8)114ULL), ((u8)46ULL), ((u8)99ULL), ((u8)112ULL), ((u8)112ULL), ((u8)58ULL), ((u8)49ULL), ((u8)52ULL), ((u8)52ULL), ((u8)0ULL)}};
struct A28 _str_49 = {{((u8)40ULL), ((u8)117ULL), ((u8)105ULL), ((u8)110ULL), ((u8)116ULL), ((u8)56ULL), ((u8)95ULL), ((u8)116ULL), ((u8)41ULL), ((u8)104ULL), ((u8)46ULL), ((u8)118ULL), ((u8)97ULL), ((u8)108ULL), ((u8)101ULL), ((u8)110ULL), ((u8)99ULL), ((u8)101ULL), ((u8)95ULL), ((u8)101ULL), ((u8)110ULL), ((u8)99ULL), ((u8)111ULL), ((u8)100ULL), ((u8)105ULL), ((u8)110ULL), ((u8)103ULL), ((u8)32ULL), ((u8)61ULL), ((u8)61ULL), ((u8)32ULL), ((u8)98ULL), ((u8)121ULL), ((u8)116ULL), ((u8)101ULL), ((u8)115ULL), ((u8)91ULL), ((u8)49ULL), ((u8)52ULL), ((u8)93ULL), ((u8)32ULL), ((u8)38ULL), ((u8)38ULL), ((u8)32ULL), ((u8)40ULL), ((u8)117ULL), ((u8)105ULL), ((u8)110ULL), ((u8)116ULL), ((u8)56ULL), ((u8)95ULL), ((u8)116ULL), ((u8)41ULL), ((u8)104ULL), ((u8)46ULL), ((u8)104ULL), ((u8)97ULL), ((u8)110ULL), ((u8)100ULL), ((u8)108ULL), ((u8)101ULL), ((u8)95ULL), ((u8)101ULL), ((u8)110ULL), ((u8)99ULL), ((u8)111ULL), ((u8)100ULL), ((u8)105ULL), ((u8)110ULL), ((u8)103ULL), ((u8)32ULL), ((u8)61ULL), ((u8)61ULL), ((u8)32ULL), ((u8)98ULL), ((u8)121ULL), ((u8)116ULL), ((u8)101ULL), ((u8)115ULL), ((u8)91ULL), ((u8)49ULL), ((u8)53ULL), ((u8)93ULL), ((u8)32ULL), ((u8)38ULL), ((u8)38ULL), ((u8)32ULL), ((u8)104ULL), ((u8)46ULL), ((u8)104ULL), ((u8)97ULL), ((u8)110ULL), ((u8)100ULL), ((u8)108ULL), ((u8)101ULL), ((u8)95ULL), ((u8)111ULL), ((u8)102ULL), ((u8)102ULL), ((u8)115ULL), ((u8)101ULL), ((u8)116ULL), ((u8)32ULL), ((u8)61ULL), ((u8)61ULL), ((u8)32ULL), ((u8)108ULL), ((u8)101ULL), ((u8)40ULL), ((u8)98ULL), ((u8)121ULL), ((u8)116ULL), ((u8)101ULL), ((u8)115ULL), ((u8)44ULL), ((u8)32ULL), ((u8)49ULL), ((u8)54ULL), ((u8)44ULL), ((u8)32ULL), ((u8)56ULL), ((u8)41ULL), ((u8)32ULL), ((u8)38ULL), ((u8)38ULL), ((u8)32ULL), ((u8)100ULL), ((u8)101ULL), ((u8)99ULL), ((u8)46ULL), ((u8)112ULL), ((u8)111ULL), ((u8)115ULL), ((u8)40ULL), ((u8)41ULL), ((u8)32ULL), ((u8)61ULL), ((u8)61ULL), ((u8)32ULL), ((u8)50ULL), ((u8)52ULL), ((u8)32ULL), ((u8)64ULL), ((u8)47ULL), ((u8)118ULL), ((u8)101ULL), ((u8)114ULL), ((u8)105ULL), ((u8)102ULL), ((u8)47ULL), ((u8)104ULL), ((u8)97ULL), ((u8)114ULL), ((u8)110ULL), ((u8)101ULL), ((u8)115ULL), ((u8)115ULL), ((u8)47ULL), ((u8)67ULL), ((u8)48ULL), ((u8)55ULL), ((u8)95ULL), ((u8)100ULL), ((u8)101ULL), ((u8)99ULL), ((u8)111ULL), ((u8)100ULL), ((u8)101ULL), ((u8)114ULL), ((u8)46ULL), ((u8)99ULL), ((u8)112ULL), ((u8)112ULL), ((u8)58ULL), ((u8)49ULL), ((u8)52ULL), ((u8)53ULL), ((u8)0ULL)}};
struct A20 _str_50 = {{((u8)116ULL), ((u8)111ULL), ((u8)112ULL), ((u8)111ULL), ((u8)32ULL), ((u8)99ULL), ((u8)104ULL), ((u8)117ULL), ((u8)110ULL), ((u8)107ULL), ((u8)32ULL), ((u8)104ULL), ((u8)101ULL), ((u8)97ULL), ((u8)100ULL), ((u8)101ULL), ((u8)114ULL), ((u8)58ULL), ((u8)32ULL), ((u8)97ULL), ((u8)99ULL), ((u8)99ULL), ((u8)101ULL), ((u8)112ULL), ((u8)116ULL), ((u8)101ULL), ((u8)100ULL), ((u8)0ULL)}};
struct A16 _str_51 = {{((u8)111ULL), ((u8)117ULL), ((u8)116ULL), ((u8)32ULL), ((u8)33ULL), ((u8)61ULL), ((u8)32ULL), ((u8)79ULL), ((u8)84ULL), ((u8)72ULL), ((u8)69ULL), ((u8)82ULL), ((u8)32ULL), ((u8)64ULL), ((u8)47ULL), ((u8)118ULL), ((u8)101ULL), ((u8)114ULL), ((u8)105ULL), ((u8)102ULL), ((u8)47ULL), ((u8)104ULL), ((u8)97ULL), ((u8)114ULL), ((u8)110ULL), ((u8)101ULL), ((u8)115ULL), ((u8)115ULL), ((u8)47ULL), ((u8)67ULL), ((u8)48ULL), ((u8)55ULL), ((u8)95ULL), ((u8)100ULL), ((u8)101ULL), ((u8)99ULL), ((u8)111ULL), ((u8)100ULL), ((u8)101ULL), ((u8)114ULL), ((u8)46ULL), ((u8)99ULL), ((u8)112ULL), ((u8)112ULL), ((u8)58ULL), ((u8)49ULL), ((u8)53ULL), ((u8)53ULL), ((u8)0ULL)}};
struct A17 _str_52 = {{((u8)111ULL), ((u8)117ULL), ((u8)116ULL), ((u8)32ULL), ((u8)61ULL), ((u8)61ULL), ((u8)32ULL), ((u8)80ULL), ((u8)65ULL), ((u8)82ULL), ((u8)83ULL), ((u8)69ULL), ((u8)95ULL), ((u8)69ULL), ((u8)82ULL), ((u8)82ULL), ((u8)79ULL), ((u8)82ULL), ((u8)32ULL), ((u8)64ULL), ((u8)47ULL), ((u8)118ULL), ((u8)101ULL), ((u8)114ULL), ((u8)105ULL), ((u8)102ULL), ((u8)47ULL), ((u8)104ULL), ((u8)97ULL), ((u8)114ULL), ((u8)110ULL), ((u8)101ULL), ((u8)115ULL), ((u8)115ULL), ((u8)47ULL), ((u8)67ULL), ((u8)48ULL), ((u8)55ULL), ((u8)95ULL), ((u8)100ULL), ((u8)101ULL), ((u8)99ULL), ((u8)111ULL), ((u8)100ULL), ((u8)101ULL), ((u8)114ULL), ((u8)46ULL), ((u8)99ULL), ((u8)112ULL), ((u8)112ULL), ((u8)58ULL), ((u8)49ULL), ((u8)53ULL), ((u8)54ULL), ((u8)0ULL)}};
struct A29 _str_53 = {{((u8)114ULL), ((u8)101ULL), ((u8)115ULL), ((u8)101ULL), ((u8)114ULL), ((u8)118ULL), ((u8)101ULL), ((u8)100ULL), ((u8)58ULL), ((u8)32ULL), ((u8)115ULL), ((u8)104ULL), ((u8)111ULL), ((u8)114ULL), ((u8)116ULL), ((u8)32ULL), ((u8)45ULL), ((u8)62ULL), ((u8)32ULL), ((u8)112ULL), ((u8)97ULL), ((u8)114ULL), ((u8)115ULL), ((u8)101ULL), ((u8)95ULL), ((u8)101ULL), ((u8)114ULL), ((u8)114ULL), ((u8)111ULL), ((u8)114ULL), ((u8)0ULL)}};
struct A30 _str_54 = {{((u8)40ULL), ((u8)111ULL), ((u8)117ULL), ((u8)116ULL), ((u8)32ULL), ((u8)61ULL), ((u8)61ULL), ((u8)32ULL), ((u8)79ULL), ((u8)75ULL), ((u8)41ULL), ((u8)32ULL), ((u8)61ULL), ((u8)61ULL), ((u8)32ULL), ((u8)122ULL), ((u8)101ULL), ((u8)114ULL), ((u8)111ULL), ((u8)32ULL), ((u8)64ULL), ((u8)47ULL), ((u8)118ULL), ((u8)101ULL), ((u8)114ULL), ((u8)105ULL), ((u8)102ULL), ((u8)47ULL), ((u8)104ULL), ((u8)97ULL), ((u8)114ULL), ((u8)110ULL), ((u8)101ULL), ((u8)115ULL), ((u8)115ULL), ((u8)47ULL), ((u8)67ULL), ((u8)48ULL), ((u8)55ULL), ((u8)95ULL), ((u8)100ULL), ((u8)101ULL), ((u8)99ULL), ((u8)111ULL), ((u8)100ULL), ((u8)101ULL), ((u8)114ULL), ((u8)46ULL), ((u8)99ULL), ((u8)112ULL), ((u8)112ULL), ((u8)58ULL), ((u8)49ULL), ((u8)53ULL), ((u8)57ULL), ((u8)0ULL)}};
struct A5 _str_55 = {{((u8)100ULL), ((u8)101ULL), ((u8)99ULL), ((u8)46ULL), ((u8)112ULL), ((u8)111ULL), ((u8)115ULL), ((u8)40ULL), ((u8)41ULL), ((u8)32ULL), ((u8)61ULL), ((u8)61ULL), ((u8)32ULL), ((u8)78ULL), ((u8)32ULL), ((u8)64ULL), ((u8)47ULL), ((u8)118ULL), ((u8)101ULL), ((u8)114ULL), ((u8)105ULL), ((u8)102ULL), ((u8)47ULL), ((u8)104ULL), ((u8)97ULL), ((u8)114ULL), ((u8)110ULL), ((u8)101ULL), ((u8)115ULL), ((u8)115ULL), ((u8)47ULL), ((u8)67ULL), ((u8)48ULL), ((u8)55ULL), ((u8)95ULL), ((u8)100ULL), ((u8)101ULL), ((u8)99ULL), ((u8)111ULL), ((u8)100ULL), ((u8)101ULL), ((u8)114ULL), ((u8)46ULL), ((u8)99ULL), ((u8)112ULL), ((u8)112ULL), ((u8)58ULL), ((u8)49ULL), ((u8)54ULL), ((u8)48ULL), ((u8)0ULL)}};
struct A25 _str_56 = {{((u8)114ULL), ((u8)101ULL), ((u8)115ULL), ((u8)101ULL), ((u8)114ULL), ((u8)118ULL), ((u8)101ULL), ((u8)100ULL), ((u8)58ULL), ((u8)32ULL), ((u8)122ULL), ((u8)101ULL), ((u8)114ULL), ((u8)111ULL), ((u8)32ULL), ((u8)98ULL), ((u8)121ULL), ((u8)116ULL), ((u8)101ULL), ((u8)115ULL), ((u8)32ULL), ((u8)97ULL), ((u8)99ULL), ((u8)99ULL), ((u8)101ULL), ((u8)112ULL), ((u8)116ULL), ((u8)101ULL), ((u8)100ULL), ((u8)0ULL)}};
struct A31 _str_57 = {{((u8)114ULL), ((u8)101ULL), ((u8)115ULL), ((u8)101ULL), ((u8)114ULL), ((u8)118ULL), ((u8)101ULL), ((u8)100ULL), ((u8)58ULL), ((u8)32ULL), ((u8)110ULL), ((u8)111ULL), ((u8)110ULL), ((u8)45ULL), ((u8)122ULL), ((u8)101ULL), ((u8)114ULL), ((u8)111ULL), ((u8)32ULL), ((u8)98ULL), ((u8)121ULL), ((u8)116ULL), ((u8)101ULL), ((u8)32ULL), ((u8)45ULL), ((u8)62ULL), ((u8)32ULL), ((u8)112ULL), ((u8)97ULL), ((u8)114ULL), ((u8)115ULL), ((u8)101ULL), ((u8)95ULL), ((u8)101ULL), ((u8)114ULL), ((u8)114ULL), ((u8)111ULL), ((u8)114ULL), ((u8)0ULL)}};
struct A21 _str_58 = {{((u8)114ULL), ((u8)101ULL), ((u8)115ULL), ((u8)101ULL), ((u8)114ULL), ((u8)118ULL), ((u8)101ULL), ((u8)100ULL), ((u8)32ULL), ((u8)101ULL), ((u8)110ULL), ((u8)116ULL), ((u8)114ULL), ((u8)121ULL), ((u8)32ULL), ((u8)33ULL), ((u8)61ULL), ((u8)32ULL), ((u8)48ULL), ((u8)32ULL), ((u8)97ULL), ((u8)116ULL), ((u8)32ULL), ((u8)112ULL), ((u8)111ULL), ((u8)115ULL), ((u8)105ULL), ((u8)116ULL), ((u8)105ULL), ((u8)111ULL), ((u8)110ULL), ((u8)32ULL), ((u8)0ULL)}};
struct A16 _str_61 = {{((u8)111ULL), ((u8)117ULL), ((u8)116ULL), ((u8)32ULL), ((u8)33ULL), ((u8)61ULL), ((u8)32ULL), ((u8)79ULL), ((u8)84ULL), ((u8)72ULL), ((u8)69ULL), ((u8)82ULL), ((u8)32ULL), ((u8)64ULL), ((u8)47ULL), ((u8)118ULL), ((u8)101ULL), ((u8)114ULL), ((u8)105ULL), ((u8)102ULL), ((u8)47ULL), ((u8)104ULL), ((u8)97ULL), ((u8)114ULL), ((u8)110ULL), ((u8)101ULL), ((u8)115ULL), ((u8)115ULL), ((u8)47ULL), ((u8)67ULL), ((u8)48ULL), ((u8)55ULL), ((u8)95ULL), ((u8)100ULL), ((u8)101ULL), ((u8)99ULL), ((u8)111ULL), ((u8)100ULL), ((u8)101ULL), ((u8)114ULL), ((u8)46ULL), ((u8)99ULL), ((u8)112ULL), ((u8)112ULL), ((u8)58ULL), ((u8)49ULL), ((u8)55ULL), ((u8)50ULL), ((u8)0ULL)}};
struct A30 _str_62 = {{((u8)40ULL), ((u8)111ULL), ((u8)117ULL), ((u8)116ULL), ((u8)32ULL), ((u8)61ULL), ((u8)61ULL), ((u8)32ULL), ((u8)79ULL), ((u8)75ULL), ((u8)41ULL), ((u8)32ULL), ((u8)61ULL), ((u8)61ULL), ((u8)32ULL), ((u8)122ULL), ((u8)101ULL), ((u8)114ULL), ((u8)111ULL), ((u8)32ULL), ((u8)64ULL), ((u8)47ULL), ((u8)118ULL), ((u8)101ULL), ((u8)114ULL), ((u8)105ULL), ((u8)102ULL), ((u8)47ULL), ((u8)104ULL), ((u8)97ULL), ((u8)114ULL), ((u8)110ULL), ((u8)101ULL), ((u8)115ULL), ((u8)115ULL), ((u8)47ULL), ((u8)67ULL), ((u8)48ULL), ((u8)55ULL), ((u8)95ULL), ((u8)100ULL), ((u8)101ULL), ((u8)99ULL), ((u8)111ULL), ((u8)100ULL), ((u8)101ULL), ((u8)114ULL), ((u8)46ULL), ((u8)99ULL), ((u8)112ULL), ((u8)112ULL), ((u8)58ULL), ((u8)49ULL), ((u8)55ULL), ((u8)53ULL), ((u8)0ULL)}};
struct A5 _str_63 = {{((u8)100ULL), ((u8)101ULL), ((u8)99ULL), ((u8)46ULL), ((u8)102ULL), ((u8)105ULL), ((u8)110ULL), ((u8)105ULL), ((u8)115ULL), ((u8)104ULL), ((u8)101ULL), ((u8)100ULL), ((u8)40ULL), ((u8)41ULL), ((u8)32ULL), ((u8)64ULL), ((u8)47ULL), ((u8)118ULL), ((u8)101ULL), ((u8)114ULL), ((u8)105ULL), ((u8)102ULL), ((u8)47ULL), ((u8)104ULL), ((u8)97ULL), ((u8)114ULL), ((u8)110ULL), ((u8)101ULL), ((u8)115ULL), ((u8)115ULL), ((u8)47ULL), ((u8)67ULL), ((u8)48ULL), ((u8)55ULL), ((u8)95ULL), ((u8)100ULL), ((u8)101ULL), ((u8)99ULL), ((u8)111ULL), ((u8)100ULL), ((u8)101ULL), ((u8)114ULL), ((u8)46ULL), ((u8)99ULL), ((u8)112ULL), ((u8)112ULL), ((u8)58ULL), ((u8)49ULL), ((u8)55ULL), ((u8)54ULL), ((u8)0ULL)}};
struct A32 _str_64 = {{((u8)112ULL), ((u8)97ULL), ((u8)100ULL), ((u8)100ULL), ((u8)105ULL), ((u8)110ULL), ((u8)103ULL), ((u8)58ULL), ((u8)32ULL), ((u8)122ULL), ((u8)101ULL), ((u8)114ULL), ((u8)111ULL), ((u8)32ULL), ((u8)98ULL), ((u8)121ULL), ((u8)116ULL), ((u8)101ULL), ((u8)115ULL), ((u8)32ULL), ((u8)97ULL), ((u8)99ULL), ((u8)99ULL), ((u8)101ULL), ((u8)112ULL), ((u8)116ULL), ((u8)101ULL), ((u8)100ULL), ((u8)0ULL)}};
struct A33 _str_65 = {{((u8)112ULL), ((u8)97ULL), ((u8)100ULL), ((u8)100ULL), ((u8)105ULL), ((u8)110ULL), ((u8)103ULL), ((u8)58ULL), ((u8)32ULL), ((u8)110ULL), ((u8)111ULL), ((u8)110ULL), ((u8)45ULL), ((u8)122ULL), ((u8)101ULL), ((u8)114ULL), ((u8)111ULL), ((u8)32ULL), ((u8)98ULL), ((u8)121ULL), ((u8)116ULL), ((u8)101ULL), ((u8)32ULL), ((u8)45ULL), ((u8)62ULL), ((u8)32ULL), ((u8)112ULL), ((u8)97ULL), ((u8)114ULL), ((u8)115ULL), ((u8)101ULL), ((u8)95ULL), ((u8)101ULL), ((u8)114ULL), ((u8)114ULL), ((u8)111ULL), ((u8)114ULL), ((u8)0ULL)}};
struct A16 _str_66 = {{((u8)111ULL), ((u8)117ULL), ((u8)116ULL), ((u8)32ULL), ((u8)33ULL), ((u8)61ULL), ((u8)32ULL), ((u8)79ULL), ((u8)84ULL), ((u8)72ULL), ((u8)69ULL), ((u8)82ULL), ((u8)32ULL), ((u8)64ULL), ((u8)47ULL), ((u8)118ULL), ((u8)101ULL), ((u8)114ULL), ((u8)105ULL), ((u8)102ULL), ((u8)47ULL), ((u8)104ULL), ((u8)97ULL), ((u8)114ULL), ((u8)110ULL), ((u8)101ULL), ((u8)115ULL), ((u8)115ULL), ((u8)47ULL), ((u8)67ULL), ((u8)48ULL), ((u8)55ULL), ((u8)95ULL), ((u8)100ULL), ((u8)101ULL), ((u8)99ULL), ((u8)111ULL), ((u8)100ULL), ((u8)101ULL), ((u8)114ULL), ((u8)46ULL), ((u8)99ULL), ((u8)112ULL), ((u8)112ULL), ((u8)58ULL), ((u8)49ULL), ((u8)56ULL), ((u8)53ULL), ((u8)0ULL)}};
struct A17 _str_67 = {{((u8)111ULL), ((u8)117ULL), ((u8)116ULL), ((u8)32ULL), ((u8)61ULL), ((u8)61ULL), ((u8)32ULL), ((u8)80ULL), ((u8)65ULL), ((u8)82ULL), ((u8)83ULL), ((u8)69ULL), ((u8)95ULL), ((u8)69ULL), ((u8)82ULL), ((u8)82ULL), ((u8)79ULL), ((u8)82ULL), ((u8)32ULL), ((u8)64ULL), ((u8)47ULL), ((u8)118ULL), ((u8)101ULL), ((u8)114ULL), ((u8)105ULL), ((u8)102ULL), ((u8)47ULL), ((u8)104ULL), ((u8)97ULL), ((u8)114ULL), ((u8)110ULL), ((u8)101ULL), ((u8)115ULL), ((u8)115ULL), ((u8)47ULL), ((u8)67ULL), ((u8)48ULL), ((u8)55ULL), ((u8)95ULL), ((u8)100ULL), ((u8)101ULL), ((u8)99ULL), ((u8)111ULL), ((u8)100ULL), ((u8)101ULL), ((u8)114ULL), ((u8)46ULL), ((u8)99ULL), ((u8)112ULL), ((u8)112ULL), ((u8)58ULL), ((u8)49ULL), ((u8)56ULL), ((u8)54ULL), ((u8)0ULL)}};
struct A26 _str_68 = {{((u8)114ULL), ((u8)101ULL), ((u8)97ULL), ((u8)100ULL), ((u8)86ULL), ((u8)101ULL), ((u8)99ULL), ((u8)58ULL), ((u8)32ULL), ((u8)110ULL), ((u8)111ULL), ((u8)32ULL), ((u8)114ULL), ((u8)111ULL), ((u8)111ULL), ((u8)109ULL), ((u8)32ULL), ((u8)102ULL), ((u8)111ULL), ((u8)114ULL), ((u8)32ULL), ((u8)108ULL), ((u8)101ULL), ((u8)110ULL), ((u8)103ULL), ((u8)116ULL), ((u8)104ULL), ((u8)32ULL), ((u8)45ULL), ((u8)62ULL), ((u8)32ULL), ((u8)112ULL), ((u8)97ULL), ((u8)114ULL), ((u8)115ULL), ((u8)101ULL), ((u8)95ULL), ((u8)101ULL), ((u8)114ULL), ((u8)114ULL), ((u8)111ULL), ((u8)114ULL), ((u8)0ULL)}};
struct A17 _str_69 = {{((u8)111ULL), ((u8)117ULL), ((u8)116ULL), ((u8)32ULL), ((u8)61ULL), ((u8)61ULL), ((u8)32ULL), ((u8)80ULL), ((u8)65ULL), ((u8)82ULL), ((u8)83ULL), ((u8)69ULL), ((u8)95ULL), ((u8)69ULL), ((u8)82ULL), ((u8)82ULL), ((u8)79ULL), ((u8)82ULL), ((u8)32ULL), ((u8)64ULL), ((u8)47ULL), ((u8)118ULL), ((u8)101ULL), ((u8)114ULL), ((u8)105ULL), ((u8)102ULL), ((u8)47ULL), ((u8)104ULL), ((u8)97ULL), ((u8)114ULL), ((u8)110ULL), ((u8)101ULL), ((u8)115ULL), ((u8)115ULL), ((u8)47ULL), ((u8)67ULL), ((u8)48ULL), ((u8)55ULL), ((u8)95ULL), ((u8)100ULL), ((u8)101ULL), ((u8)99ULL), ((u8)111ULL), ((u8)100ULL), ((u8)101ULL), ((u8)114ULL), ((u8)46ULL), ((u8)99ULL), ((u8)112ULL), ((u8)112ULL), ((u8)58ULL), ((u8)49ULL), ((u8)56ULL), ((u8)56ULL), ((u8)0ULL)}};
struct A4 _str_70 = {{((u8)114ULL), ((u8)101ULL), ((u8)97ULL), ((u8)100ULL), ((u8)86ULL), ((u8)101ULL), ((u8)99ULL), ((u8)58ULL), ((u8)32ULL), ((u8)100ULL), ((u8)101ULL), ((u8)99ULL), ((u8)108ULL), ((u8)97ULL), ((u8)114ULL), ((u8)101ULL), ((u8)100ULL), ((u8)32ULL), ((u8)108ULL), ((u8)101ULL), ((u8)110ULL), ((u8)103ULL), ((u8)116ULL), ((u8)104ULL), ((u8)32ULL), ((u8)98ULL), ((u8)101ULL), ((u8)121ULL), ((u8)111ULL), ((u8)110ULL), ((u8)100ULL), ((u8)32ULL), ((u8)98ULL), ((u8)117ULL), ((u8)102ULL), ((u8)102ULL), ((u8)101ULL), ((u8)114ULL), ((u8)32ULL), ((u8)45ULL), ((u8)62ULL), ((u8)32ULL), ((u8)112ULL), ((u8)97ULL), ((u8)114ULL), ((u8)115ULL), ((u8)101ULL), ((u8)95ULL), ((u8)101ULL), ((u8)114ULL), ((u8)114ULL), ((u8)111ULL), ((u8)114ULL), ((u8)0ULL)}};
struct A34 _str_71 = {{((u8)111ULL), ((u8)117ULL), ((u8)116ULL), ((u8)32ULL), ((u8)61ULL), ((u8)61ULL), ((u8)32ULL), ((u8)79ULL), ((u8)75ULL), ((u8)32ULL), ((u8)38ULL), ((u8)38ULL), ((u8)32ULL), ((u8)118ULL), ((u8)46ULL), ((u8)115ULL), ((u8)105ULL), ((u8)122ULL), ((u8)101ULL), ((u8)40ULL), ((u8)41ULL), ((u8)32ULL), ((u8)61ULL), ((u8)61ULL), ((u8)32ULL), ((u8)110ULL), ((u8)32ULL), ((u8)38ULL), ((u8)38ULL), ((u8)32ULL), ((u8)100ULL), ((u8)101ULL), ((u8)99ULL), ((u8)46ULL), ((u8)112ULL), ((u8)111ULL), ((u8)115ULL), ((u8)40ULL), ((u8)41ULL), ((u8)32ULL), ((u8)61ULL), ((u8)61ULL), ((u8)32ULL), ((u8)52ULL), ((u8)32ULL), ((u8)43ULL), ((u8)32ULL), ((u8)110ULL), ((u8)32ULL), ((u8)64ULL), ((u8)47ULL), ((u8)118ULL), ((u8)101ULL), ((u8)114ULL), ((u8)105ULL), ((u8)102ULL), ((u8)47ULL), ((u8)104ULL), ((u8)97ULL), ((u8)114ULL), ((u8)110ULL), ((u8)101ULL), ((u8)115ULL), ((u8)115ULL), ((u8)47ULL), ((u8)67ULL), ((u8)48ULL), ((u8)55ULL), ((u8)95ULL), ((u8)100ULL), ((u8)101ULL), ((u8)99ULL), ((u8)111ULL), ((u8)100ULL), ((u8)101ULL), ((u8)114ULL), ((u8)46ULL), ((u8)99ULL), ((u8)112ULL), ((u8)112ULL), ((u8)58ULL), ((u8)49ULL), ((u8)56ULL), ((u8)57ULL), ((u8)0ULL)}};
struct A35 _str_72 = {{((u8)118ULL), ((u8)91ULL), ((u8)107ULL), ((u8)93ULL), ((u8)32ULL), ((u8)61ULL), ((u8)61ULL), ((u8)32ULL), ((u8)98ULL), ((u8)121ULL), ((u8)116ULL), ((u8)101ULL), ((u8)115ULL), ((u8)91ULL), ((u8)52ULL), ((u8)32ULL), ((u8)43ULL), ((u8)32ULL), ((u8)107ULL), ((u8)93ULL), ((u8)32ULL), ((u8)64ULL), ((u8)47ULL), ((u8)118ULL), ((u8)101ULL), ((u8)114ULL), ((u8)105ULL), ((u8)102ULL), ((u8)47ULL), ((u8)104ULL), ((u8)97ULL), ((u8)114ULL), ((u8)110ULL), ((u8)101ULL), ((u8)115ULL), ((u8)115ULL), ((u8)47ULL), ((u8)67ULL), ((u8)48ULL), ((u8)55ULL), ((u8)95ULL), ((u8)100ULL), ((u8)101ULL), ((u8)99ULL), ((u8)111ULL), ((u8)100ULL), ((u8)101ULL), ((u8)114ULL), ((u8)46ULL), ((u8)99ULL), ((u8)112ULL), ((u8)112ULL), ((u8)58ULL), ((u8)49ULL), ((u8)57ULL), ((u8)49ULL), ((u8)0ULL)}};
struct A36 _str_73 = {{((u8)114ULL), ((u8)101ULL), ((u8)97ULL), ((u8)100ULL), ((u8)86ULL), ((u8)101ULL), ((u8)99ULL), ((u8)58ULL), ((u8)32ULL), ((u8)97ULL), ((u8)99ULL), ((u8)99ULL), ((u8)101ULL), ((u8)112ULL), ((u8)116ULL), ((u8)101ULL), ((u8)100ULL), ((u8)0ULL)}};
struct A37 _str_74 = {{((u8)118ULL), ((u8)101ULL), ((u8)99ULL), ((u8)116ULL), ((u8)111ULL), ((u8)114ULL), ((u8)58ULL), ((u8)58ULL), ((u8)95ULL), ((u8)77ULL), ((u8)95ULL), ((u8)100ULL), ((u8)101ULL), ((u8)102ULL), ((u8)97ULL), ((u8)117ULL), ((u8)108ULL), ((u8)116ULL), ((u8)95ULL), ((u8)97ULL), ((u8)112ULL), ((u8)112ULL), ((u8)101ULL), ((u8)110ULL), ((u8)100ULL), ((u8)0ULL)}};
struct A16 _str_75 = {{((u8)111ULL), ((u8)117ULL), ((u8)116ULL), ((u8)32ULL), ((u8)33ULL), ((u8)61ULL), ((u8)32ULL), ((u8)79ULL), ((u8)84ULL), ((u8)72ULL), ((u8)69ULL), ((u8)82ULL), ((u8)32ULL), ((u8)64ULL), ((u8)47ULL), ((u8)118ULL), ((u8)101ULL), ((u8)114ULL), ((u8)105ULL), ((u8)102ULL), ((u8)47ULL), ((u8)104ULL), ((u8)97ULL), ((u8)114ULL), ((u8)110ULL), ((u8)101ULL), ((u8)115ULL), ((u8)115ULL), ((u8)47ULL), ((u8)67ULL), ((u8)48ULL), ((u8)55ULL), ((u8)95ULL), ((u8)100ULL), ((u8)101ULL), ((u8)99ULL), ((u8)111ULL), ((u8)100ULL), ((u8)101ULL), ((u8)114ULL), ((u8)46ULL), ((u8)99ULL), ((u8)112ULL), ((u8)112ULL), ((u8)58ULL), ((u8)50ULL), ((u8)48ULL), ((u8)50ULL), ((u8)0ULL)}};
struct A17 _str_76 = {{((u8)111ULL), ((u8)117ULL), ((u8)116ULL), ((u8)32ULL), ((u8)61ULL), ((u8)61ULL), ((u8)32ULL), ((u8)80ULL), ((u8)65ULL), ((u8)82ULL), ((u8)83ULL), ((u8)69ULL), ((u8)95ULL), ((u8)69ULL), ((u8)82ULL), ((u8)82ULL), ((u8)79ULL), ((u8)82ULL), ((u8)32ULL), ((u8)64ULL), ((u8)47ULL), ((u8)118ULL), ((u8)101ULL), ((u8)114ULL), ((u8)105ULL), ((u8)102ULL), ((u8)47ULL), ((u8)104ULL), ((u8)97ULL), ((u8)114ULL), ((u8)110ULL), ((u8)101ULL), ((u8)115ULL), ((u8)115ULL), ((u8)47ULL), ((u8)67ULL), ((u8)48ULL), ((u8)55ULL), ((u8)95ULL), ((u8)100ULL), ((u8)101ULL), ((u8)99ULL), ((u8)111ULL), ((u8)100ULL), ((u8)101ULL), ((u8)114ULL), ((u8)46ULL), ((u8)99ULL), ((u8)112ULL), ((u8)112ULL), ((u8)58ULL), ((u8)50ULL), ((u8)48ULL), ((u8)51ULL), ((u8)0ULL)}};
struct A38 _str_77 = {{((u8)115ULL), ((u8)116ULL), ((u8)114ULL), ((u8)105ULL), ((u8)110ULL), ((u8)103ULL), ((u8)40ULL), ((u8)110ULL), ((u8)101ULL), ((u8)101ULL), ((u8)100ULL), ((u8)32ULL), ((u8)52ULL), ((u8)41ULL), ((u8)58ULL), ((u8)32ULL), ((u8)115ULL), ((u8)104ULL), ((u8)111ULL), ((u8)114ULL), ((u8)116ULL), ((u8)32ULL), ((u8)45ULL), ((u8)62ULL), ((u8)32ULL), ((u8)112ULL), ((u8)97ULL), ((u8)114ULL), ((u8)115ULL), ((u8)101ULL), ((u8)95ULL), ((u8)101ULL), ((u8)114ULL), ((u8)114ULL), ((u8)111ULL), ((u8)114ULL), ((u8)0ULL)}};
struct A17 _str_78 = {{((u8)111ULL), ((u8)117ULL), ((u8)116ULL), ((u8)32ULL), ((u8)61ULL), ((u8)61ULL), ((u8)32ULL), ((u8)80ULL), ((u8)65ULL), ((u8)82ULL), ((u8)83ULL), ((u8)69ULL), ((u8)95ULL), ((u8)69ULL), ((u8)82ULL), ((u8)82ULL), ((u8)79ULL), ((u8)82ULL), ((u8)32ULL), ((u8)64ULL), ((u8)47ULL), ((u8)118ULL), ((u8)101ULL), ((u8)114ULL), ((u8)105ULL), ((u8)102ULL), ((u8)47ULL), ((u8)104ULL), ((u8)97ULL), ((u8)114ULL), ((u8)110ULL), ((u8)101ULL), ((u8)115ULL), ((u8)115ULL), ((u8)47ULL), ((u8)67ULL), ((u8)48ULL), ((u8)55ULL), ((u8)95ULL), ((u8)100ULL), ((u8)101ULL), ((u8)99ULL), ((u8)111ULL), ((u8)100ULL), ((u8)101ULL), ((u8)114ULL), ((u8)46ULL), ((u8)99ULL), ((u8)112ULL), ((u8)112ULL), ((u8)58ULL), ((u8)50ULL), ((u8)48ULL), ((u8)53ULL), ((u8)0ULL)}};
struct A39 _str_79 = {{((u8)115ULL), ((u8)116ULL), ((u8)114ULL), ((u8)105ULL), ((u8)110ULL), ((u8)103ULL), ((u8)40ULL), ((u8)110ULL), ((u8)101ULL), ((u8)101ULL), ((u8)100ULL), ((u8)32ULL), ((u8)52ULL), ((u8)41ULL), ((u8)58ULL), ((u8)32ULL), ((u8)100ULL), ((u8)101ULL), ((u8)99ULL), ((u8)108ULL), ((u8)97ULL), ((u8)114ULL), ((u8)101ULL), ((u8)100ULL), ((u8)32ULL), ((u8)108ULL), ((u8)101ULL), ((u8)110ULL), ((u8)103ULL), ((u8)116ULL), ((u8)104ULL), ((u8)32ULL), ((u8)98ULL), ((u8)101ULL), ((u8)121ULL), ((u8)111ULL), ((u8)110ULL), ((u8)100ULL), ((u8)32ULL), ((u8)98ULL), ((u8)117ULL), ((u8)102ULL), ((u8)102ULL), ((u8)101ULL), ((u8)114ULL), ((u8)32ULL), ((u8)45ULL), ((u8)62ULL), ((u8)32ULL), ((u8)112ULL), ((u8)97ULL), ((u8)114ULL), ((u8)115ULL), ((u8)101ULL), ((u8)95ULL), ((u8)101ULL), ((u8)114ULL), ((u8)114ULL), ((u8)111ULL), ((u8)114ULL), ((u8)0ULL)}};
struct A34 _str_80 = {{((u8)111ULL), ((u8)117ULL), ((u8)116ULL), ((u8)32ULL), ((u8)61ULL), ((u8)61ULL), ((u8)32ULL), ((u8)79ULL), ((u8)75ULL), ((u8)32ULL), ((u8)38ULL), ((u8)38ULL), ((u8)32ULL), ((u8)115ULL), ((u8)46ULL), ((u8)115ULL), ((u8)105ULL), ((u8)122ULL), ((u8)101ULL), ((u8)40ULL), ((u8)41ULL), ((u8)32ULL), ((u8)61ULL), ((u8)61ULL), ((u8)32ULL), ((u8)110ULL), ((u8)32ULL), ((u8)38ULL), ((u8)38ULL), ((u8)32ULL), ((u8)100ULL), ((u8)101ULL), ((u8)99ULL), ((u8)46ULL), ((u8)112ULL), ((u8)111ULL), ((u8)115ULL), ((u8)40ULL), ((u8)41ULL), ((u8)32ULL), ((u8)61ULL), ((u8)61ULL), ((u8)32ULL), ((u8)52ULL), ((u8)32ULL), ((u8)43ULL), ((u8)32ULL), ((u8)110ULL), ((u8)32ULL), ((u8)64ULL), ((u8)47ULL), ((u8)118ULL), ((u8)101ULL), ((u8)114ULL), ((u8)105ULL), ((u8)102ULL), ((u8)47ULL), ((u8)104ULL), ((u8)97ULL), ((u8)114ULL), ((u8)110ULL), ((u8)101ULL), ((u8)115ULL), ((u8)115ULL), ((u8)47ULL), ((u8)67ULL), ((u8)48ULL), ((u8)55ULL), ((u8)95ULL), ((u8)100ULL), ((u8)101ULL), ((u8)99ULL), ((u8)111ULL), ((u8)100ULL), ((u8)101ULL), ((u8)114ULL), ((u8)46ULL), ((u8)99ULL), ((u8)112ULL), ((u8)112ULL), ((u8)58ULL), ((u8)50ULL), ((u8)48ULL), ((u8)54ULL), ((u8)0ULL)}};
struct A40 _str_81 = {{((u8)40ULL), ((u8)117ULL), ((u8)105ULL), ((u8)110ULL), ((u8)116ULL), ((u8)56ULL), ((u8)95ULL), ((u8)116ULL), ((u8)41ULL), ((u8)115ULL), ((u8)91ULL), ((u8)107ULL), ((u8)93ULL), ((u8)32ULL), ((u8)61ULL), ((u8)61ULL), ((u8)32ULL), ((u8)98ULL), ((u8)121ULL), ((u8)116ULL), ((u8)101ULL), ((u8)115ULL), ((u8)91ULL), ((u8)52ULL), ((u8)32ULL), ((u8)43ULL), ((u8)32ULL), ((u8)107ULL), ((u8)93ULL), ((u8)32ULL), ((u8)64ULL), ((u8)47ULL), ((u8)118ULL), ((u8)101ULL), ((u8)114ULL), ((u8)105ULL), ((u8)102ULL), ((u8)47ULL), ((u8)104ULL), ((u8)97ULL), ((u8)114ULL), ((u8)110ULL), ((u8)101ULL), ((u8)115ULL), ((u8)115ULL), ((u8)47ULL), ((u8)67ULL), ((u8)48ULL), ((u8)55ULL), ((u8)95ULL), ((u8)100ULL), ((u8)101ULL), ((u8)99ULL), ((u8)111ULL), ((u8)100ULL), ((u8)101ULL), ((u8)114ULL), ((u8)46ULL), ((u8)99ULL), ((u8)112ULL), ((u8)112ULL), ((u8)58ULL), ((u8)50ULL), ((u8)48ULL), ((u8)56ULL), ((u8)0ULL)}};
struct A41 _str_82 = {{((u8)115ULL), ((u8)116ULL), ((u8)114ULL), ((u8)105ULL), ((u8)110ULL), ((u8)103ULL), ((u8)40ULL), ((u8)110ULL), ((u8)101ULL), ((u8)101ULL), ((u8)100ULL), ((u8)32ULL), ((u8)52ULL), ((u8)41ULL), ((u8)58ULL), ((u8)32ULL), ((u8)97ULL), ((u8)99ULL), ((u8)99ULL), ((u8)101ULL), ((u8)112ULL), ((u8)116ULL), ((u8)101ULL), ((u8)100ULL), ((u8)0ULL)}};
struct A16 _str_84 = {{((u8)111ULL), ((u8)117ULL), ((u8)116ULL), ((u8)32ULL), ((u8)33ULL), ((u8)61ULL), ((u8)32ULL), ((u8)79ULL), ((u8)84ULL), ((u8)72ULL), ((u8)69ULL), ((u8)82ULL), ((u8)32ULL), ((u8)64ULL), ((u8)47ULL), ((u8)118ULL), ((u8)101ULL), ((u8)114ULL), ((u8)105ULL), ((u8)102ULL), ((u8)47ULL), ((u8)104ULL), ((u8)97ULL), ((u8)114ULL), ((u8)110ULL), ((u8)101ULL), ((u8)115ULL), ((u8)115ULL), ((u8)47ULL), ((u8)67ULL), ((u8)48ULL), ((u8)55ULL), ((u8)95ULL), ((u8)100ULL), ((u8)101ULL), ((u8)99ULL), ((u8)111ULL), ((u8)100ULL), ((u8)101ULL), ((u8)114ULL), ((u8)46ULL), ((u8)99ULL), ((u8)112ULL), ((u8)112ULL), ((u8)58ULL), ((u8)50ULL), ((u8)52ULL), ((u8)51ULL), ((u8)0ULL)}};
struct A17 _str_85 = {{((u8)111ULL), ((u8)117ULL), ((u8)116ULL), ((u8)32ULL), ((u8)61ULL), ((u8)61ULL), ((u8)32ULL), ((u8)80ULL), ((u8)65ULL), ((u8)82ULL), ((u8)83ULL), ((u8)69ULL), ((u8)95ULL), ((u8)69ULL), ((u8)82ULL), ((u8)82ULL), ((u8)79ULL), ((u8)82ULL), ((u8)32ULL), ((u8)64ULL), ((u8)47ULL), ((u8)118ULL), ((u8)101ULL), ((u8)114ULL), ((u8)105ULL), ((u8)102ULL), ((u8)47ULL), ((u8)104ULL), ((u8)97ULL), ((u8)114ULL), ((u8)110ULL), ((u8)101ULL), ((u8)115ULL), ((u8)115ULL), ((u8)47ULL), ((u8)67ULL), ((u8)48ULL), ((u8)55ULL), ((u8)95ULL), ((u8)100ULL), ((u8)101ULL), ((u8)99ULL), ((u8)111ULL), ((u8)100ULL), ((u8)101ULL), ((u8)114ULL), ((u8)46ULL), ((u8)99ULL), ((u8)112ULL), ((u8)112ULL), ((u8)58ULL), ((u8)50ULL), ((u8)53ULL), ((u8)48ULL), ((u8)0ULL)}};
struct A18 _str_86 = {{((u8)112ULL), ((u8)114ULL), ((u8)111ULL), ((u8)112ULL), ((u8)101ULL), ((u8)114ULL), ((u8)116ULL), ((u8)121ULL), ((u8)32ULL), ((u8)105ULL), ((u8)110ULL), ((u8)102ULL), ((u8)111ULL), ((u8)58ULL), ((u8)32ULL), ((u8)109ULL), ((u8)97ULL), ((u8)108ULL), ((u8)102ULL), ((u8)111ULL), ((u8)114ULL), ((u8)109ULL), ((u8)101ULL), ((u8)100ULL), ((u8)32ULL), ((u8)45ULL), ((u8)62ULL), ((u8)32ULL), ((u8)112ULL), ((u8)97ULL), ((u8)114ULL), ((u8)115ULL), ((u8)101ULL), ((u8)95ULL), ((u8)101ULL), ((u8)114ULL), ((u8)114ULL), ((u8)111ULL), ((u8)114ULL), ((u8)0ULL)}};
struct A17 _str_88 = {{((u8)111ULL), ((u8)117ULL), ((u8)116ULL), ((u8)32ULL), ((u8)61ULL), ((u8)61ULL), ((u8)32ULL), ((u8)80ULL), ((u8)65ULL), ((u8)82ULL), ((u8)83ULL), ((u8)69ULL), ((u8)95ULL), ((u8)69ULL), ((u8)82ULL), ((u8)82ULL), ((u8)79ULL), ((u8)82ULL), ((u8)32ULL), ((u8)64ULL), ((u8)47ULL), ((u8)118ULL), ((u8)101ULL), ((u8)114ULL), ((u8)105ULL), ((u8)102ULL), ((u8)47ULL), ((u8)104ULL), ((u8)97ULL), ((u8)114ULL), ((u8)110ULL), ((u8)101ULL), ((u8)115ULL), ((u8)115ULL), ((u8)47ULL), ((u8)67ULL), ((u8)48ULL), ((u8)55ULL), ((u8)95ULL), ((u8)100ULL), ((u8)101ULL), ((u8)99ULL), ((u8)111ULL), ((u8)100ULL), ((u8)101ULL), ((u8)114ULL), ((u8)46ULL), ((u8)99ULL), ((u8)112ULL), ((u8)112ULL), ((u8)58ULL), ((u8)50ULL), ((u8)53ULL), ((u8)51ULL), ((u8)0ULL)}};
struct A30 _str_89 = {{((u8)112ULL), ((u8)114ULL), ((u8)111ULL), ((u8)112ULL), ((u8)101ULL), ((u8)114ULL), ((u8)116ULL), ((u8)121ULL), ((u8)32ULL), ((u8)105ULL), ((u8)110ULL), ((u8)102ULL), ((u8)111ULL), ((u8)58ULL), ((u8)32ULL), ((u8)49ULL), ((u8)51ULL), ((u8)45ULL), ((u8)98ULL), ((u8)121ULL), ((u8)116ULL), ((u8)101ULL), ((u8)32ULL), ((u8)101ULL), ((u8)110ULL), ((u8)116ULL), ((u8)114ULL), ((u8)121ULL), ((u8)32ULL), ((u8)114ULL), ((u8)101ULL), ((u8)102ULL), ((u8)117ULL), ((u8)115ULL), ((u8)101ULL), ((u8)100ULL), ((u8)32ULL), ((u8)40ULL), ((u8)99ULL), ((u8)111ULL), ((u8)100ULL), ((u8)101ULL), ((u8)32ULL), ((u8)97ULL), ((u8)115ULL), ((u8)107ULL), ((u8)115ULL), ((u8)32ULL), ((u8)102ULL), ((u8)111ULL), ((u8)114ULL), ((u8)32ULL), ((u8)49ULL), ((u8)52ULL), ((u8)41ULL), ((u8)0ULL)}};
struct S0_class_std__ios_base__Init _ZStL8__ioinit = {0};
struct A42 _str_5 = {{((u8)114ULL), ((u8)101ULL), ((u8)97ULL), ((u8)100ULL), ((u8)32ULL), ((u8)98ULL), ((u8)101ULL), ((u8)121ULL), ((u8)111ULL), ((u8)110ULL), ((u8)100ULL), ((u8)32ULL), ((u8)98ULL), ((u8)117ULL), ((u8)102ULL), ((u8)102ULL), ((u8)101ULL), ((u8)114ULL), ((u8)0ULL)}};
struct A43 _str_1_12 = {{((u8)112ULL), ((u8)97ULL), ((u8)100ULL), ((u8)100ULL), ((u8)105ULL), ((u8)110ULL), ((u8)103ULL), ((u8)32ULL), ((u8)110ULL), ((u8)111ULL), ((u8)116ULL), ((u8)32ULL), ((u8)48ULL), ((u8)0ULL)}};
struct A42 _str_59 = {{((u8)73ULL), ((u8)110ULL), ((u8)118ULL), ((u8)97ULL), ((u8)108ULL), ((u8)105ULL), ((u8)100ULL), ((u8)32ULL), ((u8)101ULL), ((u8)110ULL), ((u8)117ULL), ((u8)109ULL), ((u8)32ULL), ((u8)118ULL), ((u8)97ULL), ((u8)108ULL), ((u8)117ULL), ((u8)101ULL), ((u8)0ULL)}};
struct A10 _ZTSN14OpenVolumeMesh2IO6detail11parse_errorE = {{((u8)78ULL), ((u8)49ULL), ((u8)52ULL), ((u8)79ULL), ((u8)112ULL), ((u8)101ULL), ((u8)110ULL), ((u8)86ULL), ((u8)111ULL), ((u8)108ULL), ((u8)117ULL), ((u8)109ULL), ((u8)101ULL), ((u8)77ULL), ((u8)101ULL), ((u8)115ULL), ((u8)104ULL), ((u8)50ULL), ((u8)73ULL), ((u8)79ULL), ((u8)54ULL), ((u8)100ULL), ((u8)101ULL), ((u8)116ULL), ((u8)97ULL), ((u8)105ULL), ((u8)108ULL), ((u8)49ULL), ((u8)49ULL), ((u8)112ULL), ((u8)97ULL), ((u8)114ULL), ((u8)115ULL), ((u8)101ULL), ((u8)95ULL), ((u8)101ULL), ((u8)114ULL), ((u8)114ULL), ((u8)111ULL), ((u8)114ULL), ((u8)69ULL), ((u8)0ULL)}};
struct S1 _ZTIN14OpenVolumeMesh2IO6detail11parse_errorE = {((u8*)((u8**)((&_ZTVN10__cxxabiv120__si_class_type_infoE) + (s64)((s64)((u64)2ULL))))), ((u8*)(&(*(&_ZTSN14OpenVolumeMesh2IO6detail11parse_errorE)).e[(s64)((s32)((u32)0ULL))])), ((u8*)(&_ZTIN14OpenVolumeMesh2IO6detail8io_errorE))};
u64 _ZN14OpenVolumeMesh2IO6detail9ovmb_sizeINS1_10FileHeaderEEE = ((u64)0ULL);
u64 _ZN14OpenVolumeMesh2IO6detail9ovmb_sizeINS1_9ArraySpanEEE = ((u64)12ULL);
u64 _ZN14OpenVolumeMesh2IO6detail9ovmb_sizeINS1_11ChunkHeaderEEE = ((u64)0ULL);
struct A26 _str_1_66 = {{((u8)67ULL), ((u8)97ULL), ((u8)110ULL), ((u8)110ULL), ((u8)111ULL), ((u8)116ULL), ((u8)32ULL), ((u8)104ULL), ((u8)97ULL), ((u8)118ULL), ((u8)101ULL), ((u8)32ULL), ((u8)109ULL), ((u8)111ULL), ((u8)114ULL), ((u8)101ULL), ((u8)32ULL), ((u8)112ULL), ((u8)97ULL), ((u8)100ULL), ((u8)100ULL), ((u8)105ULL), ((u8)110ULL), ((u8)103ULL), ((u8)32ULL), ((u8)116ULL), ((u8)104ULL), ((u8)97ULL), ((u8)110ULL), ((u8)32ULL), ((u8)116ULL), ((u8)111ULL), ((u8)116ULL), ((u8)97ULL), ((u8)108ULL), ((u8)32ULL), ((u8)108ULL), ((u8)101ULL), ((u8)110ULL), ((u8)103ULL), ((u8)116ULL), ((u8)104ULL), ((u8)0ULL)}};
u64 _ZN14OpenVolumeMesh2IO6detail9ovmb_sizeINS1_15PropChunkHeaderEEE = ((u64)0ULL);
u64 _ZN14OpenVolumeMesh2IO6detail9ovmb_sizeINS1_17VertexChunkHeaderEEE = ((u64)0ULL);
u64 _ZN14OpenVolumeMesh2IO6detail9ovmb_sizeINS1_15TopoChunkHeaderEEE = ((u64)0ULL);
struct S2 _ZTVN14OpenVolumeMesh2IO6detail11parse_errorE = {{{((u8*)0), ((u8*)(&_ZTIN14OpenVolumeMesh2IO6detail11parse_errorE)), ((u8*)((fnptr_t)_ZNSt13runtime_errorD2Ev)), ((u8*)((fnptr_t)_ZN14OpenVolumeMesh2IO6detail11parse_errorD0Ev)), ((u8*)((fnptr_t)_ZNKSt13runtime_error4whatEv))}}};
u64 _ZGVN14OpenVolumeMesh2IO6detail9ovmb_sizeINS1_10FileHeaderEEE = ((u64)0ULL);
u64 _ZN14OpenVolumeMesh2IO6detail9ovmb_sizeINS1_8TopoTypeEEE = ((u64)1ULL);
u64 _ZGVN14OpenVolumeMesh2IO6detail9ovmb_sizeINS1_11ChunkHeaderEEE = ((u64)0ULL);
u64 _ZN14OpenVolumeMesh2IO6detail9ovmb_sizeINS1_9ChunkTypeEEE = ((u64)4ULL);
u64 _ZN14OpenVolumeMesh2IO6detail9ovmb_sizeINS1_10ChunkFlagsEEE = ((u64)1ULL);
u64 _ZGVN14OpenVolumeMesh2IO6detail9ovmb_sizeINS1_15PropChunkHeaderEEE = ((u64)0ULL);
u64 _ZGVN14OpenVolumeMesh2IO6detail9ovmb_sizeINS1_17VertexChunkHeaderEEE = ((u64)0ULL);
u64 _ZGVN14OpenVolumeMesh2IO6detail9ovmb_sizeINS1_15TopoChunkHeaderEEE = ((u64)0ULL);
u64 _ZN14OpenVolumeMesh2IO6detail9ovmb_sizeINS1_10TopoEntityEEE = ((u64)1ULL);
u64 _ZN14OpenVolumeMesh2IO6detail9ovmb_sizeINS1_11IntEncodingEEE = ((u64)1ULL);
struct S3_struct_std__array_13 _ZN14OpenVolumeMesh2IO6detail10ovmb_magicE = {{{((u8)79ULL), ((u8)86ULL), ((u8)77ULL), ((u8)66ULL), ((u8)10ULL), ((u8)13ULL), ((u8)10ULL), ((u8)255ULL)}}};
struct A44 _ZZNSt8__detail18__to_chars_10_implImEEvPcjT_E8__digits = {{((u8)48ULL), ((u8)48ULL), ((u8)48ULL), ((u8)49ULL), ((u8)48ULL), ((u8)50ULL), ((u8)48ULL), ((u8)51ULL), ((u8)48ULL), ((u8)52ULL), ((u8)48ULL), ((u8)53ULL), ((u8)48ULL), ((u8)54ULL), ((u8)48ULL), ((u8)55ULL), ((u8)48ULL), ((u8)56ULL), ((u8)48ULL), ((u8)57ULL), ((u8)49ULL), ((u8)48ULL), ((u8)49ULL), ((u8)49ULL), ((u8)49ULL), ((u8)50ULL), ((u8)49ULL), ((u8)51ULL), ((u8)49ULL), ((u8)52ULL), ((u8)49ULL), ((u8)53ULL), ((u8)49ULL), ((u8)54ULL), ((u8)49ULL), ((u8)55ULL), ((u8)49ULL), ((u8)56ULL), ((u8)49ULL), ((u8)57ULL), ((u8)50ULL), ((u8)48ULL), ((u8)50ULL), ((u8)49ULL), ((u8)50ULL), ((u8)50ULL), ((u8)50ULL), ((u8)51ULL), ((u8)50ULL), ((u8)52ULL), ((u8)50ULL), ((u8)53ULL), ((u8)50ULL), ((u8)54ULL), ((u8)50ULL), ((u8)55ULL), ((u8)50ULL), ((u8)56ULL), ((u8)50ULL), ((u8)57ULL), ((u8)51ULL), ((u8)48ULL), ((u8)51ULL), ((u8)49ULL), ((u8)51ULL), ((u8)50ULL), ((u8)51ULL), ((u8)51ULL), ((u8)51ULL), ((u8)52ULL), ((u8)51ULL), ((u8)53ULL), ((u8)51ULL), ((u8)54ULL), ((u8)51ULL), ((u8)55ULL), ((u8)51ULL), ((u8)56ULL), ((u8)51ULL), ((u8)57ULL), ((u8)52ULL), ((u8)48ULL), ((u8)52ULL), ((u8)49ULL), ((u8)52ULL), ((u8)50ULL), ((u8)52ULL), ((u8)51ULL), ((u8)52ULL), ((u8)52ULL), ((u8)52ULL), ((u8)53ULL), ((u8)52ULL), ((u8)54ULL), ((u8)52ULL), ((u8)55ULL), ((u8)52ULL), ((u8)56ULL), ((u8)52ULL), ((u8)57ULL), ((u8)53ULL), ((u8)48ULL), ((u8)53ULL), ((u8)49ULL), ((u8)53ULL), ((u8)50ULL), ((u8)53ULL), ((u8)51ULL), ((u8)53ULL), ((u8)52ULL), ((u8)53ULL), ((u8)53ULL), ((u8)53ULL), ((u8)54ULL), ((u8)53ULL), ((u8)55ULL), ((u8)53ULL), ((u8)56ULL), ((u8)53ULL), ((u8)57ULL), ((u8)54ULL), ((u8)48ULL), ((u8)54ULL), ((u8)49ULL), ((u8)54ULL), ((u8)50ULL), ((u8)54ULL), ((u8)51ULL), ((u8)54ULL), ((u8)52ULL), ((u8)54ULL), ((u8)53ULL), ((u8)54ULL), ((u8)54ULL), ((u8)54ULL), ((u8)55ULL), ((u8)54ULL), ((u8)56ULL), ((u8)54ULL), ((u8)57ULL), ((u8)55ULL), ((u8)48ULL), ((u8)55ULL), ((u8)49ULL), ((u8)55ULL), ((u8)50ULL), ((u8)55ULL), ((u8)51ULL), ((u8)55ULL), ((u8)52ULL), ((u8)55ULL), ((u8)53ULL), ((u8)55ULL), ((u8)54ULL), ((u8)55ULL), ((u8)55ULL), ((u8)55ULL), ((u8)56ULL), ((u8)55ULL), ((u8)57ULL), ((u8)56ULL), ((u8)48ULL), ((u8)56ULL), ((u8)49ULL), ((u8)56ULL), ((u8)50ULL), ((u8)56ULL), ((u8)51ULL), ((u8)56ULL), ((u8)52ULL), ((u8)56ULL), ((u8)53ULL), ((u8)56ULL), ((u8)54ULL), ((u8)56ULL), ((u8)55ULL), ((u8)56ULL), ((u8)56ULL), ((u8)56ULL), ((u8)57ULL), ((u8)57ULL), ((u8)48ULL), ((u8)57ULL), ((u8)49ULL), ((u8)57ULL), ((u8)50ULL), ((u8)57ULL), ((u8)51ULL), ((u8)57ULL), ((u8)52ULL), ((u8)57ULL), ((u8)53ULL), ((u8)57ULL), ((u8)54ULL), ((u8)57ULL), ((u8)55ULL), ((u8)57ULL), ((u8)56ULL), ((u8)57ULL), ((u8)57ULL), ((u8)0ULL)}};
struct S0_class_std__ios_base__Init _ZStL8__ioinit_94 = {0};
struct A33 _ZTSN14OpenVolumeMesh2IO6detail8io_errorE = {{((u8)78ULL), ((u8)49ULL), ((u8)52ULL), ((u8)79ULL), ((u8)112ULL), ((u8)101ULL), ((u8)110ULL), ((u8)86ULL), ((u8)111ULL), ((u8)108ULL), ((u8)117ULL), ((u8)109ULL), ((u8)101ULL), ((u8)77ULL), ((u8)101ULL), ((u8)115ULL), ((u8)104ULL), ((u8)50ULL), ((u8)73ULL), ((u8)79ULL), ((u8)54ULL), ((u8)100ULL), ((u8)101ULL), ((u8)116ULL), ((u8)97ULL), ((u8)105ULL), ((u8)108ULL), ((u8)56ULL), ((u8)105ULL), ((u8)111ULL), ((u8)95ULL), ((u8)101ULL), ((u8)114ULL), ((u8)114ULL), ((u8)111ULL), ((u8)114ULL), ((u8)69ULL), ((u8)0ULL)}};
struct S1 _ZTIN14OpenVolumeMesh2IO6detail8io_errorE = {((u8*)((u8**)((&_ZTVN10__cxxabiv120__si_class_type_infoE) + (s64)((s64)((u64)2ULL))))), ((u8*)(&(*(&_ZTSN14OpenVolumeMesh2IO6detail8io_errorE)).e[(s64)((s32)((u32)0ULL))])), ((u8*)(&_ZTISt13runtime_error))};
struct S0_class_std__ios_base__Init _ZStL8__ioinit_107 = {0};
void harness_file_header_full(void) {
  v_run_static_init();
  struct S4_class_OpenVolumeMesh__IO__detail__Decode* v0; struct S4_class_OpenVolumeMesh__IO__detail__Decode v0_m;
  struct S9_struct_OpenVolumeMesh__IO__detail__FileH* v1; struct S9_struct_OpenVolumeMesh__IO__detail__FileH v1_m;
  u8* v2;
  u8* v3;
  u8* v4;
  u8** v5;
  u8** v6;
  u8** v7;
  u8** v8;
  u8** v9;
  u8* v10;
  u64* v11;
  u32* v12;
  u8* v13;
  u1 v14;
  struct S16 v15;
  u8* v16;
  u32 v17;
  u32 v18;
  u1 v19;
  u8* v20;
  u1 v21; u1 v21_t;
  u1 v22; u1 v22_t;
  u1 v23; u1 v23_t;
  u1 v24; u1 v24_t;
  u8 v25;
  u1 v26;
  u8 v27;
  u1 v28;
  u1 v29;
  u8 v30;
  u1 v31;
  u1 v32;
  u8 v33;
  u1 v34;
  u1 v35;
  u8 v36;
  u1 v37;
  u1 v38;
  u8 v39;
  u1 v40;
  u1 v41;
  u8 v42;
  u1 v43;
  u1 v44;
  u8 v45;
  u1 v46;
  u1 v47; u1 v47_t;
  u8 v48;
  u1 v49;
  u8 v50;
  u1 v51;
  u8 v52;
  u1 v53;
  u8 v54;
  u1 v55;
  u1 v56;
  u8 v57;
  u1 v58;
  u1 v59;
  u8 v60;
  u1 v61;
  u1 v62; u1 v62_t;
  u1 v63;
  u1 v64;
  u1 v65;
  u1 v66;
  struct S16 v67;
  struct S16 v68;
  struct S16 v69;
  u1 v70;
  u1 v71;
  u8 v72;
  u8 v73;
  u1 v74;
  u8* v75;
  u8 v76;
  u1 v77;
  u1 v78;
  u8* v79;
  u8 v80;
  u8 v81;
  u1 v82;
  u8* v83;
  u8 v84;
  u8 v85;
  u1 v86;
  u1 v87; u1 v87_t;
  u64 v88;
  u64 v89; u64 v89_t;
  u64 v90; u64 v90_t;
  u64 v91;
  u8* v92;
  u8 v93;
  u64 v94;
  u64 v95;
  u64 v96;
  u64 v97;
  u64 v98;
  u1 v99;
  u1 v100;
  u64* v101;
  u64 v102;
  u64 v103; u64 v103_t;
  u64 v104; u64 v104_t;
  u64 v105;
  u8* v106;
  u8 v107;
  u64 v108;
  u64 v109;
  u64 v110;
  u64 v111;
  u64 v112;
  u1 v113;
  u1 v114;
  u64* v115;
  u64 v116;
  u64 v117; u64 v117_t;
  u64 v118; u64 v118_t;
  u64 v119;
  u8* v120;
  u8 v121;
  u64 v122;
  u64 v123;
  u64 v124;
  u64 v125;
  u64 v126;
  u1 v127;
  u1 v128;
  u64* v129;
  u64 v130;
  u64 v131; u64 v131_t;
  u64 v132; u64 v132_t;
  u64 v133;
  u8* v134;
  u8 v135;
  u64 v136;
  u64 v137;
  u64 v138;
  u64 v139;
  u64 v140;
  u1 v141;
  u1 v142;
  u1 v143; u1 v143_t;
  u8* v144;
  u8* v145;
  u1 v146;
  u8* v147;
  u1 v148;
  struct S16 v149; struct S16 v149_t;
  u8* v150;
  u1 v151;
  u64 v152; u64 v152_t;
  u8 v153;
  u8* v154;
  u64 v155;
  u1 v156;
L0: ;
  v0 = &v0_m;
  v1 = &v1_m;
  v152 = ((u64)0ULL);
  goto L45;
L1: ;
  v2 = _Znwm(((u64)48ULL));
  if (v_exc) return;
  v3 = (u8*)(v2 + (s64)((s64)((u64)48ULL)));
  v_memcpy((u8*)v2, (u8*)((u8*)(&(*(&_ZL5g_raw)).e[(s64)((s64)((u64)0ULL))])), (u64)((u64)48ULL));
  v4 = (u8*)v0;
  v5 = (u8**)(&(*v0).f0.f0.f0.f0.f0);
  *v5 = v2;
  v6 = (u8**)(&(*v0).f0.f0.f0.f0.f1);
  *v6 = v3;
  v7 = (u8**)(&(*v0).f0.f0.f0.f0.f2);
  *v7 = v3;
  v8 = (u8**)(&(*v0).f1);
  *v8 = v2;
  v9 = (u8**)(&(*v0).f2);
  *v9 = v3;
  v10 = (u8*)(&(*v1).f0);
  v11 = (u64*)(&(*v1).f4);
  v12 = (u32*)v1;
  (*v1).f0 = (u8)(((u32)0ULL) >> 0);
  (*v1).f1 = (u8)(((u32)0ULL) >> 8);
  (*v1).f2 = (u8)(((u32)0ULL) >> 16);
  (*v1).f3 = (u8)(((u32)0ULL) >> 24);
  v13 = (u8*)v11;
  (*v1).f4 = ((u64)0ULL);
  (*v1).f5 = ((u64)0ULL);
  (*v1).f6 = ((u64)0ULL);
  (*v1).f7 = ((u64)0ULL);
  v14 = _ZN14OpenVolumeMesh2IO6detail4readERNS1_7DecoderERNS1_10FileHeaderE(v0, v1);
  if (v_exc) {
    goto L2;
  }
  v21_t = ((u1)1ULL);
  v22_t = ((u1)1ULL);
  v23_t = ((u1)0ULL);
  v24_t = v14;
  v21 = v21_t;
  v22 = v22_t;
  v23 = v23_t;
  v24 = v24_t;
  goto L4;
L2: ;
  v15.f0 = v_exc_obj;
  v15.f1 = 0;
  if (v15.f1 == 0 && v_exc_match((u8*)((u8*)(&_ZTIN14OpenVolumeMesh2IO6detail11parse_errorE)))) v15.f1 = 1;
  if (v15.f1 == 0) v15.f1 = 9999;
  if (v15.f1 == 0) return;
  v_exc = 0;
  v16 = v15.f0;
  v17 = v15.f1;
  v18 = 1;
  v19 = (v17 == v18);
  v20 = __cxa_begin_catch(v16);
  if (v19) {
    goto L3;
  } else {
    goto L12;
  }
L3: ;
  __cxa_end_catch();
  if (v_exc) {
    goto L14;
  }
  v21_t = ((u1)1ULL);
  v22_t = ((u1)0ULL);
  v23_t = ((u1)1ULL);
  v24_t = ((u1)0ULL);
  v21 = v21_t;
  v22 = v22_t;
  v23 = v23_t;
  v24 = v24_t;
  goto L4;
L4: ;
  __CPROVER_assert(v21, "out != OTHER @/verif/harness/C07_decoder.cpp:56 [harness_file_header_full]");
  if (v_exc) {
    goto L13;
  }
  goto L5;
L5: ;
  v25 = *((u8*)(&(*(&_ZL5g_raw)).e[(s64)((s64)((u64)0ULL))]));
  v26 = (v25 == ((u8)79ULL));
  v27 = *((u8*)(&(*(&_ZL5g_raw)).e[(s64)((s64)((u64)1ULL))]));
  v28 = (v27 == ((u8)86ULL));
  v29 = (v26 ? v28 : ((u1)0ULL));
  v30 = *((u8*)(&(*(&_ZL5g_raw)).e[(s64)((s64)((u64)2ULL))]));
  v31 = (v30 == ((u8)77ULL));
  v32 = (v29 ? v31 : ((u1)0ULL));
  v33 = *((u8*)(&(*(&_ZL5g_raw)).e[(s64)((s64)((u64)3ULL))]));
  v34 = (v33 == ((u8)66ULL));
  v35 = (v32 ? v34 : ((u1)0ULL));
  v36 = *((u8*)(&(*(&_ZL5g_raw)).e[(s64)((s64)((u64)4ULL))]));
  v37 = (v36 == ((u8)10ULL));
  v38 = (v35 ? v37 : ((u1)0ULL));
  v39 = *((u8*)(&(*(&_ZL5g_raw)).e[(s64)((s64)((u64)5ULL))]));
  v40 = (v39 == ((u8)13ULL));
  v41 = (v38 ? v40 : ((u1)0ULL));
  v42 = *((u8*)(&(*(&_ZL5g_raw)).e[(s64)((s64)((u64)6ULL))]));
  v43 = (v42 == ((u8)10ULL));
  v44 = (v41 ? v43 : ((u1)0ULL));
  if (v44) {
    goto L6;
  } else {
    v47 = ((u1)0ULL);
    goto L7;
  }
L6: ;
  v45 = *((u8*)(&(*(&_ZL5g_raw)).e[(s64)((s64)((u64)7ULL))]));
  v46 = (v45 == ((u8)255ULL));
  v47 = v46;
  goto L7;
L7: ;
  v48 = *((u8*)(&(*(&_ZL5g_raw)).e[(s64)((s64)((u64)9ULL))]));
  v49 = (v48 != ((u8)1ULL));
  v50 = *((u8*)(&(*(&_ZL5g_raw)).e[(s64)((s64)((u64)11ULL))]));
  v51 = (v50 > ((u8)2ULL));
  v52 = *((u8*)(&(*(&_ZL5g_raw)).e[(s64)((s64)((u64)12ULL))]));
  v53 = (v52 == ((u8)0ULL));
  v54 = *((u8*)(&(*(&_ZL5g_raw)).e[(s64)((s64)((u64)13ULL))]));
  v55 = (v54 == ((u8)0ULL));
  v56 = (v53 ? v55 : ((u1)0ULL));
  v57 = *((u8*)(&(*(&_ZL5g_raw)).e[(s64)((s64)((u64)14ULL))]));
  v58 = (v57 == ((u8)0ULL));
  v59 = (v56 ? v58 : ((u1)0ULL));
  if (v59) {
    goto L8;
  } else {
    v62 = ((u1)1ULL);
    goto L9;
  }
L8: ;
  v60 = *((u8*)(&(*(&_ZL5g_raw)).e[(s64)((s64)((u64)15ULL))]));
  v61 = (v60 != ((u8)0ULL));
  v62 = v61;
  goto L9;
L9: ;
  v63 = ((u1)((v47 ^ ((u1)1ULL))&1));
  v64 = (v63 ? ((u1)1ULL) : v49);
  if (v64) {
    goto L10;
  } else {
    goto L16;
  }
L10: ;
  v65 = ((u1)((v24 ^ ((u1)1ULL))&1));
  v66 = ((u1)((v22 & v65)&1));
  __CPROVER_assert(v66, "out == OK && !ok @/verif/harness/C07_decoder.cpp:64 [harness_file_header_full]");
  if (v_exc) {
    goto L15;
  }
  goto L11;
L11: ;
  __CPROVER_assert(0, "WITNESS:file header: bad magic/header_version -> false [harness_file_header_full]");
  if (v_exc) {
    goto L15;
  }
  goto L39;
L12: ;
  __cxa_end_catch();
  if (v_exc) {
    goto L13;
  }
  v21_t = ((u1)0ULL);
  v22_t = ((u1)0ULL);
  v23_t = ((u1)0ULL);
  v24_t = ((u1)0ULL);
  v21 = v21_t;
  v22 = v22_t;
  v23 = v23_t;
  v24 = v24_t;
  goto L4;
L13: ;
  v67.f0 = v_exc_obj;
  v67.f1 = 0;
  v_exc = 0;
  v149 = v67;
  goto L41;
L14: ;
  v68.f0 = v_exc_obj;
  v68.f1 = 0;
  v_exc = 0;
  v149 = v68;
  goto L41;
L15: ;
  v69.f0 = v_exc_obj;
  v69.f1 = 0;
  v_exc = 0;
  v149 = v69;
  goto L41;
L16: ;
  v70 = (v51 ? ((u1)1ULL) : v62);
  if (v70) {
    goto L17;
  } else {
    goto L19;
  }
L17: ;
  __CPROVER_assert(v23, "out == PARSE_ERROR @/verif/harness/C07_decoder.cpp:65 [harness_file_header_full]");
  if (v_exc) {
    goto L15;
  }
  goto L18;
L18: ;
  __CPROVER_assert(0, "WITNESS:file header: bad topo_type/reserved -> parse_error [harness_file_header_full]");
  if (v_exc) {
    goto L15;
  }
  goto L39;
L19: ;
  v71 = ((u1)((v22 & v24)&1));
  __CPROVER_assert(v71, "out == OK && ok @/verif/harness/C07_decoder.cpp:66 [harness_file_header_full]");
  if (v_exc) {
    goto L15;
  }
  goto L20;
L20: ;
  v72 = *v10;
  v73 = *((u8*)(&(*(&_ZL5g_raw)).e[(s64)((s64)((u64)8ULL))]));
  v74 = (v72 == v73);
  v75 = (u8*)(&(*v1).f1);
  v76 = *v75;
  v77 = (v76 == ((u8)1ULL));
  v78 = (v74 ? v77 : ((u1)0ULL));
  if (v78) {
    goto L21;
  } else {
    v87 = ((u1)0ULL);
    goto L23;
  }
L21: ;
  v79 = (u8*)(&(*v1).f2);
  v80 = *v79;
  v81 = *((u8*)(&(*(&_ZL5g_raw)).e[(s64)((s64)((u64)10ULL))]));
  v82 = (v80 == v81);
  if (v82) {
    goto L22;
  } else {
    v87 = ((u1)0ULL);
    goto L23;
  }
L22: ;
  v83 = (u8*)(&(*v1).f3);
  v84 = *v83;
  v85 = *((u8*)(&(*(&_ZL5g_raw)).e[(s64)((s64)((u64)11ULL))]));
  v86 = (v84 == v85);
  v87 = v86;
  goto L23;
L23: ;
  __CPROVER_assert(v87, "h.file_version == bytes[8] && h.header_version == 1 && h.vertex_dim == bytes[10] && (uint8_t)h.topo_type == bytes[11] @/verif/harness/C07_decoder.cpp:67 [harness_file_header_full]");
  if (v_exc) {
    goto L15;
  }
  goto L24;
L24: ;
  v88 = *v11;
  v89_t = ((u64)0ULL);
  v90_t = ((u64)0ULL);
  v89 = v89_t;
  v90 = v90_t;
  goto L25;
L25: ;
  v91 = ((u64)(v89 + ((u64)16ULL)));
  v92 = (u8*)(&(*(&_ZL5g_raw)).e[(s64)((s64)v91)]);
  v93 = (*(&_ZL5g_raw)).e[(s64)((s64)v91)];
  v94 = ((u64)(v93));
  v95 = ((u64)(v89 << ((u64)3ULL)));
  v96 = ((u64)(v94 << v95));
  v97 = ((u64)(v96 | v90));
  v98 = ((u64)(v89 + ((u64)1ULL)));
  v99 = (v98 == ((u64)8ULL));
  if (v99) {
    goto L26;
  } else {
    v89_t = v98;
    v90_t = v97;
    v89 = v89_t;
    v90 = v90_t;
    goto L25;
  }
L26: ;
  v100 = (v88 == v97);
  if (v100) {
    goto L27;
  } else {
    v143 = ((u1)0ULL);
    goto L36;
  }
L27: ;
  v101 = (u64*)(&(*v1).f5);
  v102 = *v101;
  v103_t = ((u64)0ULL);
  v104_t = ((u64)0ULL);
  v103 = v103_t;
  v104 = v104_t;
  goto L28;
L28: ;
  v105 = ((u64)(v103 + ((u64)24ULL)));
  v106 = (u8*)(&(*(&_ZL5g_raw)).e[(s64)((s64)v105)]);
  v107 = (*(&_ZL5g_raw)).e[(s64)((s64)v105)];
  v108 = ((u64)(v107));
  v109 = ((u64)(v103 << ((u64)3ULL)));
  v110 = ((u64)(v108 << v109));
  v111 = ((u64)(v110 | v104));
  v112 = ((u64)(v103 + ((u64)1ULL)));
  v113 = (v112 == ((u64)8ULL));
  if (v113) {
    goto L29;
  } else {
    v103_t = v112;
    v104_t = v111;
    v103 = v103_t;
    v104 = v104_t;
    goto L28;
  }
L29: ;
  v114 = (v102 == v111);
  if (v114) {
    goto L30;
  } else {
    v143 = ((u1)0ULL);
    goto L36;
  }
L30: ;
  v115 = (u64*)(&(*v1).f6);
  v116 = *v115;
  v117_t = ((u64)0ULL);
  v118_t = ((u64)0ULL);
  v117 = v117_t;
  v118 = v118_t;
  goto L31;
L31: ;
  v119 = ((u64)(v117 + ((u64)32ULL)));
  v120 = (u8*)(&(*(&_ZL5g_raw)).e[(s64)((s64)v119)]);
  v121 = (*(&_ZL5g_raw)).e[(s64)((s64)v119)];
  v122 = ((u64)(v121));
  v123 = ((u64)(v117 << ((u64)3ULL)));
  v124 = ((u64)(v122 << v123));
  v125 = ((u64)(v124 | v118));
  v126 = ((u64)(v117 + ((u64)1ULL)));
  v127 = (v126 == ((u64)8ULL));
  if (v127) {
    goto L32;
  } else {
    v117_t = v126;
    v118_t = v125;
    v117 = v117_t;
    v118 = v118_t;
    goto L31;
  }
L32: ;
  v128 = (v116 == v125);
  if (v128) {
    goto L33;
  } else {
    v143 = ((u1)0ULL);
    goto L36;
  }
L33: ;
  v129 = (u64*)(&(*v1).f7);
  v130 = *v129;
  v131_t = ((u64)0ULL);
  v132_t = ((u64)0ULL);
  v131 = v131_t;
  v132 = v132_t;
  goto L34;
L34: ;
  v133 = ((u64)(v131 + ((u64)40ULL)));
  v134 = (u8*)(&(*(&_ZL5g_raw)).e[(s64)((s64)v133)]);
  v135 = (*(&_ZL5g_raw)).e[(s64)((s64)v133)];
  v136 = ((u64)(v135));
  v137 = ((u64)(v131 << ((u64)3ULL)));
  v138 = ((u64)(v136 << v137));
  v139 = ((u64)(v138 | v132));
  v140 = ((u64)(v131 + ((u64)1ULL)));
  v141 = (v140 == ((u64)8ULL));
  if (v141) {
    goto L35;
  } else {
    v131_t = v140;
    v132_t = v139;
    v131 = v131_t;
    v132 = v132_t;
    goto L34;
  }
L35: ;
  v142 = (v130 == v139);
  v143 = v142;
  goto L36;
L36: ;
  __CPROVER_assert(v143, "h.n_verts == le(bytes, 16, 8) && h.n_edges == le(bytes, 24, 8) && h.n_faces == le(bytes, 32, 8) && h.n_cells == le(bytes, 40, 8) @/verif/harness/C07_decoder.cpp:68 [harness_file_header_full]");
  if (v_exc) {
    goto L15;
  }
  goto L37;
L37: ;
  v144 = *v8;
  v145 = *v9;
  v146 = ((u8*)v144 == (u8*)v145);
  __CPROVER_assert(v146, "dec.finished() @/verif/harness/C07_decoder.cpp:69 [harness_file_header_full]");
  if (v_exc) {
    goto L15;
  }
  goto L38;
L38: ;
  __CPROVER_assert(0, "WITNESS:file header: accepted [harness_file_header_full]");
  if (v_exc) {
    goto L15;
  }
  goto L39;
L39: ;
  v147 = *v5;
  v148 = ((u8*)v147 == (u8*)((u8*)0));
  if (v148) {
    goto L44;
  } else {
    goto L40;
  }
L40: ;
  _ZdlPv(v147);
  goto L44;
L41: ;
  v150 = *v5;
  v151 = ((u8*)v150 == (u8*)((u8*)0));
  if (v151) {
    goto L43;
  } else {
    goto L42;
  }
L42: ;
  _ZdlPv(v150);
  goto L43;
L43: ;
  v_exc = 1; return;
L44: ;
  return;
L45: ;
  v153 = v_nondet_u8();
  if (v_exc) return;
  v154 = (u8*)(&(*(&_ZL5g_raw)).e[(s64)((s64)v152)]);
  (*(&_ZL5g_raw)).e[(s64)((s64)v152)] = v153;
  v155 = ((u64)(v152 + ((u64)1ULL)));
  v156 = (v155 == ((u64)48ULL));
  if (v156) {
    goto L1;
  } else {
    v152 = v155;
    goto L45;
  }
}

void harness_chunk_header(void) {
  v_run_static_init();
  u32 v0;
  u1 v1;
  u32 v2;
  u32 v3;
  u32 v4;
  u1 v5;
  u1 v6;
  u64 v7; u64 v7_t;
  u8 v8;
  u8* v9;
  u64 v10;
  u1 v11;
L0: ;
  v7 = ((u64)0ULL);
  goto L32;
L1: ;
  v0 = v_nondet_u32();
  if (v_exc) return;
  v1 = (v0 < ((u32)25ULL));
  __CPROVER_assume(v1);
  v2 = v_param(((u32)0ULL));
  if (v_exc) return;
  v3 = ((u32)(v2 * ((u32)25ULL)));
  v4 = ((u32)(v3 + v0));
  v5 = (v4 < ((u32)25ULL));
  __CPROVER_assume(v5);
  switch (v0) {
  case ((u32)0ULL): {
    goto L2;
  }
  case ((u32)1ULL): {
    goto L3;
  }
  case ((u32)2ULL): {
    goto L4;
  }
  case ((u32)3ULL): {
    goto L5;
  }
  case ((u32)4ULL): {
    goto L6;
  }
  case ((u32)5ULL): {
    goto L7;
  }
  case ((u32)6ULL): {
    goto L8;
  }
  case ((u32)7ULL): {
    goto L9;
  }
  case ((u32)8ULL): {
    goto L10;
  }
  case ((u32)9ULL): {
    goto L11;
  }
  case ((u32)10ULL): {
    goto L12;
  }
  case ((u32)11ULL): {
    goto L13;
  }
  case ((u32)12ULL): {
    goto L14;
  }
  case ((u32)13ULL): {
    goto L15;
  }
  case ((u32)14ULL): {
    goto L16;
  }
  case ((u32)15ULL): {
    goto L17;
  }
  case ((u32)16ULL): {
    goto L18;
  }
  case ((u32)17ULL): {
    goto L19;
  }
  case ((u32)18ULL): {
    goto L20;
  }
  case ((u32)19ULL): {
    goto L21;
  }
  case ((u32)20ULL): {
    goto L22;
  }
  case ((u32)21ULL): {
    goto L24;
  }
  case ((u32)22ULL): {
    goto L26;
  }
  case ((u32)23ULL): {
    goto L28;
  }
  case ((u32)24ULL): {
    goto L30;
  }
  default: {
    goto L31;
  }
  }
L2: ;
  _ZN17Case_chunk_headerILj0EE3runEv();
  if (v_exc) return;
  goto L31;
L3: ;
  _ZN17Case_chunk_headerILj1EE3runEv();
  if (v_exc) return;
  goto L31;
L4: ;
  _ZN17Case_chunk_headerILj2EE3runEv();
  if (v_exc) return;
  goto L31;
L5: ;
  _ZN17Case_chunk_headerILj3EE3runEv();
  if (v_exc) return;
  goto L31;
L6: ;
  _ZN17Case_chunk_headerILj4EE3runEv();
  if (v_exc) return;
  goto L31;
L7: ;
  _ZN17Case_chunk_headerILj5EE3runEv();
  if (v_exc) return;
  goto L29;
L8: ;
  _ZN17Case_chunk_headerILj6EE3runEv();
  if (v_exc) return;
  goto L27;
L9: ;
  _ZN17Case_chunk_headerILj7EE3runEv();
  if (v_exc) return;
  goto L25;
L10: ;
  _ZN17Case_chunk_headerILj8EE3runEv();
  if (v_exc) return;
  goto L23;
L11: ;
  _ZN17Case_chunk_headerILj9EE3runEv();
  if (v_exc) return;
  goto L23;
L12: ;
  _ZN17Case_chunk_headerILj10EE3runEv();
  if (v_exc) return;
  goto L23;
L13: ;
  _ZN17Case_chunk_headerILj11EE3runEv();
  if (v_exc) return;
  goto L23;
L14: ;
  _ZN17Case_chunk_headerILj12EE3runEv();
  if (v_exc) return;
  goto L25;
L15: ;
  _ZN17Case_chunk_headerILj13EE3runEv();
  if (v_exc) return;
  goto L25;
L16: ;
  _ZN17Case_chunk_headerILj14EE3runEv();
  if (v_exc) return;
  goto L27;
L17: ;
  _ZN17Case_chunk_headerILj15EE3runEv();
  if (v_exc) return;
  goto L27;
L18: ;
  _ZN17Case_chunk_headerILj16EE3runEv();
  if (v_exc) return;
  goto L29;
L19: ;
  _ZN17Case_chunk_headerILj17EE3runEv();
  if (v_exc) return;
  goto L29;
L20: ;
  _ZN17Case_chunk_headerILj18EE3runEv();
  if (v_exc) return;
  goto L31;
L21: ;
  _ZN17Case_chunk_headerILj19EE3runEv();
  if (v_exc) return;
  goto L31;
L22: ;
  _ZN17Case_chunk_headerILj20EE3runEv();
  if (v_exc) return;
  goto L23;
L23: ;
  switch (v0) {
  case ((u32)21ULL): {
    goto L24;
  }
  case ((u32)22ULL): {
    goto L26;
  }
  case ((u32)23ULL): {
    goto L28;
  }
  case ((u32)24ULL): {
    goto L30;
  }
  default: {
    goto L31;
  }
  }
L24: ;
  _ZN17Case_chunk_headerILj21EE3runEv();
  if (v_exc) return;
  goto L25;
L25: ;
  switch (v0) {
  case ((u32)22ULL): {
    goto L26;
  }
  case ((u32)23ULL): {
    goto L28;
  }
  case ((u32)24ULL): {
    goto L30;
  }
  default: {
    goto L31;
  }
  }
L26: ;
  _ZN17Case_chunk_headerILj22EE3runEv();
  if (v_exc) return;
  goto L27;
L27: ;
  switch (v0) {
  case ((u32)23ULL): {
    goto L28;
  }
  case ((u32)24ULL): {
    goto L30;
  }
  default: {
    goto L31;
  }
  }
L28: ;
  _ZN17Case_chunk_headerILj23EE3runEv();
  if (v_exc) return;
  goto L29;
L29: ;
  v6 = (v0 == ((u32)24ULL));
  if (v6) {
    goto L30;
  } else {
    goto L31;
  }
L30: ;
  _ZN17Case_chunk_headerILj24EE3runEv();
  if (v_exc) return;
  goto L31;
L31: ;
  return;
L32: ;
  v8 = v_nondet_u8();
  if (v_exc) return;
  v9 = (u8*)(&(*(&_ZL5g_raw)).e[(s64)((s64)v7)]);
  (*(&_ZL5g_raw)).e[(s64)((s64)v7)] = v8;
  v10 = ((u64)(v7 + ((u64)1ULL)));
  v11 = (v10 == ((u64)24ULL));
  if (v11) {
    goto L1;
  } else {
    v7 = v10;
    goto L32;
  }
}

void _ZN17Case_chunk_headerILj0EE3runEv(void) {
  u32 v0;
  u32 v1;
  u1 v2;
L0: ;
  v0 = v_param(((u32)0ULL));
  if (v_exc) return;
  v1 = ((u32)(v0 * ((u32)25ULL)));
  v2 = (v1 < ((u32)25ULL));
  if (v2) {
    goto L1;
  } else {
    goto L2;
  }
L1: ;
  _ZL17body_chunk_headerj(v1);
  if (v_exc) return;
  goto L2;
L2: ;
  return;
}

void _ZN17Case_chunk_headerILj1EE3runEv(void) {
  u32 v0;
  u32 v1;
  u32 v2;
  u1 v3;
L0: ;
  v0 = v_param(((u32)0ULL));
  if (v_exc) return;
  v1 = ((u32)(v0 * ((u32)25ULL)));
  v2 = ((u32)(v1 + ((u32)1ULL)));
  v3 = (v2 < ((u32)25ULL));
  if (v3) {
    goto L1;
  } else {
    goto L2;
  }
L1: ;
  _ZL17body_chunk_headerj(v2);
  if (v_exc) return;
  goto L2;
L2: ;
  return;
}

void _ZN17Case_chunk_headerILj2EE3runEv(void) {
  u32 v0;
  u32 v1;
  u32 v2;
  u1 v3;
L0: ;
  v0 = v_param(((u32)0ULL));
  if (v_exc) return;
  v1 = ((u32)(v0 * ((u32)25ULL)));
  v2 = ((u32)(v1 + ((u32)2ULL)));
  v3 = (v2 < ((u32)25ULL));
  if (v3) {
    goto L1;
  } else {
    goto L2;
  }
L1: ;
  _ZL17body_chunk_headerj(v2);
  if (v_exc) return;
  goto L2;
L2: ;
  return;
}

void _ZN17Case_chunk_headerILj3EE3runEv(void) {
  u32 v0;
  u32 v1;
  u32 v2;
  u1 v3;
L0: ;
  v0 = v_param(((u32)0ULL));
  if (v_exc) return;
  v1 = ((u32)(v0 * ((u32)25ULL)));
  v2 = ((u32)(v1 + ((u32)3ULL)));
  v3 = (v2 < ((u32)25ULL));
  if (v3) {
    goto L1;
  } else {
    goto L2;
  }
L1: ;
  _ZL17body_chunk_headerj(v2);
  if (v_exc) return;
  goto L2;
L2: ;
  return;
}

void _ZN17Case_chunk_headerILj4EE3runEv(void) {
  u32 v0;
  u32 v1;
  u32 v2;
  u1 v3;
L0: ;
  v0 = v_param(((u32)0ULL));
  if (v_exc) return;
  v1 = ((u32)(v0 * ((u32)25ULL)));
  v2 = ((u32)(v1 + ((u32)4ULL)));
  v3 = (v2 < ((u32)25ULL));
  if (v3) {
    goto L1;
  } else {
    goto L2;
  }
L1: ;
  _ZL17body_chunk_headerj(v2);
  if (v_exc) return;
  goto L2;
L2: ;
  return;
}

void _ZN17Case_chunk_headerILj5EE3runEv(void) {
  u32 v0;
  u32 v1;
  u32 v2;
  u1 v3;
L0: ;
  v0 = v_param(((u32)0ULL));
  if (v_exc) return;
  v1 = ((u32)(v0 * ((u32)25ULL)));
  v2 = ((u32)(v1 + ((u32)5ULL)));
  v3 = (v2 < ((u32)25ULL));
  if (v3) {
    goto L1;
  } else {
    goto L2;
  }
L1: ;
  _ZL17body_chunk_headerj(v2);
  if (v_exc) return;
  goto L2;
L2: ;
  return;
}

void _ZN17Case_chunk_headerILj6EE3runEv(void) {
  u32 v0;
  u32 v1;
  u32 v2;
  u1 v3;
L0: ;
  v0 = v_param(((u32)0ULL));
  if (v_exc) return;
  v1 = ((u32)(v0 * ((u32)25ULL)));
  v2 = ((u32)(v1 + ((u32)6ULL)));
  v3 = (v2 < ((u32)25ULL));
  if (v3) {
    goto L1;
  } else {
    goto L2;
  }
L1: ;
  _ZL17body_chunk_headerj(v2);
  if (v_exc) return;
  goto L2;
L2: ;
  return;
}

void _ZN17Case_chunk_headerILj7EE3runEv(void) {
  u32 v0;
  u32 v1;
  u32 v2;
  u1 v3;
L0: ;
  v0 = v_param(((u32)0ULL));
  if (v_exc) return;
  v1 = ((u32)(v0 * ((u32)25ULL)));
  v2 = ((u32)(v1 + ((u32)7ULL)));
  v3 = (v2 < ((u32)25ULL));
  if (v3) {
    goto L1;
  } else {
    goto L2;
  }
L1: ;
  _ZL17body_chunk_headerj(v2);
  if (v_exc) return;
  goto L2;
L2: ;
  return;
}

void _ZN17Case_chunk_headerILj8EE3runEv(void) {
  u32 v0;
  u32 v1;
  u32 v2;
  u1 v3;
L0: ;
  v0 = v_param(((u32)0ULL));
  if (v_exc) return;
  v1 = ((u32)(v0 * ((u32)25ULL)));
  v2 = ((u32)(v1 + ((u32)8ULL)));
  v3 = (v2 < ((u32)25ULL));
  if (v3) {
    goto L1;
  } else {
    goto L2;
  }
L1: ;
  _ZL17body_chunk_headerj(v2);
  if (v_exc) return;
  goto L2;
L2: ;
  return;
}

void _ZN17Case_chunk_headerILj9EE3runEv(void) {
  u32 v0;
  u32 v1;
  u32 v2;
  u1 v3;
L0: ;
  v0 = v_param(((u32)0ULL));
  if (v_exc) return;
  v1 = ((u32)(v0 * ((u32)25ULL)));
  v2 = ((u32)(v1 + ((u32)9ULL)));
  v3 = (v2 < ((u32)25ULL));
  if (v3) {
    goto L1;
  } else {
    goto L2;
  }
L1: ;
  _ZL17body_chunk_headerj(v2);
  if (v_exc) return;
  goto L2;
L2: ;
  return;
}

void _ZN17Case_chunk_headerILj10EE3runEv(void) {
  u32 v0;
  u32 v1;
  u32 v2;
  u1 v3;
L0: ;
  v0 = v_param(((u32)0ULL));
  if (v_exc) return;
  v1 = ((u32)(v0 * ((u32)25ULL)));
  v2 = ((u32)(v1 + ((u32)10ULL)));
  v3 = (v2 < ((u32)25ULL));
  if (v3) {
    goto L1;
  } else {
    goto L2;
  }
L1: ;
  _ZL17body_chunk_headerj(v2);
  if (v_exc) return;
  goto L2;
L2: ;
  return;
}

void _ZN17Case_chunk_headerILj11EE3runEv(void) {
  u32 v0;
  u32 v1;
  u32 v2;
  u1 v3;
L0: ;
  v0 = v_param(((u32)0ULL));
  if (v_exc) return;
  v1 = ((u32)(v0 * ((u32)25ULL)));
  v2 = ((u32)(v1 + ((u32)11ULL)));
  v3 = (v2 < ((u32)25ULL));
  if (v3) {
    goto L1;
  } else {
    goto L2;
  }
L1: ;
  _ZL17body_chunk_headerj(v2);
  if (v_exc) return;
  goto L2;
L2: ;
  return;
}

void _ZN17Case_chunk_headerILj12EE3runEv(void) {
  u32 v0;
  u32 v1;
  u32 v2;
  u1 v3;
L0: ;
  v0 = v_param(((u32)0ULL));
  if (v_exc) return;
  v1 = ((u32)(v0 * ((u32)25ULL)));
  v2 = ((u32)(v1 + ((u32)12ULL)));
  v3 = (v2 < ((u32)25ULL));
  if (v3) {
    goto L1;
  } else {
    goto L2;
  }
L1: ;
  _ZL17body_chunk_headerj(v2);
  if (v_exc) return;
  goto L2;
L2: ;
  return;
}

void _ZN17Case_chunk_headerILj13EE3runEv(void) {
  u32 v0;
  u32 v1;
  u32 v2;
  u1 v3;
L0: ;
  v0 = v_param(((u32)0ULL));
  if (v_exc) return;
  v1 = ((u32)(v0 * ((u32)25ULL)));
  v2 = ((u32)(v1 + ((u32)13ULL)));
  v3 = (v2 < ((u32)25ULL));
  if (v3) {
    goto L1;
  } else {
    goto L2;
  }
L1: ;
  _ZL17body_chunk_headerj(v2);
  if (v_exc) return;
  goto L2;
L2: ;
  return;
}

void _ZN17Case_chunk_headerILj14EE3runEv(void) {
  u32 v0;
  u32 v1;
  u32 v2;
  u1 v3;
L0: ;
  v0 = v_param(((u32)0ULL));
  if (v_exc) return;
  v1 = ((u32)(v0 * ((u32)25ULL)));
  v2 = ((u32)(v1 + ((u32)14ULL)));
  v3 = (v2 < ((u32)25ULL));
  if (v3) {
    goto L1;
  } else {
    goto L2;
  }
L1: ;
  _ZL17body_chunk_headerj(v2);
  if (v_exc) return;
  goto L2;
L2: ;
  return;
}

void _ZN17Case_chunk_headerILj15EE3runEv(void) {
  u32 v0;
  u32 v1;
  u32 v2;
  u1 v3;
L0: ;
  v0 = v_param(((u32)0ULL));
  if (v_exc) return;
  v1 = ((u32)(v0 * ((u32)25ULL)));
  v2 = ((u32)(v1 + ((u32)15ULL)));
  v3 = (v2 < ((u32)25ULL));
  if (v3) {
    goto L1;
  } else {
    goto L2;
  }
L1: ;
  _ZL17body_chunk_headerj(v2);
  if (v_exc) return;
  goto L2;
L2: ;
  return;
}

void _ZN17Case_chunk_headerILj16EE3runEv(void) {
  u32 v0;
  u32 v1;
  u32 v2;
  u1 v3;
L0: ;
  v0 = v_param(((u32)0ULL));
  if (v_exc) return;
  v1 = ((u32)(v0 * ((u32)25ULL)));
  v2 = ((u32)(v1 + ((u32)16ULL)));
  v3 = (v2 < ((u32)25ULL));
  if (v3) {
    goto L1;
  } else {
    goto L2;
  }
L1: ;
  _ZL17body_chunk_headerj(v2);
  if (v_exc) return;
  goto L2;
L2: ;
  return;
}

void _ZN17Case_chunk_headerILj17EE3runEv(void) {
  u32 v0;
  u32 v1;
  u32 v2;
  u1 v3;
L0: ;
  v0 = v_param(((u32)0ULL));
  if (v_exc) return;
  v1 = ((u32)(v0 * ((u32)25ULL)));
  v2 = ((u32)(v1 + ((u32)17ULL)));
  v3 = (v2 < ((u32)25ULL));
  if (v3) {
    goto L1;
  } else {
    goto L2;
  }
L1: ;
  _ZL17body_chunk_headerj(v2);
  if (v_exc) return;
  goto L2;
L2: ;
  return;
}

void _ZN17Case_chunk_headerILj18EE3runEv(void) {
  u32 v0;
  u32 v1;
  u32 v2;
  u1 v3;
L0: ;
  v0 = v_param(((u32)0ULL));
  if (v_exc) return;
  v1 = ((u32)(v0 * ((u32)25ULL)));
  v2 = ((u32)(v1 + ((u32)18ULL)));
  v3 = (v2 < ((u32)25ULL));
  if (v3) {
    goto L1;
  } else {
    goto L2;
  }
L1: ;
  _ZL17body_chunk_headerj(v2);
  if (v_exc) return;
  goto L2;
L2: ;
  return;
}

void _ZN17Case_chunk_headerILj19EE3runEv(void) {
  u32 v0;
  u32 v1;
  u32 v2;
  u1 v3;
L0: ;
  v0 = v_param(((u32)0ULL));
  if (v_exc) return;
  v1 = ((u32)(v0 * ((u32)25ULL)));
  v2 = ((u32)(v1 + ((u32)19ULL)));
  v3 = (v2 < ((u32)25ULL));
  if (v3) {
    goto L1;
  } else {
    goto L2;
  }
L1: ;
  _ZL17body_chunk_headerj(v2);
  if (v_exc) return;
  goto L2;
L2: ;
  return;
}

void _ZN17Case_chunk_headerILj20EE3runEv(void) {
  u32 v0;
  u32 v1;
  u32 v2;
  u1 v3;
L0: ;
  v0 = v_param(((u32)0ULL));
  if (v_exc) return;
  v1 = ((u32)(v0 * ((u32)25ULL)));
  v2 = ((u32)(v1 + ((u32)20ULL)));
  v3 = (v2 < ((u32)25ULL));
  if (v3) {
    goto L1;
  } else {
    goto L2;
  }
L1: ;
  _ZL17body_chunk_headerj(v2);
  if (v_exc) return;
  goto L2;
L2: ;
  return;
}

void _ZN17Case_chunk_headerILj21EE3runEv(void) {
  u32 v0;
  u32 v1;
  u32 v2;
  u1 v3;
L0: ;
  v0 = v_param(((u32)0ULL));
  if (v_exc) return;
  v1 = ((u32)(v0 * ((u32)25ULL)));
  v2 = ((u32)(v1 + ((u32)21ULL)));
  v3 = (v2 < ((u32)25ULL));
  if (v3) {
    goto L1;
  } else {
    goto L2;
  }
L1: ;
  _ZL17body_chunk_headerj(v2);
  if (v_exc) return;
  goto L2;
L2: ;
  return;
}

void _ZN17Case_chunk_headerILj22EE3runEv(void) {
  u32 v0;
  u32 v1;
  u32 v2;
  u1 v3;
L0: ;
  v0 = v_param(((u32)0ULL));
  if (v_exc) return;
  v1 = ((u32)(v0 * ((u32)25ULL)));
  v2 = ((u32)(v1 + ((u32)22ULL)));
  v3 = (v2 < ((u32)25ULL));
  if (v3) {
    goto L1;
  } else {
    goto L2;
  }
L1: ;
  _ZL17body_chunk_headerj(v2);
  if (v_exc) return;
  goto L2;
L2: ;
  return;
}

void _ZN17Case_chunk_headerILj23EE3runEv(void) {
  u32 v0;
  u32 v1;
  u32 v2;
  u1 v3;
L0: ;
  v0 = v_param(((u32)0ULL));
  if (v_exc) return;
  v1 = ((u32)(v0 * ((u32)25ULL)));
  v2 = ((u32)(v1 + ((u32)23ULL)));
  v3 = (v2 < ((u32)25ULL));
  if (v3) {
    goto L1;
  } else {
    goto L2;
  }
L1: ;
  _ZL17body_chunk_headerj(v2);
  if (v_exc) return;
  goto L2;
L2: ;
  return;
}

void _ZN17Case_chunk_headerILj24EE3runEv(void) {
  u32 v0;
  u32 v1;
  u32 v2;
  u1 v3;
L0: ;
  v0 = v_param(((u32)0ULL));
  if (v_exc) return;
  v1 = ((u32)(v0 * ((u32)25ULL)));
  v2 = ((u32)(v1 + ((u32)24ULL)));
  v3 = (v2 < ((u32)25ULL));
  if (v3) {
    goto L1;
  } else {
    goto L2;
  }
L1: ;
  _ZL17body_chunk_headerj(v2);
  if (v_exc) return;
  goto L2;
L2: ;
  return;
}

void _ZL17body_chunk_headerj(u32 a0) {
  struct S4_class_OpenVolumeMesh__IO__detail__Decode* v0; struct S4_class_OpenVolumeMesh__IO__detail__Decode v0_m;
  struct S11_struct_OpenVolumeMesh__IO__detail__Chunk* v1; struct S11_struct_OpenVolumeMesh__IO__detail__Chunk v1_m;
  u64 v2;
  u1 v3;
  u8* v4;
  u8* v5; u8* v5_t;
  u8* v6;
  u8* v7;
  u8** v8;
  u8** v9;
  u8** v10;
  u8** v11;
  u8** v12;
  u8* v13;
  struct S16 v14;
  u8* v15;
  u32 v16;
  u32 v17;
  u1 v18;
  u8* v19;
  u1 v20; u1 v20_t;
  u1 v21; u1 v21_t;
  u1 v22; u1 v22_t;
  u1 v23;
  struct S16 v24;
  struct S16 v25;
  u64 v26; u64 v26_t;
  u64 v27; u64 v27_t;
  u64 v28;
  u8* v29;
  u8 v30;
  u64 v31;
  u64 v32;
  u64 v33;
  u64 v34;
  u64 v35;
  u1 v36;
  u8 v37;
  u1 v38;
  u8 v39;
  u64 v40;
  u1 v41;
  u1 v42;
  struct S16 v43;
  u32* v44;
  u32 v45;
  u64 v46; u64 v46_t;
  u64 v47; u64 v47_t;
  u1 v48;
  u8* v49;
  u8 v50;
  u64 v51;
  u64 v52;
  u64 v53;
  u64 v54;
  u64 v55; u64 v55_t;
  u64 v56;
  u1 v57;
  u32 v58;
  u1 v59;
  u8* v60;
  u8 v61;
  u8 v62;
  u1 v63;
  u8* v64;
  u8 v65;
  u8 v66;
  u1 v67;
  u8* v68;
  u8 v69;
  u8 v70;
  u1 v71;
  u8* v72;
  u8 v73;
  u8 v74;
  u1 v75;
  u1 v76; u1 v76_t;
  u64* v77;
  u64 v78;
  u1 v79;
  u64* v80;
  u64 v81;
  u8 v82;
  u64 v83;
  u64 v84;
  u1 v85;
  u1 v86;
  u8* v87;
  u8* v88;
  u64 v89;
  u64 v90;
  u64 v91;
  u1 v92;
  u8* v93;
  u1 v94;
  struct S16 v95; struct S16 v95_t;
  u8* v96;
  u1 v97;
L0: ;
  v0 = &v0_m;
  v1 = &v1_m;
  v2 = ((u64)(a0));
  v3 = (a0 == ((u32)0ULL));
  if (v3) {
    v5 = ((u8*)0);
    goto L2;
  } else {
    goto L1;
  }
L1: ;
  v4 = _Znwm(v2);
  if (v_exc) return;
  v5 = v4;
  goto L2;
L2: ;
  v6 = (u8*)(v5 + (s64)((s64)v2));
  if (v3) {
    goto L4;
  } else {
    goto L3;
  }
L3: ;
  v_memcpy((u8*)v5, (u8*)((u8*)(&(*(&_ZL5g_raw)).e[(s64)((s64)((u64)0ULL))])), (u64)v2);
  goto L4;
L4: ;
  v7 = (u8*)v0;
  v8 = (u8**)(&(*v0).f0.f0.f0.f0.f0);
  *v8 = v5;
  v9 = (u8**)(&(*v0).f0.f0.f0.f0.f1);
  *v9 = v6;
  v10 = (u8**)(&(*v0).f0.f0.f0.f0.f2);
  *v10 = v6;
  v11 = (u8**)(&(*v0).f1);
  *v11 = v5;
  v12 = (u8**)(&(*v0).f2);
  *v12 = v6;
  v13 = (u8*)v1;
  _ZN14OpenVolumeMesh2IO6detail4readERNS1_7DecoderERNS1_11ChunkHeaderE(v0, v1);
  if (v_exc) {
    goto L5;
  }
  v20_t = ((u1)1ULL);
  v21_t = ((u1)0ULL);
  v22_t = ((u1)1ULL);
  v20 = v20_t;
  v21 = v21_t;
  v22 = v22_t;
  goto L7;
L5: ;
  v14.f0 = v_exc_obj;
  v14.f1 = 0;
  if (v14.f1 == 0 && v_exc_match((u8*)((u8*)(&_ZTIN14OpenVolumeMesh2IO6detail11parse_errorE)))) v14.f1 = 1;
  if (v14.f1 == 0) v14.f1 = 9999;
  if (v14.f1 == 0) return;
  v_exc = 0;
  v15 = v14.f0;
  v16 = v14.f1;
  v17 = 1;
  v18 = (v16 == v17);
  v19 = __cxa_begin_catch(v15);
  if (v18) {
    goto L6;
  } else {
    goto L11;
  }
L6: ;
  __cxa_end_catch();
  if (v_exc) {
    goto L13;
  }
  v20_t = ((u1)1ULL);
  v21_t = ((u1)1ULL);
  v22_t = ((u1)0ULL);
  v20 = v20_t;
  v21 = v21_t;
  v22 = v22_t;
  goto L7;
L7: ;
  __CPROVER_assert(v20, "out != OTHER @/verif/harness/C07_decoder.cpp:82 [_ZL17body_chunk_headerj]");
  if (v_exc) {
    goto L12;
  }
  goto L8;
L8: ;
  v23 = (a0 < ((u32)16ULL));
  if (v23) {
    goto L9;
  } else {
    v26_t = ((u64)0ULL);
    v27_t = ((u64)0ULL);
    v26 = v26_t;
    v27 = v27_t;
    goto L14;
  }
L9: ;
  __CPROVER_assert(v21, "out == PARSE_ERROR @/verif/harness/C07_decoder.cpp:83 [_ZL17body_chunk_headerj]");
  if (v_exc) {
    goto L12;
  }
  goto L10;
L10: ;
  __CPROVER_assert(0, "WITNESS:chunk header: short buffer -> parse_error [_ZL17body_chunk_headerj]");
  if (v_exc) {
    goto L12;
  }
  goto L33;
L11: ;
  __cxa_end_catch();
  if (v_exc) {
    goto L12;
  }
  v20_t = ((u1)0ULL);
  v21_t = ((u1)0ULL);
  v22_t = ((u1)0ULL);
  v20 = v20_t;
  v21 = v21_t;
  v22 = v22_t;
  goto L7;
L12: ;
  v24.f0 = v_exc_obj;
  v24.f1 = 0;
  v_exc = 0;
  v95 = v24;
  goto L36;
L13: ;
  v25.f0 = v_exc_obj;
  v25.f1 = 0;
  v_exc = 0;
  v95 = v25;
  goto L36;
L14: ;
  v28 = ((u64)(v26 + ((u64)8ULL)));
  v29 = (u8*)(&(*(&_ZL5g_raw)).e[(s64)((s64)v28)]);
  v30 = (*(&_ZL5g_raw)).e[(s64)((s64)v28)];
  v31 = ((u64)(v30));
  v32 = ((u64)(v26 << ((u64)3ULL)));
  v33 = ((u64)(v31 << v32));
  v34 = ((u64)(v33 | v27));
  v35 = ((u64)(v26 + ((u64)1ULL)));
  v36 = (v35 == ((u64)8ULL));
  if (v36) {
    goto L15;
  } else {
    v26_t = v35;
    v27_t = v34;
    v26 = v26_t;
    v27 = v27_t;
    goto L14;
  }
L15: ;
  v37 = *((u8*)(&(*(&_ZL5g_raw)).e[(s64)((s64)((u64)7ULL))]));
  v38 = (v37 > ((u8)1ULL));
  v39 = *((u8*)(&(*(&_ZL5g_raw)).e[(s64)((s64)((u64)5ULL))]));
  v40 = ((u64)(v39));
  v41 = (v34 < v40);
  v42 = (v38 ? ((u1)1ULL) : v41);
  if (v42) {
    goto L16;
  } else {
    goto L19;
  }
L16: ;
  __CPROVER_assert(v21, "out == PARSE_ERROR @/verif/harness/C07_decoder.cpp:87 [_ZL17body_chunk_headerj]");
  if (v_exc) {
    goto L18;
  }
  goto L17;
L17: ;
  __CPROVER_assert(0, "WITNESS:chunk header: bad flags / padding > length -> parse_error [_ZL17body_chunk_headerj]");
  if (v_exc) {
    goto L18;
  }
  goto L33;
L18: ;
  v43.f0 = v_exc_obj;
  v43.f1 = 0;
  v_exc = 0;
  v95 = v43;
  goto L36;
L19: ;
  __CPROVER_assert(v22, "out == OK @/verif/harness/C07_decoder.cpp:88 [_ZL17body_chunk_headerj]");
  if (v_exc) {
    goto L18;
  }
  goto L20;
L20: ;
  v44 = (u32*)(&(*v1).f0);
  v45 = *v44;
  v46_t = ((u64)0ULL);
  v47_t = ((u64)0ULL);
  v46 = v46_t;
  v47 = v47_t;
  goto L21;
L21: ;
  v48 = (v46 < ((u64)4ULL));
  if (v48) {
    goto L22;
  } else {
    v55 = v47;
    goto L23;
  }
L22: ;
  v49 = (u8*)(&(*(&_ZL5g_raw)).e[(s64)((s64)v46)]);
  v50 = (*(&_ZL5g_raw)).e[(s64)((s64)v46)];
  v51 = ((u64)(v50));
  v52 = ((u64)(v46 << ((u64)3ULL)));
  v53 = ((u64)(v51 << v52));
  v54 = ((u64)(v53 | v47));
  v55 = v54;
  goto L23;
L23: ;
  v56 = ((u64)(v46 + ((u64)1ULL)));
  v57 = (v56 == ((u64)8ULL));
  if (v57) {
    goto L24;
  } else {
    v46_t = v56;
    v47_t = v55;
    v46 = v46_t;
    v47 = v47_t;
    goto L21;
  }
L24: ;
  v58 = ((u32)(v55));
  v59 = (v45 == v58);
  if (v59) {
    goto L25;
  } else {
    v76 = ((u1)0ULL);
    goto L29;
  }
L25: ;
  v60 = (u8*)(&(*v1).f1);
  v61 = *v60;
  v62 = *((u8*)(&(*(&_ZL5g_raw)).e[(s64)((s64)((u64)4ULL))]));
  v63 = (v61 == v62);
  if (v63) {
    goto L26;
  } else {
    v76 = ((u1)0ULL);
    goto L29;
  }
L26: ;
  v64 = (u8*)(&(*v1).f2);
  v65 = *v64;
  v66 = *((u8*)(&(*(&_ZL5g_raw)).e[(s64)((s64)((u64)5ULL))]));
  v67 = (v65 == v66);
  if (v67) {
    goto L27;
  } else {
    v76 = ((u1)0ULL);
    goto L29;
  }
L27: ;
  v68 = (u8*)(&(*v1).f3);
  v69 = *v68;
  v70 = *((u8*)(&(*(&_ZL5g_raw)).e[(s64)((s64)((u64)6ULL))]));
  v71 = (v69 == v70);
  if (v71) {
    goto L28;
  } else {
    v76 = ((u1)0ULL);
    goto L29;
  }
L28: ;
  v72 = (u8*)(&(*v1).f4);
  v73 = *v72;
  v74 = *((u8*)(&(*(&_ZL5g_raw)).e[(s64)((s64)((u64)7ULL))]));
  v75 = (v73 == v74);
  v76 = v75;
  goto L29;
L29: ;
  __CPROVER_assert(v76, "(uint32_t)h.type == (uint32_t)le(bytes, 0, 4) && h.version == bytes[4] && h.padding_bytes == bytes[5] && h.compression == bytes[6] && (uint8_t)h.flags == bytes[7] @/verif/harness/C07_decoder.cpp:89 [_ZL17body_chunk_headerj]");
  if (v_exc) {
    goto L18;
  }
  goto L30;
L30: ;
  v77 = (u64*)(&(*v1).f5);
  v78 = *v77;
  v79 = (v78 == v34);
  v80 = (u64*)(&(*v1).f6);
  v81 = *v80;
  v82 = *((u8*)(&(*(&_ZL5g_raw)).e[(s64)((s64)((u64)5ULL))]));
  v83 = ((u64)(v82));
  v84 = ((u64)(v34 - v83));
  v85 = (v81 == v84);
  v86 = (v79 ? v85 : ((u1)0ULL));
  __CPROVER_assert(v86, "h.file_length == flen && h.payload_length == flen - bytes[5] @/verif/harness/C07_decoder.cpp:90 [_ZL17body_chunk_headerj]");
  if (v_exc) {
    goto L18;
  }
  goto L31;
L31: ;
  v87 = *v11;
  v88 = *v8;
  v89 = ((u64)((u64)v87));
  v90 = ((u64)((u64)v88));
  v91 = v_pdiff((u8*)v87, (u8*)v88);
  v92 = (v91 == ((u64)16ULL));
  __CPROVER_assert(v92, "dec.pos() == 16 @/verif/harness/C07_decoder.cpp:91 [_ZL17body_chunk_headerj]");
  if (v_exc) {
    goto L18;
  }
  goto L32;
L32: ;
  __CPROVER_assert(0, "WITNESS:chunk header: accepted [_ZL17body_chunk_headerj]");
  if (v_exc) {
    goto L18;
  }
  goto L33;
L33: ;
  v93 = *v8;
  v94 = ((u8*)v93 == (u8*)((u8*)0));
  if (v94) {
    goto L35;
  } else {
    goto L34;
  }
L34: ;
  _ZdlPv(v93);
  goto L35;
L35: ;
  return;
L36: ;
  v96 = *v8;
  v97 = ((u8*)v96 == (u8*)((u8*)0));
  if (v97) {
    goto L38;
  } else {
    goto L37;
  }
L37: ;
  _ZdlPv(v96);
  goto L38;
L38: ;
  v_exc = 1; return;
}

void harness_prop_chunk_header(void) {
  v_run_static_init();
  u32 v0;
  u1 v1;
  u32 v2;
  u32 v3;
  u32 v4;
  u1 v5;
  u1 v6;
  u64 v7; u64 v7_t;
  u8 v8;
  u8* v9;
  u64 v10;
  u1 v11;
L0: ;
  v7 = ((u64)0ULL);
  goto L32;
L1: ;
  v0 = v_nondet_u32();
  if (v_exc) return;
  v1 = (v0 < ((u32)25ULL));
  __CPROVER_assume(v1);
  v2 = v_param(((u32)0ULL));
  if (v_exc) return;
  v3 = ((u32)(v2 * ((u32)25ULL)));
  v4 = ((u32)(v3 + v0));
  v5 = (v4 < ((u32)25ULL));
  __CPROVER_assume(v5);
  switch (v0) {
  case ((u32)0ULL): {
    goto L2;
  }
  case ((u32)1ULL): {
    goto L3;
  }
  case ((u32)2ULL): {
    goto L4;
  }
  case ((u32)3ULL): {
    goto L5;
  }
  case ((u32)4ULL): {
    goto L6;
  }
  case ((u32)5ULL): {
    goto L7;
  }
  case ((u32)6ULL): {
    goto L8;
  }
  case ((u32)7ULL): {
    goto L9;
  }
  case ((u32)8ULL): {
    goto L10;
  }
  case ((u32)9ULL): {
    goto L11;
  }
  case ((u32)10ULL): {
    goto L12;
  }
  case ((u32)11ULL): {
    goto L13;
  }
  case ((u32)12ULL): {
    goto L14;
  }
  case ((u32)13ULL): {
    goto L15;
  }
  case ((u32)14ULL): {
    goto L16;
  }
  case ((u32)15ULL): {
    goto L17;
  }
  case ((u32)16ULL): {
    goto L18;
  }
  case ((u32)17ULL): {
    goto L19;
  }
  case ((u32)18ULL): {
    goto L20;
  }
  case ((u32)19ULL): {
    goto L21;
  }
  case ((u32)20ULL): {
    goto L22;
  }
  case ((u32)21ULL): {
    goto L24;
  }
  case ((u32)22ULL): {
    goto L26;
  }
  case ((u32)23ULL): {
    goto L28;
  }
  case ((u32)24ULL): {
    goto L30;
  }
  default: {
    goto L31;
  }
  }
L2: ;
  _ZN22Case_prop_chunk_headerILj0EE3runEv();
  if (v_exc) return;
  goto L31;
L3: ;
  _ZN22Case_prop_chunk_headerILj1EE3runEv();
  if (v_exc) return;
  goto L31;
L4: ;
  _ZN22Case_prop_chunk_headerILj2EE3runEv();
  if (v_exc) return;
  goto L31;
L5: ;
  _ZN22Case_prop_chunk_headerILj3EE3runEv();
  if (v_exc) return;
  goto L31;
L6: ;
  _ZN22Case_prop_chunk_headerILj4EE3runEv();
  if (v_exc) return;
  goto L31;
L7: ;
  _ZN22Case_prop_chunk_headerILj5EE3runEv();
  if (v_exc) return;
  goto L29;
L8: ;
  _ZN22Case_prop_chunk_headerILj6EE3runEv();
  if (v_exc) return;
  goto L27;
L9: ;
  _ZN22Case_prop_chunk_headerILj7EE3runEv();
  if (v_exc) return;
  goto L25;
L10: ;
  _ZN22Case_prop_chunk_headerILj8EE3runEv();
  if (v_exc) return;
  goto L23;
L11: ;
  _ZN22Case_prop_chunk_headerILj9EE3runEv();
  if (v_exc) return;
  goto L23;
L12: ;
  _ZN22Case_prop_chunk_headerILj10EE3runEv();
  if (v_exc) return;
  goto L23;
L13: ;
  _ZN22Case_prop_chunk_headerILj11EE3runEv();
  if (v_exc) return;
  goto L23;
L14: ;
  _ZN22Case_prop_chunk_headerILj12EE3runEv();
  if (v_exc) return;
  goto L25;
L15: ;
  _ZN22Case_prop_chunk_headerILj13EE3runEv();
  if (v_exc) return;
  goto L25;
L16: ;
  _ZN22Case_prop_chunk_headerILj14EE3runEv();
  if (v_exc) return;
  goto L27;
L17: ;
  _ZN22Case_prop_chunk_headerILj15EE3runEv();
  if (v_exc) return;
  goto L27;
L18: ;
  _ZN22Case_prop_chunk_headerILj16EE3runEv();
  if (v_exc) return;
  goto L29;
L19: ;
  _ZN22Case_prop_chunk_headerILj17EE3runEv();
  if (v_exc) return;
  goto L29;
L20: ;
  _ZN22Case_prop_chunk_headerILj18EE3runEv();
  if (v_exc) return;
  goto L31;
L21: ;
  _ZN22Case_prop_chunk_headerILj19EE3runEv();
  if (v_exc) return;
  goto L31;
L22: ;
  _ZN22Case_prop_chunk_headerILj20EE3runEv();
  if (v_exc) return;
  goto L23;
L23: ;
  switch (v0) {
  case ((u32)21ULL): {
    goto L24;
  }
  case ((u32)22ULL): {
    goto L26;
  }
  case ((u32)23ULL): {
    goto L28;
  }
  case ((u32)24ULL): {
    goto L30;
  }
  default: {
    goto L31;
  }
  }
L24: ;
  _ZN22Case_prop_chunk_headerILj21EE3runEv();
  if (v_exc) return;
  goto L25;
L25: ;
  switch (v0) {
  case ((u32)22ULL): {
    goto L26;
  }
  case ((u32)23ULL): {
    goto L28;
  }
  case ((u32)24ULL): {
    goto L30;
  }
  default: {
    goto L31;
  }
  }
L26: ;
  _ZN22Case_prop_chunk_headerILj22EE3runEv();
  if (v_exc) return;
  goto L27;
L27: ;
  switch (v0) {
  case ((u32)23ULL): {
    goto L28;
  }
  case ((u32)24ULL): {
    goto L30;
  }
  default: {
    goto L31;
  }
  }
L28: ;
  _ZN22Case_prop_chunk_headerILj23EE3runEv();
  if (v_exc) return;
  goto L29;
L29: ;
  v6 = (v0 == ((u32)24ULL));
  if (v6) {
    goto L30;
  } else {
    goto L31;
  }
L30: ;
  _ZN22Case_prop_chunk_headerILj24EE3runEv();
  if (v_exc) return;
  goto L31;
L31: ;
  return;
L32: ;
  v8 = v_nondet_u8();
  if (v_exc) return;
  v9 = (u8*)(&(*(&_ZL5g_raw)).e[(s64)((s64)v7)]);
  (*(&_ZL5g_raw)).e[(s64)((s64)v7)] = v8;
  v10 = ((u64)(v7 + ((u64)1ULL)));
  v11 = (v10 == ((u64)24ULL));
  if (v11) {
    goto L1;
  } else {
    v7 = v10;
    goto L32;
  }
}

void _ZN22Case_prop_chunk_headerILj0EE3runEv(void) {
  u32 v0;
  u32 v1;
  u1 v2;
L0: ;
  v0 = v_param(((u32)0ULL));
  if (v_exc) return;
  v1 = ((u32)(v0 * ((u32)25ULL)));
  v2 = (v1 < ((u32)25ULL));
  if (v2) {
    goto L1;
  } else {
    goto L2;
  }
L1: ;
  _ZL22body_prop_chunk_headerj(v1);
  if (v_exc) return;
  goto L2;
L2: ;
  return;
}

void _ZN22Case_prop_chunk_headerILj1EE3runEv(void) {
  u32 v0;
  u32 v1;
  u32 v2;
  u1 v3;
L0: ;
  v0 = v_param(((u32)0ULL));
  if (v_exc) return;
  v1 = ((u32)(v0 * ((u32)25ULL)));
  v2 = ((u32)(v1 + ((u32)1ULL)));
  v3 = (v2 < ((u32)25ULL));
  if (v3) {
    goto L1;
  } else {
    goto L2;
  }
L1: ;
  _ZL22body_prop_chunk_headerj(v2);
  if (v_exc) return;
  goto L2;
L2: ;
  return;
}

void _ZN22Case_prop_chunk_headerILj2EE3runEv(void) {
  u32 v0;
  u32 v1;
  u32 v2;
  u1 v3;
L0: ;
  v0 = v_param(((u32)0ULL));
  if (v_exc) return;
  v1 = ((u32)(v0 * ((u32)25ULL)));
  v2 = ((u32)(v1 + ((u32)2ULL)));
  v3 = (v2 < ((u32)25ULL));
  if (v3) {
    goto L1;
  } else {
    goto L2;
  }
L1: ;
  _ZL22body_prop_chunk_headerj(v2);
  if (v_exc) return;
  goto L2;
L2: ;
  return;
}

void _ZN22Case_prop_chunk_headerILj3EE3runEv(void) {
  u32 v0;
  u32 v1;
  u32 v2;
  u1 v3;
L0: ;
  v0 = v_param(((u32)0ULL));
  if (v_exc) return;
  v1 = ((u32)(v0 * ((u32)25ULL)));
  v2 = ((u32)(v1 + ((u32)3ULL)));
  v3 = (v2 < ((u32)25ULL));
  if (v3) {
    goto L1;
  } else {
    goto L2;
  }
L1: ;
  _ZL22body_prop_chunk_headerj(v2);
  if (v_exc) return;
  goto L2;
L2: ;
  return;
}

void _ZN22Case_prop_chunk_headerILj4EE3runEv(void) {
  u32 v0;
  u32 v1;
  u32 v2;
  u1 v3;
L0: ;
  v0 = v_param(((u32)0ULL));
  if (v_exc) return;
  v1 = ((u32)(v0 * ((u32)25ULL)));
  v2 = ((u32)(v1 + ((u32)4ULL)));
  v3 = (v2 < ((u32)25ULL));
  if (v3) {
    goto L1;
  } else {
    goto L2;
  }
L1: ;
  _ZL22body_prop_chunk_headerj(v2);
  if (v_exc) return;
  goto L2;
L2: ;
  return;
}

void _ZN22Case_prop_chunk_headerILj5EE3runEv(void) {
  u32 v0;
  u32 v1;
  u32 v2;
  u1 v3;
L0: ;
  v0 = v_param(((u32)0ULL));
  if (v_exc) return;
  v1 = ((u32)(v0 * ((u32)25ULL)));
  v2 = ((u32)(v1 + ((u32)5ULL)));
  v3 = (v2 < ((u32)25ULL));
  if (v3) {
    goto L1;
  } else {
    goto L2;
  }
L1: ;
  _ZL22body_prop_chunk_headerj(v2);
  if (v_exc) return;
  goto L2;
L2: ;
  return;
}

void _ZN22Case_prop_chunk_headerILj6EE3runEv(void) {
  u32 v0;
  u32 v1;
  u32 v2;
  u1 v3;
L0: ;
  v0 = v_param(((u32)0ULL));
  if (v_exc) return;
  v1 = ((u32)(v0 * ((u32)25ULL)));
  v2 = ((u32)(v1 + ((u32)6ULL)));
  v3 = (v2 < ((u32)25ULL));
  if (v3) {
    goto L1;
  } else {
    goto L2;
  }
L1: ;
  _ZL22body_prop_chunk_headerj(v2);
  if (v_exc) return;
  goto L2;
L2: ;
  return;
}

void _ZN22Case_prop_chunk_headerILj7EE3runEv(void) {
  u32 v0;
  u32 v1;
  u32 v2;
  u1 v3;
L0: ;
  v0 = v_param(((u32)0ULL));
  if (v_exc) return;
  v1 = ((u32)(v0 * ((u32)25ULL)));
  v2 = ((u32)(v1 + ((u32)7ULL)));
  v3 = (v2 < ((u32)25ULL));
  if (v3) {
    goto L1;
  } else {
    goto L2;
  }
L1: ;
  _ZL22body_prop_chunk_headerj(v2);
  if (v_exc) return;
  goto L2;
L2: ;
  return;
}

void _ZN22Case_prop_chunk_headerILj8EE3runEv(void) {
  u32 v0;
  u32 v1;
  u32 v2;
  u1 v3;
L0: ;
  v0 = v_param(((u32)0ULL));
  if (v_exc) return;
  v1 = ((u32)(v0 * ((u32)25ULL)));
  v2 = ((u32)(v1 + ((u32)8ULL)));
  v3 = (v2 < ((u32)25ULL));
  if (v3) {
    goto L1;
  } else {
    goto L2;
  }
L1: ;
  _ZL22body_prop_chunk_headerj(v2);
  if (v_exc) return;
  goto L2;
L2: ;
  return;
}

void _ZN22Case_prop_chunk_headerILj9EE3runEv(void) {
  u32 v0;
  u32 v1;
  u32 v2;
  u1 v3;
L0: ;
  v0 = v_param(((u32)0ULL));
  if (v_exc) return;
  v1 = ((u32)(v0 * ((u32)25ULL)));
  v2 = ((u32)(v1 + ((u32)9ULL)));
  v3 = (v2 < ((u32)25ULL));
  if (v3) {
    goto L1;
  } else {
    goto L2;
  }
L1: ;
  _ZL22body_prop_chunk_headerj(v2);
  if (v_exc) return;
  goto L2;
L2: ;
  return;
}

void _ZN22Case_prop_chunk_headerILj10EE3runEv(void) {
  u32 v0;
  u32 v1;
  u32 v2;
  u1 v3;
L0: ;
  v0 = v_param(((u32)0ULL));
  if (v_exc) return;
  v1 = ((u32)(v0 * ((u32)25ULL)));
  v2 = ((u32)(v1 + ((u32)10ULL)));
  v3 = (v2 < ((u32)25ULL));
  if (v3) {
    goto L1;
  } else {
    goto L2;
  }
L1: ;
  _ZL22body_prop_chunk_headerj(v2);
  if (v_exc) return;
  goto L2;
L2: ;
  return;
}

void _ZN22Case_prop_chunk_headerILj11EE3runEv(void) {
  u32 v0;
  u32 v1;
  u32 v2;
  u1 v3;
L0: ;
  v0 = v_param(((u32)0ULL));
  if (v_exc) return;
  v1 = ((u32)(v0 * ((u32)25ULL)));
  v2 = ((u32)(v1 + ((u32)11ULL)));
  v3 = (v2 < ((u32)25ULL));
  if (v3) {
    goto L1;
  } else {
    goto L2;
  }
L1: ;
  _ZL22body_prop_chunk_headerj(v2);
  if (v_exc) return;
  goto L2;
L2: ;
  return;
}

void _ZN22Case_prop_chunk_headerILj12EE3runEv(void) {
  u32 v0;
  u32 v1;
  u32 v2;
  u1 v3;
L0: ;
  v0 = v_param(((u32)0ULL));
  if (v_exc) return;
  v1 = ((u32)(v0 * ((u32)25ULL)));
  v2 = ((u32)(v1 + ((u32)12ULL)));
  v3 = (v2 < ((u32)25ULL));
  if (v3) {
    goto L1;
  } else {
    goto L2;
  }
L1: ;
  _ZL22body_prop_chunk_headerj(v2);
  if (v_exc) return;
  goto L2;
L2: ;
  return;
}

void _ZN22Case_prop_chunk_headerILj13EE3runEv(void) {
  u32 v0;
  u32 v1;
  u32 v2;
  u1 v3;
L0: ;
  v0 = v_param(((u32)0ULL));
  if (v_exc) return;
  v1 = ((u32)(v0 * ((u32)25ULL)));
  v2 = ((u32)(v1 + ((u32)13ULL)));
  v3 = (v2 < ((u32)25ULL));
  if (v3) {
    goto L1;
  } else {
    goto L2;
  }
L1: ;
  _ZL22body_prop_chunk_headerj(v2);
  if (v_exc) return;
  goto L2;
L2: ;
  return;
}

void _ZN22Case_prop_chunk_headerILj14EE3runEv(void) {
  u32 v0;
  u32 v1;
  u32 v2;
  u1 v3;
L0: ;
  v0 = v_param(((u32)0ULL));
  if (v_exc) return;
  v1 = ((u32)(v0 * ((u32)25ULL)));
  v2 = ((u32)(v1 + ((u32)14ULL)));
  v3 = (v2 < ((u32)25ULL));
  if (v3) {
    goto L1;
  } else {
    goto L2;
  }
L1: ;
  _ZL22body_prop_chunk_headerj(v2);
  if (v_exc) return;
  goto L2;
L2: ;
  return;
}

void _ZN22Case_prop_chunk_headerILj15EE3runEv(void) {
  u32 v0;
  u32 v1;
  u32 v2;
  u1 v3;
L0: ;
  v0 = v_param(((u32)0ULL));
  if (v_exc) return;
  v1 = ((u32)(v0 * ((u32)25ULL)));
  v2 = ((u32)(v1 + ((u32)15ULL)));
  v3 = (v2 < ((u32)25ULL));
  if (v3) {
    goto L1;
  } else {
    goto L2;
  }
L1: ;
  _ZL22body_prop_chunk_headerj(v2);
  if (v_exc) return;
  goto L2;
L2: ;
  return;
}

void _ZN22Case_prop_chunk_headerILj16EE3runEv(void) {
  u32 v0;
  u32 v1;
  u32 v2;
  u1 v3;
L0: ;
  v0 = v_param(((u32)0ULL));
  if (v_exc) return;
  v1 = ((u32)(v0 * ((u32)25ULL)));
  v2 = ((u32)(v1 + ((u32)16ULL)));
  v3 = (v2 < ((u32)25ULL));
  if (v3) {
    goto L1;
  } else {
    goto L2;
  }
L1: ;
  _ZL22body_prop_chunk_headerj(v2);
  if (v_exc) return;
  goto L2;
L2: ;
  return;
}

void _ZN22Case_prop_chunk_headerILj17EE3runEv(void) {
  u32 v0;
  u32 v1;
  u32 v2;
  u1 v3;
L0: ;
  v0 = v_param(((u32)0ULL));
  if (v_exc) return;
  v1 = ((u32)(v0 * ((u32)25ULL)));
  v2 = ((u32)(v1 + ((u32)17ULL)));
  v3 = (v2 < ((u32)25ULL));
  if (v3) {
    goto L1;
  } else {
    goto L2;
  }
L1: ;
  _ZL22body_prop_chunk_headerj(v2);
  if (v_exc) return;
  goto L2;
L2: ;
  return;
}

void _ZN22Case_prop_chunk_headerILj18EE3runEv(void) {
  u32 v0;
  u32 v1;
  u32 v2;
  u1 v3;
L0: ;
  v0 = v_param(((u32)0ULL));
  if (v_exc) return;
  v1 = ((u32)(v0 * ((u32)25ULL)));
  v2 = ((u32)(v1 + ((u32)18ULL)));
  v3 = (v2 < ((u32)25ULL));
  if (v3) {
    goto L1;
  } else {
    goto L2;
  }
L1: ;
  _ZL22body_prop_chunk_headerj(v2);
  if (v_exc) return;
  goto L2;
L2: ;
  return;
}

void _ZN22Case_prop_chunk_headerILj19EE3runEv(void) {
  u32 v0;
  u32 v1;
  u32 v2;
  u1 v3;
L0: ;
  v0 = v_param(((u32)0ULL));
  if (v_exc) return;
  v1 = ((u32)(v0 * ((u32)25ULL)));
  v2 = ((u32)(v1 + ((u32)19ULL)));
  v3 = (v2 < ((u32)25ULL));
  if (v3) {
    goto L1;
  } else {
    goto L2;
  }
L1: ;
  _ZL22body_prop_chunk_headerj(v2);
  if (v_exc) return;
  goto L2;
L2: ;
  return;
}

void _ZN22Case_prop_chunk_headerILj20EE3runEv(void) {
  u32 v0;
  u32 v1;
  u32 v2;
  u1 v3;
L0: ;
  v0 = v_param(((u32)0ULL));
  if (v_exc) return;
  v1 = ((u32)(v0 * ((u32)25ULL)));
  v2 = ((u32)(v1 + ((u32)20ULL)));
  v3 = (v2 < ((u32)25ULL));
  if (v3) {
    goto L1;
  } else {
    goto L2;
  }
L1: ;
  _ZL22body_prop_chunk_headerj(v2);
  if (v_exc) return;
  goto L2;
L2: ;
  return;
}

void _ZN22Case_prop_chunk_headerILj21EE3runEv(void) {
  u32 v0;
  u32 v1;
  u32 v2;
  u1 v3;
L0: ;
  v0 = v_param(((u32)0ULL));
  if (v_exc) return;
  v1 = ((u32)(v0 * ((u32)25ULL)));
  v2 = ((u32)(v1 + ((u32)21ULL)));
  v3 = (v2 < ((u32)25ULL));
  if (v3) {
    goto L1;
  } else {
    goto L2;
  }
L1: ;
  _ZL22body_prop_chunk_headerj(v2);
  if (v_exc) return;
  goto L2;
L2: ;
  return;
}

void _ZN22Case_prop_chunk_headerILj22EE3runEv(void) {
  u32 v0;
  u32 v1;
  u32 v2;
  u1 v3;
L0: ;
  v0 = v_param(((u32)0ULL));
  if (v_exc) return;
  v1 = ((u32)(v0 * ((u32)25ULL)));
  v2 = ((u32)(v1 + ((u32)22ULL)));
  v3 = (v2 < ((u32)25ULL));
  if (v3) {
    goto L1;
  } else {
    goto L2;
  }
L1: ;
  _ZL22body_prop_chunk_headerj(v2);
  if (v_exc) return;
  goto L2;
L2: ;
  return;
}

void _ZN22Case_prop_chunk_headerILj23EE3runEv(void) {
  u32 v0;
  u32 v1;
  u32 v2;
  u1 v3;
L0: ;
  v0 = v_param(((u32)0ULL));
  if (v_exc) return;
  v1 = ((u32)(v0 * ((u32)25ULL)));
  v2 = ((u32)(v1 + ((u32)23ULL)));
  v3 = (v2 < ((u32)25ULL));
  if (v3) {
    goto L1;
  } else {
    goto L2;
  }
L1: ;
  _ZL22body_prop_chunk_headerj(v2);
  if (v_exc) return;
  goto L2;
L2: ;
  return;
}

void _ZN22Case_prop_chunk_headerILj24EE3runEv(void) {
  u32 v0;
  u32 v1;
  u32 v2;
  u1 v3;
L0: ;
  v0 = v_param(((u32)0ULL));
  if (v_exc) return;
  v1 = ((u32)(v0 * ((u32)25ULL)));
  v2 = ((u32)(v1 + ((u32)24ULL)));
  v3 = (v2 < ((u32)25ULL));
  if (v3) {
    goto L1;
  } else {
    goto L2;
  }
L1: ;
  _ZL22body_prop_chunk_headerj(v2);
  if (v_exc) return;
  goto L2;
L2: ;
  return;
}

void _ZL22body_prop_chunk_headerj(u32 a0) {
  struct S4_class_OpenVolumeMesh__IO__detail__Decode* v0; struct S4_class_OpenVolumeMesh__IO__detail__Decode v0_m;
  struct S12_struct_OpenVolumeMesh__IO__detail__PropC* v1; struct S12_struct_OpenVolumeMesh__IO__detail__PropC v1_m;
  u64 v2;
  u1 v3;
  u8* v4;
  u8* v5; u8* v5_t;
  u8* v6;
  u8* v7;
  u8** v8;
  u8** v9;
  u8** v10;
  u8** v11;
  u8** v12;
  u8* v13;
  struct S16 v14;
  u8* v15;
  u32 v16;
  u32 v17;
  u1 v18;
  u8* v19;
  u1 v20; u1 v20_t;
  u1 v21; u1 v21_t;
  u1 v22; u1 v22_t;
  u1 v23;
  u8* v24;
  u8* v25;
  u1 v26;
  struct S16 v27;
  struct S16 v28;
  u64* v29;
  u64 v30;
  u64 v31; u64 v31_t;
  u64 v32; u64 v32_t;
  u8* v33;
  u8 v34;
  u64 v35;
  u64 v36;
  u64 v37;
  u64 v38;
  u64 v39;
  u1 v40;
  u1 v41;
  u32* v42;
  u32 v43;
  u64 v44; u64 v44_t;
  u64 v45; u64 v45_t;
  u1 v46;
  u64 v47;
  u8* v48;
  u8 v49;
  u64 v50;
  u64 v51;
  u64 v52;
  u64 v53;
  u64 v54; u64 v54_t;
  u64 v55;
  u1 v56;
  u32 v57;
  u1 v58;
  u32* v59;
  u32 v60;
  u64 v61; u64 v61_t;
  u64 v62; u64 v62_t;
  u1 v63;
  u64 v64;
  u8* v65;
  u8 v66;
  u64 v67;
  u64 v68;
  u64 v69;
  u64 v70;
  u64 v71; u64 v71_t;
  u64 v72;
  u1 v73;
  u32 v74;
  u1 v75;
  u8* v76;
  u8* v77;
  u64 v78;
  u64 v79;
  u64 v80;
  u1 v81;
  u1 v82; u1 v82_t;
  u8* v83;
  u1 v84;
  struct S16 v85; struct S16 v85_t;
  u8* v86;
  u1 v87;
L0: ;
  v0 = &v0_m;
  v1 = &v1_m;
  v2 = ((u64)(a0));
  v3 = (a0 == ((u32)0ULL));
  if (v3) {
    v5 = ((u8*)0);
    goto L2;
  } else {
    goto L1;
  }
L1: ;
  v4 = _Znwm(v2);
  if (v_exc) return;
  v5 = v4;
  goto L2;
L2: ;
  v6 = (u8*)(v5 + (s64)((s64)v2));
  if (v3) {
    goto L4;
  } else {
    goto L3;
  }
L3: ;
  v_memcpy((u8*)v5, (u8*)((u8*)(&(*(&_ZL5g_raw)).e[(s64)((s64)((u64)0ULL))])), (u64)v2);
  goto L4;
L4: ;
  v7 = (u8*)v0;
  v8 = (u8**)(&(*v0).f0.f0.f0.f0.f0);
  *v8 = v5;
  v9 = (u8**)(&(*v0).f0.f0.f0.f0.f1);
  *v9 = v6;
  v10 = (u8**)(&(*v0).f0.f0.f0.f0.f2);
  *v10 = v6;
  v11 = (u8**)(&(*v0).f1);
  *v11 = v5;
  v12 = (u8**)(&(*v0).f2);
  *v12 = v6;
  v13 = (u8*)v1;
  _ZN14OpenVolumeMesh2IO6detail4readERNS1_7DecoderERNS1_15PropChunkHeaderE(v0, v1);
  if (v_exc) {
    goto L5;
  }
  v20_t = ((u1)1ULL);
  v21_t = ((u1)1ULL);
  v22_t = ((u1)0ULL);
  v20 = v20_t;
  v21 = v21_t;
  v22 = v22_t;
  goto L7;
L5: ;
  v14.f0 = v_exc_obj;
  v14.f1 = 0;
  if (v14.f1 == 0 && v_exc_match((u8*)((u8*)(&_ZTIN14OpenVolumeMesh2IO6detail11parse_errorE)))) v14.f1 = 1;
  if (v14.f1 == 0) v14.f1 = 9999;
  if (v14.f1 == 0) return;
  v_exc = 0;
  v15 = v14.f0;
  v16 = v14.f1;
  v17 = 1;
  v18 = (v16 == v17);
  v19 = __cxa_begin_catch(v15);
  if (v18) {
    goto L6;
  } else {
    goto L12;
  }
L6: ;
  __cxa_end_catch();
  if (v_exc) {
    goto L14;
  }
  v20_t = ((u1)1ULL);
  v21_t = ((u1)0ULL);
  v22_t = ((u1)1ULL);
  v20 = v20_t;
  v21 = v21_t;
  v22 = v22_t;
  goto L7;
L7: ;
  __CPROVER_assert(v20, "out != OTHER @/verif/harness/C07_decoder.cpp:101 [_ZL22body_prop_chunk_headerj]");
  if (v_exc) {
    goto L13;
  }
  goto L8;
L8: ;
  v23 = (a0 < ((u32)16ULL));
  if (v23) {
    goto L9;
  } else {
    goto L15;
  }
L9: ;
  __CPROVER_assert(v22, "out == PARSE_ERROR @/verif/harness/C07_decoder.cpp:102 [_ZL22body_prop_chunk_headerj]");
  if (v_exc) {
    goto L13;
  }
  goto L10;
L10: ;
  v24 = *v11;
  v25 = *v8;
  v26 = ((u8*)v24 == (u8*)v25);
  __CPROVER_assert(v26, "dec.pos() == 0 @/verif/harness/C07_decoder.cpp:102 [_ZL22body_prop_chunk_headerj]");
  if (v_exc) {
    goto L13;
  }
  goto L11;
L11: ;
  __CPROVER_assert(0, "WITNESS:prop chunk header: short -> parse_error [_ZL22body_prop_chunk_headerj]");
  if (v_exc) {
    goto L13;
  }
  goto L32;
L12: ;
  __cxa_end_catch();
  if (v_exc) {
    goto L13;
  }
  v20_t = ((u1)0ULL);
  v21_t = ((u1)0ULL);
  v22_t = ((u1)0ULL);
  v20 = v20_t;
  v21 = v21_t;
  v22 = v22_t;
  goto L7;
L13: ;
  v27.f0 = v_exc_obj;
  v27.f1 = 0;
  v_exc = 0;
  v85 = v27;
  goto L35;
L14: ;
  v28.f0 = v_exc_obj;
  v28.f1 = 0;
  v_exc = 0;
  v85 = v28;
  goto L35;
L15: ;
  if (v21) {
    goto L16;
  } else {
    v82 = ((u1)0ULL);
    goto L30;
  }
L16: ;
  v29 = (u64*)(&(*v1).f0.f0);
  v30 = *v29;
  v31_t = ((u64)0ULL);
  v32_t = ((u64)0ULL);
  v31 = v31_t;
  v32 = v32_t;
  goto L17;
L17: ;
  v33 = (u8*)(&(*(&_ZL5g_raw)).e[(s64)((s64)v31)]);
  v34 = (*(&_ZL5g_raw)).e[(s64)((s64)v31)];
  v35 = ((u64)(v34));
  v36 = ((u64)(v31 << ((u64)3ULL)));
  v37 = ((u64)(v35 << v36));
  v38 = ((u64)(v37 | v32));
  v39 = ((u64)(v31 + ((u64)1ULL)));
  v40 = (v39 == ((u64)8ULL));
  if (v40) {
    goto L18;
  } else {
    v31_t = v39;
    v32_t = v38;
    v31 = v31_t;
    v32 = v32_t;
    goto L17;
  }
L18: ;
  v41 = (v30 == v38);
  if (v41) {
    goto L19;
  } else {
    v82 = ((u1)0ULL);
    goto L30;
  }
L19: ;
  v42 = (u32*)(&(*v1).f0.f1);
  v43 = *v42;
  v44_t = ((u64)0ULL);
  v45_t = ((u64)0ULL);
  v44 = v44_t;
  v45 = v45_t;
  goto L20;
L20: ;
  v46 = (v44 < ((u64)4ULL));
  if (v46) {
    goto L21;
  } else {
    v54 = v45;
    goto L22;
  }
L21: ;
  v47 = ((u64)(v44 + ((u64)8ULL)));
  v48 = (u8*)(&(*(&_ZL5g_raw)).e[(s64)((s64)v47)]);
  v49 = (*(&_ZL5g_raw)).e[(s64)((s64)v47)];
  v50 = ((u64)(v49));
  v51 = ((u64)(v44 << ((u64)3ULL)));
  v52 = ((u64)(v50 << v51));
  v53 = ((u64)(v52 | v45));
  v54 = v53;
  goto L22;
L22: ;
  v55 = ((u64)(v44 + ((u64)1ULL)));
  v56 = (v55 == ((u64)8ULL));
  if (v56) {
    goto L23;
  } else {
    v44_t = v55;
    v45_t = v54;
    v44 = v44_t;
    v45 = v45_t;
    goto L20;
  }
L23: ;
  v57 = ((u32)(v54));
  v58 = (v43 == v57);
  if (v58) {
    goto L24;
  } else {
    v82 = ((u1)0ULL);
    goto L30;
  }
L24: ;
  v59 = (u32*)(&(*v1).f1);
  v60 = *v59;
  v61_t = ((u64)0ULL);
  v62_t = ((u64)0ULL);
  v61 = v61_t;
  v62 = v62_t;
  goto L25;
L25: ;
  v63 = (v61 < ((u64)4ULL));
  if (v63) {
    goto L26;
  } else {
    v71 = v62;
    goto L27;
  }
L26: ;
  v64 = ((u64)(v61 + ((u64)12ULL)));
  v65 = (u8*)(&(*(&_ZL5g_raw)).e[(s64)((s64)v64)]);
  v66 = (*(&_ZL5g_raw)).e[(s64)((s64)v64)];
  v67 = ((u64)(v66));
  v68 = ((u64)(v61 << ((u64)3ULL)));
  v69 = ((u64)(v67 << v68));
  v70 = ((u64)(v69 | v62));
  v71 = v70;
  goto L27;
L27: ;
  v72 = ((u64)(v61 + ((u64)1ULL)));
  v73 = (v72 == ((u64)8ULL));
  if (v73) {
    goto L28;
  } else {
    v61_t = v72;
    v62_t = v71;
    v61 = v61_t;
    v62 = v62_t;
    goto L25;
  }
L28: ;
  v74 = ((u32)(v71));
  v75 = (v60 == v74);
  if (v75) {
    goto L29;
  } else {
    v82 = ((u1)0ULL);
    goto L30;
  }
L29: ;
  v76 = *v11;
  v77 = *v8;
  v78 = ((u64)((u64)v76));
  v79 = ((u64)((u64)v77));
  v80 = v_pdiff((u8*)v76, (u8*)v77);
  v81 = (v80 == ((u64)16ULL));
  v82 = v81;
  goto L30;
L30: ;
  __CPROVER_assert(v82, "out == OK && h.span.first == le(bytes, 0, 8) && h.span.count == (uint32_t)le(bytes, 8, 4) && h.idx == (uint32_t)le(bytes, 12, 4) && dec.pos() == 16 @/verif/harness/C07_decoder.cpp:103 [_ZL22body_prop_chunk_headerj]");
  if (v_exc) {
    goto L13;
  }
  goto L31;
L31: ;
  __CPROVER_assert(0, "WITNESS:prop chunk header: accepted [_ZL22body_prop_chunk_headerj]");
  if (v_exc) {
    goto L13;
  }
  goto L32;
L32: ;
  v83 = *v8;
  v84 = ((u8*)v83 == (u8*)((u8*)0));
  if (v84) {
    goto L34;
  } else {
    goto L33;
  }
L33: ;
  _ZdlPv(v83);
  goto L34;
L34: ;
  return;
L35: ;
  v86 = *v8;
  v87 = ((u8*)v86 == (u8*)((u8*)0));
  if (v87) {
    goto L37;
  } else {
    goto L36;
  }
L36: ;
  _ZdlPv(v86);
  goto L37;
L37: ;
  v_exc = 1; return;
}

void harness_array_span(void) {
  v_run_static_init();
  u32 v0;
  u1 v1;
  u32 v2;
  u32 v3;
  u32 v4;
  u1 v5;
  u1 v6;
  u64 v7; u64 v7_t;
  u8 v8;
  u8* v9;
  u64 v10;
  u1 v11;
L0: ;
  v7 = ((u64)0ULL);
  goto L32;
L1: ;
  v0 = v_nondet_u32();
  if (v_exc) return;
  v1 = (v0 < ((u32)25ULL));
  __CPROVER_assume(v1);
  v2 = v_param(((u32)0ULL));
  if (v_exc) return;
  v3 = ((u32)(v2 * ((u32)25ULL)));
  v4 = ((u32)(v3 + v0));
  v5 = (v4 < ((u32)25ULL));
  __CPROVER_assume(v5);
  switch (v0) {
  case ((u32)0ULL): {
    goto L2;
  }
  case ((u32)1ULL): {
    goto L3;
  }
  case ((u32)2ULL): {
    goto L4;
  }
  case ((u32)3ULL): {
    goto L5;
  }
  case ((u32)4ULL): {
    goto L6;
  }
  case ((u32)5ULL): {
    goto L7;
  }
  case ((u32)6ULL): {
    goto L8;
  }
  case ((u32)7ULL): {
    goto L9;
  }
  case ((u32)8ULL): {
    goto L10;
  }
  case ((u32)9ULL): {
    goto L11;
  }
  case ((u32)10ULL): {
    goto L12;
  }
  case ((u32)11ULL): {
    goto L13;
  }
  case ((u32)12ULL): {
    goto L14;
  }
  case ((u32)13ULL): {
    goto L15;
  }
  case ((u32)14ULL): {
    goto L16;
  }
  case ((u32)15ULL): {
    goto L17;
  }
  case ((u32)16ULL): {
    goto L18;
  }
  case ((u32)17ULL): {
    goto L19;
  }
  case ((u32)18ULL): {
    goto L20;
  }
  case ((u32)19ULL): {
    goto L21;
  }
  case ((u32)20ULL): {
    goto L22;
  }
  case ((u32)21ULL): {
    goto L24;
  }
  case ((u32)22ULL): {
    goto L26;
  }
  case ((u32)23ULL): {
    goto L28;
  }
  case ((u32)24ULL): {
    goto L30;
  }
  default: {
    goto L31;
  }
  }
L2: ;
  _ZN15Case_array_spanILj0EE3runEv();
  if (v_exc) return;
  goto L31;
L3: ;
  _ZN15Case_array_spanILj1EE3runEv();
  if (v_exc) return;
  goto L31;
L4: ;
  _ZN15Case_array_spanILj2EE3runEv();
  if (v_exc) return;
  goto L31;
L5: ;
  _ZN15Case_array_spanILj3EE3runEv();
  if (v_exc) return;
  goto L31;
L6: ;
  _ZN15Case_array_spanILj4EE3runEv();
  if (v_exc) return;
  goto L31;
L7: ;
  _ZN15Case_array_spanILj5EE3runEv();
  if (v_exc) return;
  goto L29;
L8: ;
  _ZN15Case_array_spanILj6EE3runEv();
  if (v_exc) return;
  goto L27;
L9: ;
  _ZN15Case_array_spanILj7EE3runEv();
  if (v_exc) return;
  goto L25;
L10: ;
  _ZN15Case_array_spanILj8EE3runEv();
  if (v_exc) return;
  goto L23;
L11: ;
  _ZN15Case_array_spanILj9EE3runEv();
  if (v_exc) return;
  goto L23;
L12: ;
  _ZN15Case_array_spanILj10EE3runEv();
  if (v_exc) return;
  goto L23;
L13: ;
  _ZN15Case_array_spanILj11EE3runEv();
  if (v_exc) return;
  goto L23;
L14: ;
  _ZN15Case_array_spanILj12EE3runEv();
  if (v_exc) return;
  goto L25;
L15: ;
  _ZN15Case_array_spanILj13EE3runEv();
  if (v_exc) return;
  goto L25;
L16: ;
  _ZN15Case_array_spanILj14EE3runEv();
  if (v_exc) return;
  goto L27;
L17: ;
  _ZN15Case_array_spanILj15EE3runEv();
  if (v_exc) return;
  goto L27;
L18: ;
  _ZN15Case_array_spanILj16EE3runEv();
  if (v_exc) return;
  goto L29;
L19: ;
  _ZN15Case_array_spanILj17EE3runEv();
  if (v_exc) return;
  goto L29;
L20: ;
  _ZN15Case_array_spanILj18EE3runEv();
  if (v_exc) return;
  goto L31;
L21: ;
  _ZN15Case_array_spanILj19EE3runEv();
  if (v_exc) return;
  goto L31;
L22: ;
  _ZN15Case_array_spanILj20EE3runEv();
  if (v_exc) return;
  goto L23;
L23: ;
  switch (v0) {
  case ((u32)21ULL): {
    goto L24;
  }
  case ((u32)22ULL): {
    goto L26;
  }
  case ((u32)23ULL): {
    goto L28;
  }
  case ((u32)24ULL): {
    goto L30;
  }
  default: {
    goto L31;
  }
  }
L24: ;
  _ZN15Case_array_spanILj21EE3runEv();
  if (v_exc) return;
  goto L25;
L25: ;
  switch (v0) {
  case ((u32)22ULL): {
    goto L26;
  }
  case ((u32)23ULL): {
    goto L28;
  }
  case ((u32)24ULL): {
    goto L30;
  }
  default: {
    goto L31;
  }
  }
L26: ;
  _ZN15Case_array_spanILj22EE3runEv();
  if (v_exc) return;
  goto L27;
L27: ;
  switch (v0) {
  case ((u32)23ULL): {
    goto L28;
  }
  case ((u32)24ULL): {
    goto L30;
  }
  default: {
    goto L31;
  }
  }
L28: ;
  _ZN15Case_array_spanILj23EE3runEv();
  if (v_exc) return;
  goto L29;
L29: ;
  v6 = (v0 == ((u32)24ULL));
  if (v6) {
    goto L30;
  } else {
    goto L31;
  }
L30: ;
  _ZN15Case_array_spanILj24EE3runEv();
  if (v_exc) return;
  goto L31;
L31: ;
  return;
L32: ;
  v8 = v_nondet_u8();
  if (v_exc) return;
  v9 = (u8*)(&(*(&_ZL5g_raw)).e[(s64)((s64)v7)]);
  (*(&_ZL5g_raw)).e[(s64)((s64)v7)] = v8;
  v10 = ((u64)(v7 + ((u64)1ULL)));
  v11 = (v10 == ((u64)24ULL));
  if (v11) {
    goto L1;
  } else {
    v7 = v10;
    goto L32;
  }
}

void _ZN15Case_array_spanILj0EE3runEv(void) {
  u32 v0;
  u32 v1;
  u1 v2;
L0: ;
  v0 = v_param(((u32)0ULL));
  if (v_exc) return;
  v1 = ((u32)(v0 * ((u32)25ULL)));
  v2 = (v1 < ((u32)25ULL));
  if (v2) {
    goto L1;
  } else {
    goto L2;
  }
L1: ;
  _ZL15body_array_spanj(v1);
  if (v_exc) return;
  goto L2;
L2: ;
  return;
}

void _ZN15Case_array_spanILj1EE3runEv(void) {
  u32 v0;
  u32 v1;
  u32 v2;
  u1 v3;
L0: ;
  v0 = v_param(((u32)0ULL));
  if (v_exc) return;
  v1 = ((u32)(v0 * ((u32)25ULL)));
  v2 = ((u32)(v1 + ((u32)1ULL)));
  v3 = (v2 < ((u32)25ULL));
  if (v3) {
    goto L1;
  } else {
    goto L2;
  }
L1: ;
  _ZL15body_array_spanj(v2);
  if (v_exc) return;
  goto L2;
L2: ;
  return;
}

void _ZN15Case_array_spanILj2EE3runEv(void) {
  u32 v0;
  u32 v1;
  u32 v2;
  u1 v3;
L0: ;
  v0 = v_param(((u32)0ULL));
  if (v_exc) return;
  v1 = ((u32)(v0 * ((u32)25ULL)));
  v2 = ((u32)(v1 + ((u32)2ULL)));
  v3 = (v2 < ((u32)25ULL));
  if (v3) {
    goto L1;
  } else {
    goto L2;
  }
L1: ;
  _ZL15body_array_spanj(v2);
  if (v_exc) return;
  goto L2;
L2: ;
  return;
}

void _ZN15Case_array_spanILj3EE3runEv(void) {
  u32 v0;
  u32 v1;
  u32 v2;
  u1 v3;
L0: ;
  v0 = v_param(((u32)0ULL));
  if (v_exc) return;
  v1 = ((u32)(v0 * ((u32)25ULL)));
  v2 = ((u32)(v1 + ((u32)3ULL)));
  v3 = (v2 < ((u32)25ULL));
  if (v3) {
    goto L1;
  } else {
    goto L2;
  }
L1: ;
  _ZL15body_array_spanj(v2);
  if (v_exc) return;
  goto L2;
L2: ;
  return;
}

void _ZN15Case_array_spanILj4EE3runEv(void) {
  u32 v0;
  u32 v1;
  u32 v2;
  u1 v3;
L0: ;
  v0 = v_param(((u32)0ULL));
  if (v_exc) return;
  v1 = ((u32)(v0 * ((u32)25ULL)));
  v2 = ((u32)(v1 + ((u32)4ULL)));
  v3 = (v2 < ((u32)25ULL));
  if (v3) {
    goto L1;
  } else {
    goto L2;
  }
L1: ;
  _ZL15body_array_spanj(v2);
  if (v_exc) return;
  goto L2;
L2: ;
  return;
}

void _ZN15Case_array_spanILj5EE3runEv(void) {
  u32 v0;
  u32 v1;
  u32 v2;
  u1 v3;
L0: ;
  v0 = v_param(((u32)0ULL));
  if (v_exc) return;
  v1 = ((u32)(v0 * ((u32)25ULL)));
  v2 = ((u32)(v1 + ((u32)5ULL)));
  v3 = (v2 < ((u32)25ULL));
  if (v3) {
    goto L1;
  } else {
    goto L2;
  }
L1: ;
  _ZL15body_array_spanj(v2);
  if (v_exc) return;
  goto L2;
L2: ;
  return;
}

void _ZN15Case_array_spanILj6EE3runEv(void) {
  u32 v0;
  u32 v1;
  u32 v2;
  u1 v3;
L0: ;
  v0 = v_param(((u32)0ULL));
  if (v_exc) return;
  v1 = ((u32)(v0 * ((u32)25ULL)));
  v2 = ((u32)(v1 + ((u32)6ULL)));
  v3 = (v2 < ((u32)25ULL));
  if (v3) {
    goto L1;
  } else {
    goto L2;
  }
L1: ;
  _ZL15body_array_spanj(v2);
  if (v_exc) return;
  goto L2;
L2: ;
  return;
}

void _ZN15Case_array_spanILj7EE3runEv(void) {
  u32 v0;
  u32 v1;
  u32 v2;
  u1 v3;
L0: ;
  v0 = v_param(((u32)0ULL));
  if (v_exc) return;
  v1 = ((u32)(v0 * ((u32)25ULL)));
  v2 = ((u32)(v1 + ((u32)7ULL)));
  v3 = (v2 < ((u32)25ULL));
  if (v3) {
    goto L1;
  } else {
    goto L2;
  }
L1: ;
  _ZL15body_array_spanj(v2);
  if (v_exc) return;
  goto L2;
L2: ;
  return;
}

void _ZN15Case_array_spanILj8EE3runEv(void) {
  u32 v0;
  u32 v1;
  u32 v2;
  u1 v3;
L0: ;
  v0 = v_param(((u32)0ULL));
  if (v_exc) return;
  v1 = ((u32)(v0 * ((u32)25ULL)));
  v2 = ((u32)(v1 + ((u32)8ULL)));
  v3 = (v2 < ((u32)25ULL));
  if (v3) {
    goto L1;
  } else {
    goto L2;
  }
L1: ;
  _ZL15body_array_spanj(v2);
  if (v_exc) return;
  goto L2;
L2: ;
  return;
}

void _ZN15Case_array_spanILj9EE3runEv(void) {
  u32 v0;
  u32 v1;
  u32 v2;
  u1 v3;
L0: ;
  v0 = v_param(((u32)0ULL));
  if (v_exc) return;
  v1 = ((u32)(v0 * ((u32)25ULL)));
  v2 = ((u32)(v1 + ((u32)9ULL)));
  v3 = (v2 < ((u32)25ULL));
  if (v3) {
    goto L1;
  } else {
    goto L2;
  }
L1: ;
  _ZL15body_array_spanj(v2);
  if (v_exc) return;
  goto L2;
L2: ;
  return;
}

void _ZN15Case_array_spanILj10EE3runEv(void) {
  u32 v0;
  u32 v1;
  u32 v2;
  u1 v3;
L0: ;
  v0 = v_param(((u32)0ULL));
  if (v_exc) return;
  v1 = ((u32)(v0 * ((u32)25ULL)));
  v2 = ((u32)(v1 + ((u32)10ULL)));
  v3 = (v2 < ((u32)25ULL));
  if (v3) {
    goto L1;
  } else {
    goto L2;
  }
L1: ;
  _ZL15body_array_spanj(v2);
  if (v_exc) return;
  goto L2;
L2: ;
  return;
}

void _ZN15Case_array_spanILj11EE3runEv(void) {
  u32 v0;
  u32 v1;
  u32 v2;
  u1 v3;
L0: ;
  v0 = v_param(((u32)0ULL));
  if (v_exc) return;
  v1 = ((u32)(v0 * ((u32)25ULL)));
  v2 = ((u32)(v1 + ((u32)11ULL)));
  v3 = (v2 < ((u32)25ULL));
  if (v3) {
    goto L1;
  } else {
    goto L2;
  }
L1: ;
  _ZL15body_array_spanj(v2);
  if (v_exc) return;
  goto L2;
L2: ;
  return;
}

void _ZN15Case_array_spanILj12EE3runEv(void) {
  u32 v0;
  u32 v1;
  u32 v2;
  u1 v3;
L0: ;
  v0 = v_param(((u32)0ULL));
  if (v_exc) return;
  v1 = ((u32)(v0 * ((u32)25ULL)));
  v2 = ((u32)(v1 + ((u32)12ULL)));
  v3 = (v2 < ((u32)25ULL));
  if (v3) {
    goto L1;
  } else {
    goto L2;
  }
L1: ;
  _ZL15body_array_spanj(v2);
  if (v_exc) return;
  goto L2;
L2: ;
  return;
}

void _ZN15Case_array_spanILj13EE3runEv(void) {
  u32 v0;
  u32 v1;
  u32 v2;
  u1 v3;
L0: ;
  v0 = v_param(((u32)0ULL));
  if (v_exc) return;
  v1 = ((u32)(v0 * ((u32)25ULL)));
  v2 = ((u32)(v1 + ((u32)13ULL)));
  v3 = (v2 < ((u32)25ULL));
  if (v3) {
    goto L1;
  } else {
    goto L2;
  }
L1: ;
  _ZL15body_array_spanj(v2);
  if (v_exc) return;
  goto L2;
L2: ;
  return;
}

void _ZN15Case_array_spanILj14EE3runEv(void) {
  u32 v0;
  u32 v1;
  u32 v2;
  u1 v3;
L0: ;
  v0 = v_param(((u32)0ULL));
  if (v_exc) return;
  v1 = ((u32)(v0 * ((u32)25ULL)));
  v2 = ((u32)(v1 + ((u32)14ULL)));
  v3 = (v2 < ((u32)25ULL));
  if (v3) {
    goto L1;
  } else {
    goto L2;
  }
L1: ;
  _ZL15body_array_spanj(v2);
  if (v_exc) return;
  goto L2;
L2: ;
  return;
}

void _ZN15Case_array_spanILj15EE3runEv(void) {
  u32 v0;
  u32 v1;
  u32 v2;
  u1 v3;
L0: ;
  v0 = v_param(((u32)0ULL));
  if (v_exc) return;
  v1 = ((u32)(v0 * ((u32)25ULL)));
  v2 = ((u32)(v1 + ((u32)15ULL)));
  v3 = (v2 < ((u32)25ULL));
  if (v3) {
    goto L1;
  } else {
    goto L2;
  }
L1: ;
  _ZL15body_array_spanj(v2);
  if (v_exc) return;
  goto L2;
L2: ;
  return;
}

void _ZN15Case_array_spanILj16EE3runEv(void) {
  u32 v0;
  u32 v1;
  u32 v2;
  u1 v3;
L0: ;
  v0 = v_param(((u32)0ULL));
  if (v_exc) return;
  v1 = ((u32)(v0 * ((u32)25ULL)));
  v2 = ((u32)(v1 + ((u32)16ULL)));
  v3 = (v2 < ((u32)25ULL));
  if (v3) {
    goto L1;
  } else {
    goto L2;
  }
L1: ;
  _ZL15body_array_spanj(v2);
  if (v_exc) return;
  goto L2;
L2: ;
  return;
}

void _ZN15Case_array_spanILj17EE3runEv(void) {
  u32 v0;
  u32 v1;
  u32 v2;
  u1 v3;
L0: ;
  v0 = v_param(((u32)0ULL));
  if (v_exc) return;
  v1 = ((u32)(v0 * ((u32)25ULL)));
  v2 = ((u32)(v1 + ((u32)17ULL)));
  v3 = (v2 < ((u32)25ULL));
  if (v3) {
    goto L1;
  } else {
    goto L2;
  }
L1: ;
  _ZL15body_array_spanj(v2);
  if (v_exc) return;
  goto L2;
L2: ;
  return;
}

void _ZN15Case_array_spanILj18EE3runEv(void) {
  u32 v0;
  u32 v1;
  u32 v2;
  u1 v3;
L0: ;
  v0 = v_param(((u32)0ULL));
  if (v_exc) return;
  v1 = ((u32)(v0 * ((u32)25ULL)));
  v2 = ((u32)(v1 + ((u32)18ULL)));
  v3 = (v2 < ((u32)25ULL));
  if (v3) {
    goto L1;
  } else {
    goto L2;
  }
L1: ;
  _ZL15body_array_spanj(v2);
  if (v_exc) return;
  goto L2;
L2: ;
  return;
}

void _ZN15Case_array_spanILj19EE3runEv(void) {
  u32 v0;
  u32 v1;
  u32 v2;
  u1 v3;
L0: ;
  v0 = v_param(((u32)0ULL));
  if (v_exc) return;
  v1 = ((u32)(v0 * ((u32)25ULL)));
  v2 = ((u32)(v1 + ((u32)19ULL)));
  v3 = (v2 < ((u32)25ULL));
  if (v3) {
    goto L1;
  } else {
    goto L2;
  }
L1: ;
  _ZL15body_array_spanj(v2);
  if (v_exc) return;
  goto L2;
L2: ;
  return;
}

void _ZN15Case_array_spanILj20EE3runEv(void) {
  u32 v0;
  u32 v1;
  u32 v2;
  u1 v3;
L0: ;
  v0 = v_param(((u32)0ULL));
  if (v_exc) return;
  v1 = ((u32)(v0 * ((u32)25ULL)));
  v2 = ((u32)(v1 + ((u32)20ULL)));
  v3 = (v2 < ((u32)25ULL));
  if (v3) {
    goto L1;
  } else {
    goto L2;
  }
L1: ;
  _ZL15body_array_spanj(v2);
  if (v_exc) return;
  goto L2;
L2: ;
  return;
}

void _ZN15Case_array_spanILj21EE3runEv(void) {
  u32 v0;
  u32 v1;
  u32 v2;
  u1 v3;
L0: ;
  v0 = v_param(((u32)0ULL));
  if (v_exc) return;
  v1 = ((u32)(v0 * ((u32)25ULL)));
  v2 = ((u32)(v1 + ((u32)21ULL)));
  v3 = (v2 < ((u32)25ULL));
  if (v3) {
    goto L1;
  } else {
    goto L2;
  }
L1: ;
  _ZL15body_array_spanj(v2);
  if (v_exc) return;
  goto L2;
L2: ;
  return;
}

void _ZN15Case_array_spanILj22EE3runEv(void) {
  u32 v0;
  u32 v1;
  u32 v2;
  u1 v3;
L0: ;
  v0 = v_param(((u32)0ULL));
  if (v_exc) return;
  v1 = ((u32)(v0 * ((u32)25ULL)));
  v2 = ((u32)(v1 + ((u32)22ULL)));
  v3 = (v2 < ((u32)25ULL));
  if (v3) {
    goto L1;
  } else {
    goto L2;
  }
L1: ;
  _ZL15body_array_spanj(v2);
  if (v_exc) return;
  goto L2;
L2: ;
  return;
}

void _ZN15Case_array_spanILj23EE3runEv(void) {
  u32 v0;
  u32 v1;
  u32 v2;
  u1 v3;
L0: ;
  v0 = v_param(((u32)0ULL));
  if (v_exc) return;
  v1 = ((u32)(v0 * ((u32)25ULL)));
  v2 = ((u32)(v1 + ((u32)23ULL)));
  v3 = (v2 < ((u32)25ULL));
  if (v3) {
    goto L1;
  } else {
    goto L2;
  }
L1: ;
  _ZL15body_array_spanj(v2);
  if (v_exc) return;
  goto L2;
L2: ;
  return;
}

void _ZN15Case_array_spanILj24EE3runEv(void) {
  u32 v0;
  u32 v1;
  u32 v2;
  u1 v3;
L0: ;
  v0 = v_param(((u32)0ULL));
  if (v_exc) return;
  v1 = ((u32)(v0 * ((u32)25ULL)));
  v2 = ((u32)(v1 + ((u32)24ULL)));
  v3 = (v2 < ((u32)25ULL));
  if (v3) {
    goto L1;
  } else {
    goto L2;
  }
L1: ;
  _ZL15body_array_spanj(v2);
  if (v_exc) return;
  goto L2;
L2: ;
  return;
}

void _ZL15body_array_spanj(u32 a0) {
  struct S4_class_OpenVolumeMesh__IO__detail__Decode* v0; struct S4_class_OpenVolumeMesh__IO__detail__Decode v0_m;
  struct S10_struct_OpenVolumeMesh__IO__detail__Array* v1; struct S10_struct_OpenVolumeMesh__IO__detail__Array v1_m;
  u64 v2;
  u1 v3;
  u8* v4;
  u8* v5; u8* v5_t;
  u8* v6;
  u8* v7;
  u8** v8;
  u8** v9;
  u8** v10;
  u8** v11;
  u8** v12;
  u8* v13;
  struct S16 v14;
  u8* v15;
  u32 v16;
  u32 v17;
  u1 v18;
  u8* v19;
  u1 v20; u1 v20_t;
  u1 v21; u1 v21_t;
  u1 v22; u1 v22_t;
  u1 v23;
  struct S16 v24;
  struct S16 v25;
  u64* v26;
  u64 v27;
  u64 v28; u64 v28_t;
  u64 v29; u64 v29_t;
  u8* v30;
  u8 v31;
  u64 v32;
  u64 v33;
  u64 v34;
  u64 v35;
  u64 v36;
  u1 v37;
  u1 v38;
  u32* v39;
  u32 v40;
  u64 v41; u64 v41_t;
  u64 v42; u64 v42_t;
  u1 v43;
  u64 v44;
  u8* v45;
  u8 v46;
  u64 v47;
  u64 v48;
  u64 v49;
  u64 v50;
  u64 v51; u64 v51_t;
  u64 v52;
  u1 v53;
  u32 v54;
  u1 v55;
  u8* v56;
  u8* v57;
  u64 v58;
  u64 v59;
  u64 v60;
  u1 v61;
  u1 v62; u1 v62_t;
  u8* v63;
  u1 v64;
  struct S16 v65; struct S16 v65_t;
  u8* v66;
  u1 v67;
L0: ;
  v0 = &v0_m;
  v1 = &v1_m;
  v2 = ((u64)(a0));
  v3 = (a0 == ((u32)0ULL));
  if (v3) {
    v5 = ((u8*)0);
    goto L2;
  } else {
    goto L1;
  }
L1: ;
  v4 = _Znwm(v2);
  if (v_exc) return;
  v5 = v4;
  goto L2;
L2: ;
  v6 = (u8*)(v5 + (s64)((s64)v2));
  if (v3) {
    goto L4;
  } else {
    goto L3;
  }
L3: ;
  v_memcpy((u8*)v5, (u8*)((u8*)(&(*(&_ZL5g_raw)).e[(s64)((s64)((u64)0ULL))])), (u64)v2);
  goto L4;
L4: ;
  v7 = (u8*)v0;
  v8 = (u8**)(&(*v0).f0.f0.f0.f0.f0);
  *v8 = v5;
  v9 = (u8**)(&(*v0).f0.f0.f0.f0.f1);
  *v9 = v6;
  v10 = (u8**)(&(*v0).f0.f0.f0.f0.f2);
  *v10 = v6;
  v11 = (u8**)(&(*v0).f1);
  *v11 = v5;
  v12 = (u8**)(&(*v0).f2);
  *v12 = v6;
  v13 = (u8*)v1;
  _ZN14OpenVolumeMesh2IO6detail4readERNS1_7DecoderERNS1_9ArraySpanE(v0, v1);
  if (v_exc) {
    goto L5;
  }
  v20_t = ((u1)1ULL);
  v21_t = ((u1)1ULL);
  v22_t = ((u1)0ULL);
  v20 = v20_t;
  v21 = v21_t;
  v22 = v22_t;
  goto L7;
L5: ;
  v14.f0 = v_exc_obj;
  v14.f1 = 0;
  if (v14.f1 == 0 && v_exc_match((u8*)((u8*)(&_ZTIN14OpenVolumeMesh2IO6detail11parse_errorE)))) v14.f1 = 1;
  if (v14.f1 == 0) v14.f1 = 9999;
  if (v14.f1 == 0) return;
  v_exc = 0;
  v15 = v14.f0;
  v16 = v14.f1;
  v17 = 1;
  v18 = (v16 == v17);
  v19 = __cxa_begin_catch(v15);
  if (v18) {
    goto L6;
  } else {
    goto L11;
  }
L6: ;
  __cxa_end_catch();
  if (v_exc) {
    goto L13;
  }
  v20_t = ((u1)1ULL);
  v21_t = ((u1)0ULL);
  v22_t = ((u1)1ULL);
  v20 = v20_t;
  v21 = v21_t;
  v22 = v22_t;
  goto L7;
L7: ;
  __CPROVER_assert(v20, "out != OTHER @/verif/harness/C07_decoder.cpp:112 [_ZL15body_array_spanj]");
  if (v_exc) {
    goto L12;
  }
  goto L8;
L8: ;
  v23 = (a0 < ((u32)12ULL));
  if (v23) {
    goto L9;
  } else {
    goto L14;
  }
L9: ;
  __CPROVER_assert(v22, "out == PARSE_ERROR @/verif/harness/C07_decoder.cpp:113 [_ZL15body_array_spanj]");
  if (v_exc) {
    goto L12;
  }
  goto L10;
L10: ;
  __CPROVER_assert(0, "WITNESS:array span: short -> parse_error [_ZL15body_array_spanj]");
  if (v_exc) {
    goto L12;
  }
  goto L26;
L11: ;
  __cxa_end_catch();
  if (v_exc) {
    goto L12;
  }
  v20_t = ((u1)0ULL);
  v21_t = ((u1)0ULL);
  v22_t = ((u1)0ULL);
  v20 = v20_t;
  v21 = v21_t;
  v22 = v22_t;
  goto L7;
L12: ;
  v24.f0 = v_exc_obj;
  v24.f1 = 0;
  v_exc = 0;
  v65 = v24;
  goto L29;
L13: ;
  v25.f0 = v_exc_obj;
  v25.f1 = 0;
  v_exc = 0;
  v65 = v25;
  goto L29;
L14: ;
  if (v21) {
    goto L15;
  } else {
    v62 = ((u1)0ULL);
    goto L24;
  }
L15: ;
  v26 = (u64*)(&(*v1).f0);
  v27 = *v26;
  v28_t = ((u64)0ULL);
  v29_t = ((u64)0ULL);
  v28 = v28_t;
  v29 = v29_t;
  goto L16;
L16: ;
  v30 = (u8*)(&(*(&_ZL5g_raw)).e[(s64)((s64)v28)]);
  v31 = (*(&_ZL5g_raw)).e[(s64)((s64)v28)];
  v32 = ((u64)(v31));
  v33 = ((u64)(v28 << ((u64)3ULL)));
  v34 = ((u64)(v32 << v33));
  v35 = ((u64)(v34 | v29));
  v36 = ((u64)(v28 + ((u64)1ULL)));
  v37 = (v36 == ((u64)8ULL));
  if (v37) {
    goto L17;
  } else {
    v28_t = v36;
    v29_t = v35;
    v28 = v28_t;
    v29 = v29_t;
    goto L16;
  }
L17: ;
  v38 = (v27 == v35);
  if (v38) {
    goto L18;
  } else {
    v62 = ((u1)0ULL);
    goto L24;
  }
L18: ;
  v39 = (u32*)(&(*v1).f1);
  v40 = *v39;
  v41_t = ((u64)0ULL);
  v42_t = ((u64)0ULL);
  v41 = v41_t;
  v42 = v42_t;
  goto L19;
L19: ;
  v43 = (v41 < ((u64)4ULL));
  if (v43) {
    goto L20;
  } else {
    v51 = v42;
    goto L21;
  }
L20: ;
  v44 = ((u64)(v41 + ((u64)8ULL)));
  v45 = (u8*)(&(*(&_ZL5g_raw)).e[(s64)((s64)v44)]);
  v46 = (*(&_ZL5g_raw)).e[(s64)((s64)v44)];
  v47 = ((u64)(v46));
  v48 = ((u64)(v41 << ((u64)3ULL)));
  v49 = ((u64)(v47 << v48));
  v50 = ((u64)(v49 | v42));
  v51 = v50;
  goto L21;
L21: ;
  v52 = ((u64)(v41 + ((u64)1ULL)));
  v53 = (v52 == ((u64)8ULL));
  if (v53) {
    goto L22;
  } else {
    v41_t = v52;
    v42_t = v51;
    v41 = v41_t;
    v42 = v42_t;
    goto L19;
  }
L22: ;
  v54 = ((u32)(v51));
  v55 = (v40 == v54);
  if (v55) {
    goto L23;
  } else {
    v62 = ((u1)0ULL);
    goto L24;
  }
L23: ;
  v56 = *v11;
  v57 = *v8;
  v58 = ((u64)((u64)v56));
  v59 = ((u64)((u64)v57));
  v60 = v_pdiff((u8*)v56, (u8*)v57);
  v61 = (v60 == ((u64)12ULL));
  v62 = v61;
  goto L24;
L24: ;
  __CPROVER_assert(v62, "out == OK && s.first == le(bytes, 0, 8) && s.count == (uint32_t)le(bytes, 8, 4) && dec.pos() == 12 @/verif/harness/C07_decoder.cpp:114 [_ZL15body_array_spanj]");
  if (v_exc) {
    goto L12;
  }
  goto L25;
L25: ;
  __CPROVER_assert(0, "WITNESS:array span: accepted [_ZL15body_array_spanj]");
  if (v_exc) {
    goto L12;
  }
  goto L26;
L26: ;
  v63 = *v8;
  v64 = ((u8*)v63 == (u8*)((u8*)0));
  if (v64) {
    goto L28;
  } else {
    goto L27;
  }
L27: ;
  _ZdlPv(v63);
  goto L28;
L28: ;
  return;
L29: ;
  v66 = *v8;
  v67 = ((u8*)v66 == (u8*)((u8*)0));
  if (v67) {
    goto L31;
  } else {
    goto L30;
  }
L30: ;
  _ZdlPv(v66);
  goto L31;
L31: ;
  v_exc = 1; return;
}

void harness_vertex_chunk_header(void) {
  v_run_static_init();
  u32 v0;
  u1 v1;
  u32 v2;
  u32 v3;
  u32 v4;
  u1 v5;
  u1 v6;
  u64 v7; u64 v7_t;
  u8 v8;
  u8* v9;
  u64 v10;
  u1 v11;
L0: ;
  v7 = ((u64)0ULL);
  goto L32;
L1: ;
  v0 = v_nondet_u32();
  if (v_exc) return;
  v1 = (v0 < ((u32)25ULL));
  __CPROVER_assume(v1);
  v2 = v_param(((u32)0ULL));
  if (v_exc) return;
  v3 = ((u32)(v2 * ((u32)25ULL)));
  v4 = ((u32)(v3 + v0));
  v5 = (v4 < ((u32)25ULL));
  __CPROVER_assume(v5);
  switch (v0) {
  case ((u32)0ULL): {
    goto L2;
  }
  case ((u32)1ULL): {
    goto L3;
  }
  case ((u32)2ULL): {
    goto L4;
  }
  case ((u32)3ULL): {
    goto L5;
  }
  case ((u32)4ULL): {
    goto L6;
  }
  case ((u32)5ULL): {
    goto L7;
  }
  case ((u32)6ULL): {
    goto L8;
  }
  case ((u32)7ULL): {
    goto L9;
  }
  case ((u32)8ULL): {
    goto L10;
  }
  case ((u32)9ULL): {
    goto L11;
  }
  case ((u32)10ULL): {
    goto L12;
  }
  case ((u32)11ULL): {
    goto L13;
  }
  case ((u32)12ULL): {
    goto L14;
  }
  case ((u32)13ULL): {
    goto L15;
  }
  case ((u32)14ULL): {
    goto L16;
  }
  case ((u32)15ULL): {
    goto L17;
  }
  case ((u32)16ULL): {
    goto L18;
  }
  case ((u32)17ULL): {
    goto L19;
  }
  case ((u32)18ULL): {
    goto L20;
  }
  case ((u32)19ULL): {
    goto L21;
  }
  case ((u32)20ULL): {
    goto L22;
  }
  case ((u32)21ULL): {
    goto L24;
  }
  case ((u32)22ULL): {
    goto L26;
  }
  case ((u32)23ULL): {
    goto L28;
  }
  case ((u32)24ULL): {
    goto L30;
  }
  default: {
    goto L31;
  }
  }
L2: ;
  _ZN24Case_vertex_chunk_headerILj0EE3runEv();
  if (v_exc) return;
  goto L31;
L3: ;
  _ZN24Case_vertex_chunk_headerILj1EE3runEv();
  if (v_exc) return;
  goto L31;
L4: ;
  _ZN24Case_vertex_chunk_headerILj2EE3runEv();
  if (v_exc) return;
  goto L31;
L5: ;
  _ZN24Case_vertex_chunk_headerILj3EE3runEv();
  if (v_exc) return;
  goto L31;
L6: ;
  _ZN24Case_vertex_chunk_headerILj4EE3runEv();
  if (v_exc) return;
  goto L31;
L7: ;
  _ZN24Case_vertex_chunk_headerILj5EE3runEv();
  if (v_exc) return;
  goto L29;
L8: ;
  _ZN24Case_vertex_chunk_headerILj6EE3runEv();
  if (v_exc) return;
  goto L27;
L9: ;
  _ZN24Case_vertex_chunk_headerILj7EE3runEv();
  if (v_exc) return;
  goto L25;
L10: ;
  _ZN24Case_vertex_chunk_headerILj8EE3runEv();
  if (v_exc) return;
  goto L23;
L11: ;
  _ZN24Case_vertex_chunk_headerILj9EE3runEv();
  if (v_exc) return;
  goto L23;
L12: ;
  _ZN24Case_vertex_chunk_headerILj10EE3runEv();
  if (v_exc) return;
  goto L23;
L13: ;
  _ZN24Case_vertex_chunk_headerILj11EE3runEv();
  if (v_exc) return;
  goto L23;
L14: ;
  _ZN24Case_vertex_chunk_headerILj12EE3runEv();
  if (v_exc) return;
  goto L25;
L15: ;
  _ZN24Case_vertex_chunk_headerILj13EE3runEv();
  if (v_exc) return;
  goto L25;
L16: ;
  _ZN24Case_vertex_chunk_headerILj14EE3runEv();
  if (v_exc) return;
  goto L27;
L17: ;
  _ZN24Case_vertex_chunk_headerILj15EE3runEv();
  if (v_exc) return;
  goto L27;
L18: ;
  _ZN24Case_vertex_chunk_headerILj16EE3runEv();
  if (v_exc) return;
  goto L29;
L19: ;
  _ZN24Case_vertex_chunk_headerILj17EE3runEv();
  if (v_exc) return;
  goto L29;
L20: ;
  _ZN24Case_vertex_chunk_headerILj18EE3runEv();
  if (v_exc) return;
  goto L31;
L21: ;
  _ZN24Case_vertex_chunk_headerILj19EE3runEv();
  if (v_exc) return;
  goto L31;
L22: ;
  _ZN24Case_vertex_chunk_headerILj20EE3runEv();
  if (v_exc) return;
  goto L23;
L23: ;
  switch (v0) {
  case ((u32)21ULL): {
    goto L24;
  }
  case ((u32)22ULL): {
    goto L26;
  }
  case ((u32)23ULL): {
    goto L28;
  }
  case ((u32)24ULL): {
    goto L30;
  }
  default: {
    goto L31;
  }
  }
L24: ;
  _ZN24Case_vertex_chunk_headerILj21EE3runEv();
  if (v_exc) return;
  goto L25;
L25: ;
  switch (v0) {
  case ((u32)22ULL): {
    goto L26;
  }
  case ((u32)23ULL): {
    goto L28;
  }
  case ((u32)24ULL): {
    goto L30;
  }
  default: {
    goto L31;
  }
  }
L26: ;
  _ZN24Case_vertex_chunk_headerILj22EE3runEv();
  if (v_exc) return;
  goto L27;
L27: ;
  switch (v0) {
  case ((u32)23ULL): {
    goto L28;
  }
  case ((u32)24ULL): {
    goto L30;
  }
  default: {
    goto L31;
  }
  }
L28: ;
  _ZN24Case_vertex_chunk_headerILj23EE3runEv();
  if (v_exc) return;
  goto L29;
L29: ;
  v6 = (v0 == ((u32)24ULL));
  if (v6) {
    goto L30;
  } else {
    goto L31;
  }
L30: ;
  _ZN24Case_vertex_chunk_headerILj24EE3runEv();
  if (v_exc) return;
  goto L31;
L31: ;
  return;
L32: ;
  v8 = v_nondet_u8();
  if (v_exc) return;
  v9 = (u8*)(&(*(&_ZL5g_raw)).e[(s64)((s64)v7)]);
  (*(&_ZL5g_raw)).e[(s64)((s64)v7)] = v8;
  v10 = ((u64)(v7 + ((u64)1ULL)));
  v11 = (v10 == ((u64)24ULL));
  if (v11) {
    goto L1;
  } else {
    v7 = v10;
    goto L32;
  }
}

void _ZN24Case_vertex_chunk_headerILj0EE3runEv(void) {
  u32 v0;
  u32 v1;
  u1 v2;
L0: ;
  v0 = v_param(((u32)0ULL));
  if (v_exc) return;
  v1 = ((u32)(v0 * ((u32)25ULL)));
  v2 = (v1 < ((u32)25ULL));
  if (v2) {
    goto L1;
  } else {
    goto L2;
  }
L1: ;
  _ZL24body_vertex_chunk_headerj(v1);
  if (v_exc) return;
  goto L2;
L2: ;
  return;
}

void _ZN24Case_vertex_chunk_headerILj1EE3runEv(void) {
  u32 v0;
  u32 v1;
  u32 v2;
  u1 v3;
L0: ;
  v0 = v_param(((u32)0ULL));
  if (v_exc) return;
  v1 = ((u32)(v0 * ((u32)25ULL)));
  v2 = ((u32)(v1 + ((u32)1ULL)));
  v3 = (v2 < ((u32)25ULL));
  if (v3) {
    goto L1;
  } else {
    goto L2;
  }
L1: ;
  _ZL24body_vertex_chunk_headerj(v2);
  if (v_exc) return;
  goto L2;
L2: ;
  return;
}

void _ZN24Case_vertex_chunk_headerILj2EE3runEv(void) {
  u32 v0;
  u32 v1;
  u32 v2;
  u1 v3;
L0: ;
  v0 = v_param(((u32)0ULL));
  if (v_exc) return;
  v1 = ((u32)(v0 * ((u32)25ULL)));
  v2 = ((u32)(v1 + ((u32)2ULL)));
  v3 = (v2 < ((u32)25ULL));
  if (v3) {
    goto L1;
  } else {
    goto L2;
  }
L1: ;
  _ZL24body_vertex_chunk_headerj(v2);
  if (v_exc) return;
  goto L2;
L2: ;
  return;
}

void _ZN24Case_vertex_chunk_headerILj3EE3runEv(void) {
  u32 v0;
  u32 v1;
  u32 v2;
  u1 v3;
L0: ;
  v0 = v_param(((u32)0ULL));
  if (v_exc) return;
  v1 = ((u32)(v0 * ((u32)25ULL)));
  v2 = ((u32)(v1 + ((u32)3ULL)));
  v3 = (v2 < ((u32)25ULL));
  if (v3) {
    goto L1;
  } else {
    goto L2;
  }
L1: ;
  _ZL24body_vertex_chunk_headerj(v2);
  if (v_exc) return;
  goto L2;
L2: ;
  return;
}

void _ZN24Case_vertex_chunk_headerILj4EE3runEv(void) {
  u32 v0;
  u32 v1;
  u32 v2;
  u1 v3;
L0: ;
  v0 = v_param(((u32)0ULL));
  if (v_exc) return;
  v1 = ((u32)(v0 * ((u32)25ULL)));
  v2 = ((u32)(v1 + ((u32)4ULL)));
  v3 = (v2 < ((u32)25ULL));
  if (v3) {
    goto L1;
  } else {
    goto L2;
  }
L1: ;
  _ZL24body_vertex_chunk_headerj(v2);
  if (v_exc) return;
  goto L2;
L2: ;
  return;
}

void _ZN24Case_vertex_chunk_headerILj5EE3runEv(void) {
  u32 v0;
  u32 v1;
  u32 v2;
  u1 v3;
L0: ;
  v0 = v_param(((u32)0ULL));
  if (v_exc) return;
  v1 = ((u32)(v0 * ((u32)25ULL)));
  v2 = ((u32)(v1 + ((u32)5ULL)));
  v3 = (v2 < ((u32)25ULL));
  if (v3) {
    goto L1;
  } else {
    goto L2;
  }
L1: ;
  _ZL24body_vertex_chunk_headerj(v2);
  if (v_exc) return;
  goto L2;
L2: ;
  return;
}

void _ZN24Case_vertex_chunk_headerILj6EE3runEv(void) {
  u32 v0;
  u32 v1;
  u32 v2;
  u1 v3;
L0: ;
  v0 = v_param(((u32)0ULL));
  if (v_exc) return;
  v1 = ((u32)(v0 * ((u32)25ULL)));
  v2 = ((u32)(v1 + ((u32)6ULL)));
  v3 = (v2 < ((u32)25ULL));
  if (v3) {
    goto L1;
  } else {
    goto L2;
  }
L1: ;
  _ZL24body_vertex_chunk_headerj(v2);
  if (v_exc) return;
  goto L2;
L2: ;
  return;
}

void _ZN24Case_vertex_chunk_headerILj7EE3runEv(void) {
  u32 v0;
  u32 v1;
  u32 v2;
  u1 v3;
L0: ;
  v0 = v_param(((u32)0ULL));
  if (v_exc) return;
  v1 = ((u32)(v0 * ((u32)25ULL)));
  v2 = ((u32)(v1 + ((u32)7ULL)));
  v3 = (v2 < ((u32)25ULL));
  if (v3) {
    goto L1;
  } else {
    goto L2;
  }
L1: ;
  _ZL24body_vertex_chunk_headerj(v2);
  if (v_exc) return;
  goto L2;
L2: ;
  return;
}

void _ZN24Case_vertex_chunk_headerILj8EE3runEv(void) {
  u32 v0;
  u32 v1;
  u32 v2;
  u1 v3;
L0: ;
  v0 = v_param(((u32)0ULL));
  if (v_exc) return;
  v1 = ((u32)(v0 * ((u32)25ULL)));
  v2 = ((u32)(v1 + ((u32)8ULL)));
  v3 = (v2 < ((u32)25ULL));
  if (v3) {
    goto L1;
  } else {
    goto L2;
  }
L1: ;
  _ZL24body_vertex_chunk_headerj(v2);
  if (v_exc) return;
  goto L2;
L2: ;
  return;
}

void _ZN24Case_vertex_chunk_headerILj9EE3runEv(void) {
  u32 v0;
  u32 v1;
  u32 v2;
  u1 v3;
L0: ;
  v0 = v_param(((u32)0ULL));
  if (v_exc) return;
  v1 = ((u32)(v0 * ((u32)25ULL)));
  v2 = ((u32)(v1 + ((u32)9ULL)));
  v3 = (v2 < ((u32)25ULL));
  if (v3) {
    goto L1;
  } else {
    goto L2;
  }
L1: ;
  _ZL24body_vertex_chunk_headerj(v2);
  if (v_exc) return;
  goto L2;
L2: ;
  return;
}

void _ZN24Case_vertex_chunk_headerILj10EE3runEv(void) {
  u32 v0;
  u32 v1;
  u32 v2;
  u1 v3;
L0: ;
  v0 = v_param(((u32)0ULL));
  if (v_exc) return;
  v1 = ((u32)(v0 * ((u32)25ULL)));
  v2 = ((u32)(v1 + ((u32)10ULL)));
  v3 = (v2 < ((u32)25ULL));
  if (v3) {
    goto L1;
  } else {
    goto L2;
  }
L1: ;
  _ZL24body_vertex_chunk_headerj(v2);
  if (v_exc) return;
  goto L2;
L2: ;
  return;
}

void _ZN24Case_vertex_chunk_headerILj11EE3runEv(void) {
  u32 v0;
  u32 v1;
  u32 v2;
  u1 v3;
L0: ;
  v0 = v_param(((u32)0ULL));
  if (v_exc) return;
  v1 = ((u32)(v0 * ((u32)25ULL)));
  v2 = ((u32)(v1 + ((u32)11ULL)));
  v3 = (v2 < ((u32)25ULL));
  if (v3) {
    goto L1;
  } else {
    goto L2;
  }
L1: ;
  _ZL24body_vertex_chunk_headerj(v2);
  if (v_exc) return;
  goto L2;
L2: ;
  return;
}

void _ZN24Case_vertex_chunk_headerILj12EE3runEv(void) {
  u32 v0;
  u32 v1;
  u32 v2;
  u1 v3;
L0: ;
  v0 = v_param(((u32)0ULL));
  if (v_exc) return;
  v1 = ((u32)(v0 * ((u32)25ULL)));
  v2 = ((u32)(v1 + ((u32)12ULL)));
  v3 = (v2 < ((u32)25ULL));
  if (v3) {
    goto L1;
  } else {
    goto L2;
  }
L1: ;
  _ZL24body_vertex_chunk_headerj(v2);
  if (v_exc) return;
  goto L2;
L2: ;
  return;
}

void _ZN24Case_vertex_chunk_headerILj13EE3runEv(void) {
  u32 v0;
  u32 v1;
  u32 v2;
  u1 v3;
L0: ;
  v0 = v_param(((u32)0ULL));
  if (v_exc) return;
  v1 = ((u32)(v0 * ((u32)25ULL)));
  v2 = ((u32)(v1 + ((u32)13ULL)));
  v3 = (v2 < ((u32)25ULL));
  if (v3) {
    goto L1;
  } else {
    goto L2;
  }
L1: ;
  _ZL24body_vertex_chunk_headerj(v2);
  if (v_exc) return;
  goto L2;
L2: ;
  return;
}

void _ZN24Case_vertex_chunk_headerILj14EE3runEv(void) {
  u32 v0;
  u32 v1;
  u32 v2;
  u1 v3;
L0: ;
  v0 = v_param(((u32)0ULL));
  if (v_exc) return;
  v1 = ((u32)(v0 * ((u32)25ULL)));
  v2 = ((u32)(v1 + ((u32)14ULL)));
  v3 = (v2 < ((u32)25ULL));
  if (v3) {
    goto L1;
  } else {
    goto L2;
  }
L1: ;
  _ZL24body_vertex_chunk_headerj(v2);
  if (v_exc) return;
  goto L2;
L2: ;
  return;
}

void _ZN24Case_vertex_chunk_headerILj15EE3runEv(void) {
  u32 v0;
  u32 v1;
  u32 v2;
  u1 v3;
L0: ;
  v0 = v_param(((u32)0ULL));
  if (v_exc) return;
  v1 = ((u32)(v0 * ((u32)25ULL)));
  v2 = ((u32)(v1 + ((u32)15ULL)));
  v3 = (v2 < ((u32)25ULL));
  if (v3) {
    goto L1;
  } else {
    goto L2;
  }
L1: ;
  _ZL24body_vertex_chunk_headerj(v2);
  if (v_exc) return;
  goto L2;
L2: ;
  return;
}

void _ZN24Case_vertex_chunk_headerILj16EE3runEv(void) {
  u32 v0;
  u32 v1;
  u32 v2;
  u1 v3;
L0: ;
  v0 = v_param(((u32)0ULL));
  if (v_exc) return;
  v1 = ((u32)(v0 * ((u32)25ULL)));
  v2 = ((u32)(v1 + ((u32)16ULL)));
  v3 = (v2 < ((u32)25ULL));
  if (v3) {
    goto L1;
  } else {
    goto L2;
  }
L1: ;
  _ZL24body_vertex_chunk_headerj(v2);
  if (v_exc) return;
  goto L2;
L2: ;
  return;
}

void _ZN24Case_vertex_chunk_headerILj17EE3runEv(void) {
  u32 v0;
  u32 v1;
  u32 v2;
  u1 v3;
L0: ;
  v0 = v_param(((u32)0ULL));
  if (v_exc) return;
  v1 = ((u32)(v0 * ((u32)25ULL)));
  v2 = ((u32)(v1 + ((u32)17ULL)));
  v3 = (v2 < ((u32)25ULL));
  if (v3) {
    goto L1;
  } else {
    goto L2;
  }
L1: ;
  _ZL24body_vertex_chunk_headerj(v2);
  if (v_exc) return;
  goto L2;
L2: ;
  return;
}

void _ZN24Case_vertex_chunk_headerILj18EE3runEv(void) {
  u32 v0;
  u32 v1;
  u32 v2;
  u1 v3;
L0: ;
  v0 = v_param(((u32)0ULL));
  if (v_exc) return;
  v1 = ((u32)(v0 * ((u32)25ULL)));
  v2 = ((u32)(v1 + ((u32)18ULL)));
  v3 = (v2 < ((u32)25ULL));
  if (v3) {
    goto L1;
  } else {
    goto L2;
  }
L1: ;
  _ZL24body_vertex_chunk_headerj(v2);
  if (v_exc) return;
  goto L2;
L2: ;
  return;
}

void _ZN24Case_vertex_chunk_headerILj19EE3runEv(void) {
  u32 v0;
  u32 v1;
  u32 v2;
  u1 v3;
L0: ;
  v0 = v_param(((u32)0ULL));
  if (v_exc) return;
  v1 = ((u32)(v0 * ((u32)25ULL)));
  v2 = ((u32)(v1 + ((u32)19ULL)));
  v3 = (v2 < ((u32)25ULL));
  if (v3) {
    goto L1;
  } else {
    goto L2;
  }
L1: ;
  _ZL24body_vertex_chunk_headerj(v2);
  if (v_exc) return;
  goto L2;
L2: ;
  return;
}

void _ZN24Case_vertex_chunk_headerILj20EE3runEv(void) {
  u32 v0;
  u32 v1;
  u32 v2;
  u1 v3;
L0: ;
  v0 = v_param(((u32)0ULL));
  if (v_exc) return;
  v1 = ((u32)(v0 * ((u32)25ULL)));
  v2 = ((u32)(v1 + ((u32)20ULL)));
  v3 = (v2 < ((u32)25ULL));
  if (v3) {
    goto L1;
  } else {
    goto L2;
  }
L1: ;
  _ZL24body_vertex_chunk_headerj(v2);
  if (v_exc) return;
  goto L2;
L2: ;
  return;
}

void _ZN24Case_vertex_chunk_headerILj21EE3runEv(void) {
  u32 v0;
  u32 v1;
  u32 v2;
  u1 v3;
L0: ;
  v0 = v_param(((u32)0ULL));
  if (v_exc) return;
  v1 = ((u32)(v0 * ((u32)25ULL)));
  v2 = ((u32)(v1 + ((u32)21ULL)));
  v3 = (v2 < ((u32)25ULL));
  if (v3) {
    goto L1;
  } else {
    goto L2;
  }
L1: ;
  _ZL24body_vertex_chunk_headerj(v2);
  if (v_exc) return;
  goto L2;
L2: ;
  return;
}

void _ZN24Case_vertex_chunk_headerILj22EE3runEv(void) {
  u32 v0;
  u32 v1;
  u32 v2;
  u1 v3;
L0: ;
  v0 = v_param(((u32)0ULL));
  if (v_exc) return;
  v1 = ((u32)(v0 * ((u32)25ULL)));
  v2 = ((u32)(v1 + ((u32)22ULL)));
  v3 = (v2 < ((u32)25ULL));
  if (v3) {
    goto L1;
  } else {
    goto L2;
  }
L1: ;
  _ZL24body_vertex_chunk_headerj(v2);
  if (v_exc) return;
  goto L2;
L2: ;
  return;
}

void _ZN24Case_vertex_chunk_headerILj23EE3runEv(void) {
  u32 v0;
  u32 v1;
  u32 v2;
  u1 v3;
L0: ;
  v0 = v_param(((u32)0ULL));
  if (v_exc) return;
  v1 = ((u32)(v0 * ((u32)25ULL)));
  v2 = ((u32)(v1 + ((u32)23ULL)));
  v3 = (v2 < ((u32)25ULL));
  if (v3) {
    goto L1;
  } else {
    goto L2;
  }
L1: ;
  _ZL24body_vertex_chunk_headerj(v2);
  if (v_exc) return;
  goto L2;
L2: ;
  return;
}

void _ZN24Case_vertex_chunk_headerILj24EE3runEv(void) {
  u32 v0;
  u32 v1;
  u32 v2;
  u1 v3;
L0: ;
  v0 = v_param(((u32)0ULL));
  if (v_exc) return;
  v1 = ((u32)(v0 * ((u32)25ULL)));
  v2 = ((u32)(v1 + ((u32)24ULL)));
  v3 = (v2 < ((u32)25ULL));
  if (v3) {
    goto L1;
  } else {
    goto L2;
  }
L1: ;
  _ZL24body_vertex_chunk_headerj(v2);
  if (v_exc) return;
  goto L2;
L2: ;
  return;
}

void _ZL24body_vertex_chunk_headerj(u32 a0) {
  struct S4_class_OpenVolumeMesh__IO__detail__Decode* v0; struct S4_class_OpenVolumeMesh__IO__detail__Decode v0_m;
  struct S13_struct_OpenVolumeMesh__IO__detail__Verte* v1; struct S13_struct_OpenVolumeMesh__IO__detail__Verte v1_m;
  u64 v2;
  u1 v3;
  u8* v4;
  u8* v5; u8* v5_t;
  u8* v6;
  u8* v7;
  u8** v8;
  u8** v9;
  u8** v10;
  u8** v11;
  u8** v12;
  u8* v13;
  struct S16 v14;
  u8* v15;
  u32 v16;
  u32 v17;
  u1 v18;
  u8* v19;
  u1 v20; u1 v20_t;
  u1 v21; u1 v21_t;
  u1 v22; u1 v22_t;
  u1 v23;
  struct S16 v24;
  struct S16 v25;
  u8 v26;
  u1 v27;
  u8 v28;
  u1 v29;
  u8 v30;
  u1 v31;
  u1 v32;
  u8 v33;
  u1 v34;
  u1 v35; u1 v35_t;
  u1 v36;
  struct S16 v37;
  u64* v38;
  u64 v39;
  u64 v40; u64 v40_t;
  u64 v41; u64 v41_t;
  u8* v42;
  u8 v43;
  u64 v44;
  u64 v45;
  u64 v46;
  u64 v47;
  u64 v48;
  u1 v49;
  u1 v50;
  u32* v51;
  u32 v52;
  u64 v53; u64 v53_t;
  u64 v54; u64 v54_t;
  u1 v55;
  u64 v56;
  u8* v57;
  u8 v58;
  u64 v59;
  u64 v60;
  u64 v61;
  u64 v62;
  u64 v63; u64 v63_t;
  u64 v64;
  u1 v65;
  u32 v66;
  u1 v67;
  u8* v68;
  u8 v69;
  u1 v70;
  u1 v71;
  u8* v72;
  u8* v73;
  u64 v74;
  u64 v75;
  u64 v76;
  u1 v77;
  u1 v78; u1 v78_t;
  u8* v79;
  u1 v80;
  struct S16 v81; struct S16 v81_t;
  u8* v82;
  u1 v83;
L0: ;
  v0 = &v0_m;
  v1 = &v1_m;
  v2 = ((u64)(a0));
  v3 = (a0 == ((u32)0ULL));
  if (v3) {
    v5 = ((u8*)0);
    goto L2;
  } else {
    goto L1;
  }
L1: ;
  v4 = _Znwm(v2);
  if (v_exc) return;
  v5 = v4;
  goto L2;
L2: ;
  v6 = (u8*)(v5 + (s64)((s64)v2));
  if (v3) {
    goto L4;
  } else {
    goto L3;
  }
L3: ;
  v_memcpy((u8*)v5, (u8*)((u8*)(&(*(&_ZL5g_raw)).e[(s64)((s64)((u64)0ULL))])), (u64)v2);
  goto L4;
L4: ;
  v7 = (u8*)v0;
  v8 = (u8**)(&(*v0).f0.f0.f0.f0.f0);
  *v8 = v5;
  v9 = (u8**)(&(*v0).f0.f0.f0.f0.f1);
  *v9 = v6;
  v10 = (u8**)(&(*v0).f0.f0.f0.f0.f2);
  *v10 = v6;
  v11 = (u8**)(&(*v0).f1);
  *v11 = v5;
  v12 = (u8**)(&(*v0).f2);
  *v12 = v6;
  v13 = (u8*)v1;
  _ZN14OpenVolumeMesh2IO6detail4readERNS1_7DecoderERNS1_17VertexChunkHeaderE(v0, v1);
  if (v_exc) {
    goto L5;
  }
  v20_t = ((u1)1ULL);
  v21_t = ((u1)0ULL);
  v22_t = ((u1)1ULL);
  v20 = v20_t;
  v21 = v21_t;
  v22 = v22_t;
  goto L7;
L5: ;
  v14.f0 = v_exc_obj;
  v14.f1 = 0;
  if (v14.f1 == 0 && v_exc_match((u8*)((u8*)(&_ZTIN14OpenVolumeMesh2IO6detail11parse_errorE)))) v14.f1 = 1;
  if (v14.f1 == 0) v14.f1 = 9999;
  if (v14.f1 == 0) return;
  v_exc = 0;
  v15 = v14.f0;
  v16 = v14.f1;
  v17 = 1;
  v18 = (v16 == v17);
  v19 = __cxa_begin_catch(v15);
  if (v18) {
    goto L6;
  } else {
    goto L11;
  }
L6: ;
  __cxa_end_catch();
  if (v_exc) {
    goto L13;
  }
  v20_t = ((u1)1ULL);
  v21_t = ((u1)1ULL);
  v22_t = ((u1)0ULL);
  v20 = v20_t;
  v21 = v21_t;
  v22 = v22_t;
  goto L7;
L7: ;
  __CPROVER_assert(v20, "out != OTHER @/verif/harness/C07_decoder.cpp:124 [_ZL24body_vertex_chunk_headerj]");
  if (v_exc) {
    goto L12;
  }
  goto L8;
L8: ;
  v23 = (a0 < ((u32)16ULL));
  if (v23) {
    goto L9;
  } else {
    goto L14;
  }
L9: ;
  __CPROVER_assert(v21, "out == PARSE_ERROR @/verif/harness/C07_decoder.cpp:125 [_ZL24body_vertex_chunk_headerj]");
  if (v_exc) {
    goto L12;
  }
  goto L10;
L10: ;
  __CPROVER_assert(0, "WITNESS:vertex chunk header: short -> parse_error [_ZL24body_vertex_chunk_headerj]");
  if (v_exc) {
    goto L12;
  }
  goto L32;
L11: ;
  __cxa_end_catch();
  if (v_exc) {
    goto L12;
  }
  v20_t = ((u1)0ULL);
  v21_t = ((u1)0ULL);
  v22_t = ((u1)0ULL);
  v20 = v20_t;
  v21 = v21_t;
  v22 = v22_t;
  goto L7;
L12: ;
  v24.f0 = v_exc_obj;
  v24.f1 = 0;
  v_exc = 0;
  v81 = v24;
  goto L35;
L13: ;
  v25.f0 = v_exc_obj;
  v25.f1 = 0;
  v_exc = 0;
  v81 = v25;
  goto L35;
L14: ;
  v26 = *((u8*)(&(*(&_ZL5g_raw)).e[(s64)((s64)((u64)12ULL))]));
  v27 = (v26 > ((u8)2ULL));
  v28 = *((u8*)(&(*(&_ZL5g_raw)).e[(s64)((s64)((u64)13ULL))]));
  v29 = (v28 == ((u8)0ULL));
  v30 = *((u8*)(&(*(&_ZL5g_raw)).e[(s64)((s64)((u64)14ULL))]));
  v31 = (v30 == ((u8)0ULL));
  v32 = (v29 ? v31 : ((u1)0ULL));
  if (v32) {
    goto L15;
  } else {
    v35 = ((u1)1ULL);
    goto L16;
  }
L15: ;
  v33 = *((u8*)(&(*(&_ZL5g_raw)).e[(s64)((s64)((u64)15ULL))]));
  v34 = (v33 != ((u8)0ULL));
  v35 = v34;
  goto L16;
L16: ;
  v36 = (v27 ? ((u1)1ULL) : v35);
  if (v36) {
    goto L17;
  } else {
    goto L20;
  }
L17: ;
  __CPROVER_assert(v21, "out == PARSE_ERROR @/verif/harness/C07_decoder.cpp:128 [_ZL24body_vertex_chunk_headerj]");
  if (v_exc) {
    goto L19;
  }
  goto L18;
L18: ;
  __CPROVER_assert(0, "WITNESS:vertex chunk header: bad encoding/reserved -> parse_error [_ZL24body_vertex_chunk_headerj]");
  if (v_exc) {
    goto L19;
  }
  goto L32;
L19: ;
  v37.f0 = v_exc_obj;
  v37.f1 = 0;
  v_exc = 0;
  v81 = v37;
  goto L35;
L20: ;
  if (v22) {
    goto L21;
  } else {
    v78 = ((u1)0ULL);
    goto L30;
  }
L21: ;
  v38 = (u64*)(&(*v1).f0.f0);
  v39 = *v38;
  v40_t = ((u64)0ULL);
  v41_t = ((u64)0ULL);
  v40 = v40_t;
  v41 = v41_t;
  goto L22;
L22: ;
  v42 = (u8*)(&(*(&_ZL5g_raw)).e[(s64)((s64)v40)]);
  v43 = (*(&_ZL5g_raw)).e[(s64)((s64)v40)];
  v44 = ((u64)(v43));
  v45 = ((u64)(v40 << ((u64)3ULL)));
  v46 = ((u64)(v44 << v45));
  v47 = ((u64)(v46 | v41));
  v48 = ((u64)(v40 + ((u64)1ULL)));
  v49 = (v48 == ((u64)8ULL));
  if (v49) {
    goto L23;
  } else {
    v40_t = v48;
    v41_t = v47;
    v40 = v40_t;
    v41 = v41_t;
    goto L22;
  }
L23: ;
  v50 = (v39 == v47);
  if (v50) {
    goto L24;
  } else {
    v78 = ((u1)0ULL);
    goto L30;
  }
L24: ;
  v51 = (u32*)(&(*v1).f0.f1);
  v52 = *v51;
  v53_t = ((u64)0ULL);
  v54_t = ((u64)0ULL);
  v53 = v53_t;
  v54 = v54_t;
  goto L25;
L25: ;
  v55 = (v53 < ((u64)4ULL));
  if (v55) {
    goto L26;
  } else {
    v63 = v54;
    goto L27;
  }
L26: ;
  v56 = ((u64)(v53 + ((u64)8ULL)));
  v57 = (u8*)(&(*(&_ZL5g_raw)).e[(s64)((s64)v56)]);
  v58 = (*(&_ZL5g_raw)).e[(s64)((s64)v56)];
  v59 = ((u64)(v58));
  v60 = ((u64)(v53 << ((u64)3ULL)));
  v61 = ((u64)(v59 << v60));
  v62 = ((u64)(v61 | v54));
  v63 = v62;
  goto L27;
L27: ;
  v64 = ((u64)(v53 + ((u64)1ULL)));
  v65 = (v64 == ((u64)8ULL));
  if (v65) {
    goto L28;
  } else {
    v53_t = v64;
    v54_t = v63;
    v53 = v53_t;
    v54 = v54_t;
    goto L25;
  }
L28: ;
  v66 = ((u32)(v63));
  v67 = (v52 == v66);
  v68 = (u8*)(&(*v1).f1);
  v69 = *v68;
  v70 = (v69 == v26);
  v71 = (v67 ? v70 : ((u1)0ULL));
  if (v71) {
    goto L29;
  } else {
    v78 = ((u1)0ULL);
    goto L30;
  }
L29: ;
  v72 = *v11;
  v73 = *v8;
  v74 = ((u64)((u64)v72));
  v75 = ((u64)((u64)v73));
  v76 = v_pdiff((u8*)v72, (u8*)v73);
  v77 = (v76 == ((u64)16ULL));
  v78 = v77;
  goto L30;
L30: ;
  __CPROVER_assert(v78, "out == OK && h.span.first == le(bytes, 0, 8) && h.span.count == (uint32_t)le(bytes, 8, 4) && (uint8_t)h.vertex_encoding == bytes[12] && dec.pos() == 16 @/verif/harness/C07_decoder.cpp:129 [_ZL24body_vertex_chunk_headerj]");
  if (v_exc) {
    goto L19;
  }
  goto L31;
L31: ;
  __CPROVER_assert(0, "WITNESS:vertex chunk header: accepted [_ZL24body_vertex_chunk_headerj]");
  if (v_exc) {
    goto L19;
  }
  goto L32;
L32: ;
  v79 = *v8;
  v80 = ((u8*)v79 == (u8*)((u8*)0));
  if (v80) {
    goto L34;
  } else {
    goto L33;
  }
L33: ;
  _ZdlPv(v79);
  goto L34;
L34: ;
  return;
L35: ;
  v82 = *v8;
  v83 = ((u8*)v82 == (u8*)((u8*)0));
  if (v83) {
    goto L37;
  } else {
    goto L36;
  }
L36: ;
  _ZdlPv(v82);
  goto L37;
L37: ;
  v_exc = 1; return;
}

void harness_topo_chunk_header(void) {
  v_run_static_init();
  u32 v0;
  u1 v1;
  u32 v2;
  u32 v3;
  u32 v4;
  u1 v5;
  u1 v6;
  u64 v7; u64 v7_t;
  u8 v8;
  u8* v9;
  u64 v10;
  u1 v11;
L0: ;
  v7 = ((u64)0ULL);
  goto L32;
L1: ;
  v0 = v_nondet_u32();
  if (v_exc) return;
  v1 = (v0 < ((u32)25ULL));
  __CPROVER_assume(v1);
  v2 = v_param(((u32)0ULL));
  if (v_exc) return;
  v3 = ((u32)(v2 * ((u32)25ULL)));
  v4 = ((u32)(v3 + v0));
  v5 = (v4 < ((u32)25ULL));
  __CPROVER_assume(v5);
  switch (v0) {
  case ((u32)0ULL): {
    goto L2;
  }
  case ((u32)1ULL): {
    goto L3;
  }
  case ((u32)2ULL): {
    goto L4;
  }
  case ((u32)3ULL): {
    goto L5;
  }
  case ((u32)4ULL): {
    goto L6;
  }
  case ((u32)5ULL): {
    goto L7;
  }
  case ((u32)6ULL): {
    goto L8;
  }
  case ((u32)7ULL): {
    goto L9;
  }
  case ((u32)8ULL): {
    goto L10;
  }
  case ((u32)9ULL): {
    goto L11;
  }
  case ((u32)10ULL): {
    goto L12;
  }
  case ((u32)11ULL): {
    goto L13;
  }
  case ((u32)12ULL): {
    goto L14;
  }
  case ((u32)13ULL): {
    goto L15;
  }
  case ((u32)14ULL): {
    goto L16;
  }
  case ((u32)15ULL): {
    goto L17;
  }
  case ((u32)16ULL): {
    goto L18;
  }
  case ((u32)17ULL): {
    goto L19;
  }
  case ((u32)18ULL): {
    goto L20;
  }
  case ((u32)19ULL): {
    goto L21;
  }
  case ((u32)20ULL): {
    goto L22;
  }
  case ((u32)21ULL): {
    goto L24;
  }
  case ((u32)22ULL): {
    goto L26;
  }
  case ((u32)23ULL): {
    goto L28;
  }
  case ((u32)24ULL): {
    goto L30;
  }
  default: {
    goto L31;
  }
  }
L2: ;
  _ZN22Case_topo_chunk_headerILj0EE3runEv();
  if (v_exc) return;
  goto L31;
L3: ;
  _ZN22Case_topo_chunk_headerILj1EE3runEv();
  if (v_exc) return;
  goto L31;
L4: ;
  _ZN22Case_topo_chunk_headerILj2EE3runEv();
  if (v_exc) return;
  goto L31;
L5: ;
  _ZN22Case_topo_chunk_headerILj3EE3runEv();
  if (v_exc) return;
  goto L31;
L6: ;
  _ZN22Case_topo_chunk_headerILj4EE3runEv();
  if (v_exc) return;
  goto L31;
L7: ;
  _ZN22Case_topo_chunk_headerILj5EE3runEv();
  if (v_exc) return;
  goto L29;
L8: ;
  _ZN22Case_topo_chunk_headerILj6EE3runEv();
  if (v_exc) return;
  goto L27;
L9: ;
  _ZN22Case_topo_chunk_headerILj7EE3runEv();
  if (v_exc) return;
  goto L25;
L10: ;
  _ZN22Case_topo_chunk_headerILj8EE3runEv();
  if (v_exc) return;
  goto L23;
L11: ;
  _ZN22Case_topo_chunk_headerILj9EE3runEv();
  if (v_exc) return;
  goto L23;
L12: ;
  _ZN22Case_topo_chunk_headerILj10EE3runEv();
  if (v_exc) return;
  goto L23;
L13: ;
  _ZN22Case_topo_chunk_headerILj11EE3runEv();
  if (v_exc) return;
  goto L23;
L14: ;
  _ZN22Case_topo_chunk_headerILj12EE3runEv();
  if (v_exc) return;
  goto L25;
L15: ;
  _ZN22Case_topo_chunk_headerILj13EE3runEv();
  if (v_exc) return;
  goto L25;
L16: ;
  _ZN22Case_topo_chunk_headerILj14EE3runEv();
  if (v_exc) return;
  goto L27;
L17: ;
  _ZN22Case_topo_chunk_headerILj15EE3runEv();
  if (v_exc) return;
  goto L27;
L18: ;
  _ZN22Case_topo_chunk_headerILj16EE3runEv();
  if (v_exc) return;
  goto L29;
L19: ;
  _ZN22Case_topo_chunk_headerILj17EE3runEv();
  if (v_exc) return;
  goto L29;
L20: ;
  _ZN22Case_topo_chunk_headerILj18EE3runEv();
  if (v_exc) return;
  goto L31;
L21: ;
  _ZN22Case_topo_chunk_headerILj19EE3runEv();
  if (v_exc) return;
  goto L31;
L22: ;
  _ZN22Case_topo_chunk_headerILj20EE3runEv();
  if (v_exc) return;
  goto L23;
L23: ;
  switch (v0) {
  case ((u32)21ULL): {
    goto L24;
  }
  case ((u32)22ULL): {
    goto L26;
  }
  case ((u32)23ULL): {
    goto L28;
  }
  case ((u32)24ULL): {
    goto L30;
  }
  default: {
    goto L31;
  }
  }
L24: ;
  _ZN22Case_topo_chunk_headerILj21EE3runEv();
  if (v_exc) return;
  goto L25;
L25: ;
  switch (v0) {
  case ((u32)22ULL): {
    goto L26;
  }
  case ((u32)23ULL): {
    goto L28;
  }
  case ((u32)24ULL): {
    goto L30;
  }
  default: {
    goto L31;
  }
  }
L26: ;
  _ZN22Case_topo_chunk_headerILj22EE3runEv();
  if (v_exc) return;
  goto L27;
L27: ;
  switch (v0) {
  case ((u32)23ULL): {
    goto L28;
  }
  case ((u32)24ULL): {
    goto L30;
  }
  default: {
    goto L31;
  }
  }
L28: ;
  _ZN22Case_topo_chunk_headerILj23EE3runEv();
  if (v_exc) return;
  goto L29;
L29: ;
  v6 = (v0 == ((u32)24ULL));
  if (v6) {
    goto L30;
  } else {
    goto L31;
  }
L30: ;
  _ZN22Case_topo_chunk_headerILj24EE3runEv();
  if (v_exc) return;
  goto L31;
L31: ;
  return;
L32: ;
  v8 = v_nondet_u8();
  if (v_exc) return;
  v9 = (u8*)(&(*(&_ZL5g_raw)).e[(s64)((s64)v7)]);
  (*(&_ZL5g_raw)).e[(s64)((s64)v7)] = v8;
  v10 = ((u64)(v7 + ((u64)1ULL)));
  v11 = (v10 == ((u64)24ULL));
  if (v11) {
    goto L1;
  } else {
    v7 = v10;
    goto L32;
  }
}

void _ZN22Case_topo_chunk_headerILj0EE3runEv(void) {
  u32 v0;
  u32 v1;
  u1 v2;
L0: ;
  v0 = v_param(((u32)0ULL));
  if (v_exc) return;
  v1 = ((u32)(v0 * ((u32)25ULL)));
  v2 = (v1 < ((u32)25ULL));
  if (v2) {
    goto L1;
  } else {
    goto L2;
  }
L1: ;
  _ZL22body_topo_chunk_headerj(v1);
  if (v_exc) return;
  goto L2;
L2: ;
  return;
}

void _ZN22Case_topo_chunk_headerILj1EE3runEv(void) {
  u32 v0;
  u32 v1;
  u32 v2;
  u1 v3;
L0: ;
  v0 = v_param(((u32)0ULL));
  if (v_exc) return;
  v1 = ((u32)(v0 * ((u32)25ULL)));
  v2 = ((u32)(v1 + ((u32)1ULL)));
  v3 = (v2 < ((u32)25ULL));
  if (v3) {
    goto L1;
  } else {
    goto L2;
  }
L1: ;
  _ZL22body_topo_chunk_headerj(v2);
  if (v_exc) return;
  goto L2;
L2: ;
  return;
}

void _ZN22Case_topo_chunk_headerILj2EE3runEv(void) {
  u32 v0;
  u32 v1;
  u32 v2;
  u1 v3;
L0: ;
  v0 = v_param(((u32)0ULL));
  if (v_exc) return;
  v1 = ((u32)(v0 * ((u32)25ULL)));
  v2 = ((u32)(v1 + ((u32)2ULL)));
  v3 = (v2 < ((u32)25ULL));
  if (v3) {
    goto L1;
  } else {
    goto L2;
  }
L1: ;
  _ZL22body_topo_chunk_headerj(v2);
  if (v_exc) return;
  goto L2;
L2: ;
  return;
}

void _ZN22Case_topo_chunk_headerILj3EE3runEv(void) {
  u32 v0;
  u32 v1;
  u32 v2;
  u1 v3;
L0: ;
  v0 = v_param(((u32)0ULL));
  if (v_exc) return;
  v1 = ((u32)(v0 * ((u32)25ULL)));
  v2 = ((u32)(v1 + ((u32)3ULL)));
  v3 = (v2 < ((u32)25ULL));
  if (v3) {
    goto L1;
  } else {
    goto L2;
  }
L1: ;
  _ZL22body_topo_chunk_headerj(v2);
  if (v_exc) return;
  goto L2;
L2: ;
  return;
}

void _ZN22Case_topo_chunk_headerILj4EE3runEv(void) {
  u32 v0;
  u32 v1;
  u32 v2;
  u1 v3;
L0: ;
  v0 = v_param(((u32)0ULL));
  if (v_exc) return;
  v1 = ((u32)(v0 * ((u32)25ULL)));
  v2 = ((u32)(v1 + ((u32)4ULL)));
  v3 = (v2 < ((u32)25ULL));
  if (v3) {
    goto L1;
  } else {
    goto L2;
  }
L1: ;
  _ZL22body_topo_chunk_headerj(v2);
  if (v_exc) return;
  goto L2;
L2: ;
  return;
}

void _ZN22Case_topo_chunk_headerILj5EE3runEv(void) {
  u32 v0;
  u32 v1;
  u32 v2;
  u1 v3;
L0: ;
  v0 = v_param(((u32)0ULL));
  if (v_exc) return;
  v1 = ((u32)(v0 * ((u32)25ULL)));
  v2 = ((u32)(v1 + ((u32)5ULL)));
  v3 = (v2 < ((u32)25ULL));
  if (v3) {
    goto L1;
  } else {
    goto L2;
  }
L1: ;
  _ZL22body_topo_chunk_headerj(v2);
  if (v_exc) return;
  goto L2;
L2: ;
  return;
}

void _ZN22Case_topo_chunk_headerILj6EE3runEv(void) {
  u32 v0;
  u32 v1;
  u32 v2;
  u1 v3;
L0: ;
  v0 = v_param(((u32)0ULL));
  if (v_exc) return;
  v1 = ((u32)(v0 * ((u32)25ULL)));
  v2 = ((u32)(v1 + ((u32)6ULL)));
  v3 = (v2 < ((u32)25ULL));
  if (v3) {
    goto L1;
  } else {
    goto L2;
  }
L1: ;
  _ZL22body_topo_chunk_headerj(v2);
  if (v_exc) return;
  goto L2;
L2: ;
  return;
}

void _ZN22Case_topo_chunk_headerILj7EE3runEv(void) {
  u32 v0;
  u32 v1;
  u32 v2;
  u1 v3;
L0: ;
  v0 = v_param(((u32)0ULL));
  if (v_exc) return;
  v1 = ((u32)(v0 * ((u32)25ULL)));
  v2 = ((u32)(v1 + ((u32)7ULL)));
  v3 = (v2 < ((u32)25ULL));
  if (v3) {
    goto L1;
  } else {
    goto L2;
  }
L1: ;
  _ZL22body_topo_chunk_headerj(v2);
  if (v_exc) return;
  goto L2;
L2: ;
  return;
}

void _ZN22Case_topo_chunk_headerILj8EE3runEv(void) {
  u32 v0;
  u32 v1;
  u32 v2;
  u1 v3;
L0: ;
  v0 = v_param(((u32)0ULL));
  if (v_exc) return;
  v1 = ((u32)(v0 * ((u32)25ULL)));
  v2 = ((u32)(v1 + ((u32)8ULL)));
  v3 = (v2 < ((u32)25ULL));
  if (v3) {
    goto L1;
  } else {
    goto L2;
  }
L1: ;
  _ZL22body_topo_chunk_headerj(v2);
  if (v_exc) return;
  goto L2;
L2: ;
  return;
}

void _ZN22Case_topo_chunk_headerILj9EE3runEv(void) {
  u32 v0;
  u32 v1;
  u32 v2;
  u1 v3;
L0: ;
  v0 = v_param(((u32)0ULL));
  if (v_exc) return;
  v1 = ((u32)(v0 * ((u32)25ULL)));
  v2 = ((u32)(v1 + ((u32)9ULL)));
  v3 = (v2 < ((u32)25ULL));
  if (v3) {
    goto L1;
  } else {
    goto L2;
  }
L1: ;
  _ZL22body_topo_chunk_headerj(v2);
  if (v_exc) return;
  goto L2;
L2: ;
  return;
}

void _ZN22Case_topo_chunk_headerILj10EE3runEv(void) {
  u32 v0;
  u32 v1;
  u32 v2;
  u1 v3;
L0: ;
  v0 = v_param(((u32)0ULL));
  if (v_exc) return;
  v1 = ((u32)(v0 * ((u32)25ULL)));
  v2 = ((u32)(v1 + ((u32)10ULL)));
  v3 = (v2 < ((u32)25ULL));
  if (v3) {
    goto L1;
  } else {
    goto L2;
  }
L1: ;
  _ZL22body_topo_chunk_headerj(v2);
  if (v_exc) return;
  goto L2;
L2: ;
  return;
}

void _ZN22Case_topo_chunk_headerILj11EE3runEv(void) {
  u32 v0;
  u32 v1;
  u32 v2;
  u1 v3;
L0: ;
  v0 = v_param(((u32)0ULL));
  if (v_exc) return;
  v1 = ((u32)(v0 * ((u32)25ULL)));
  v2 = ((u32)(v1 + ((u32)11ULL)));
  v3 = (v2 < ((u32)25ULL));
  if (v3) {
    goto L1;
  } else {
    goto L2;
  }
L1: ;
  _ZL22body_topo_chunk_headerj(v2);
  if (v_exc) return;
  goto L2;
L2: ;
  return;
}

void _ZN22Case_topo_chunk_headerILj12EE3runEv(void) {
  u32 v0;
  u32 v1;
  u32 v2;
  u1 v3;
L0: ;
  v0 = v_param(((u32)0ULL));
  if (v_exc) return;
  v1 = ((u32)(v0 * ((u32)25ULL)));
  v2 = ((u32)(v1 + ((u32)12ULL)));
  v3 = (v2 < ((u32)25ULL));
  if (v3) {
    goto L1;
  } else {
    goto L2;
  }
L1: ;
  _ZL22body_topo_chunk_headerj(v2);
  if (v_exc) return;
  goto L2;
L2: ;
  return;
}

void _ZN22Case_topo_chunk_headerILj13EE3runEv(void) {
  u32 v0;
  u32 v1;
  u32 v2;
  u1 v3;
L0: ;
  v0 = v_param(((u32)0ULL));
  if (v_exc) return;
  v1 = ((u32)(v0 * ((u32)25ULL)));
  v2 = ((u32)(v1 + ((u32)13ULL)));
  v3 = (v2 < ((u32)25ULL));
  if (v3) {
    goto L1;
  } else {
    goto L2;
  }
L1: ;
  _ZL22body_topo_chunk_headerj(v2);
  if (v_exc) return;
  goto L2;
L2: ;
  return;
}

void _ZN22Case_topo_chunk_headerILj14EE3runEv(void) {
  u32 v0;
  u32 v1;
  u32 v2;
  u1 v3;
L0: ;
  v0 = v_param(((u32)0ULL));
  if (v_exc) return;
  v1 = ((u32)(v0 * ((u32)25ULL)));
  v2 = ((u32)(v1 + ((u32)14ULL)));
  v3 = (v2 < ((u32)25ULL));
  if (v3) {
    goto L1;
  } else {
    goto L2;
  }
L1: ;
  _ZL22body_topo_chunk_headerj(v2);
  if (v_exc) return;
  goto L2;
L2: ;
  return;
}

void _ZN22Case_topo_chunk_headerILj15EE3runEv(void) {
  u32 v0;
  u32 v1;
  u32 v2;
  u1 v3;
L0: ;
  v0 = v_param(((u32)0ULL));
  if (v_exc) return;
  v1 = ((u32)(v0 * ((u32)25ULL)));
  v2 = ((u32)(v1 + ((u32)15ULL)));
  v3 = (v2 < ((u32)25ULL));
  if (v3) {
    goto L1;
  } else {
    goto L2;
  }
L1: ;
  _ZL22body_topo_chunk_headerj(v2);
  if (v_exc) return;
  goto L2;
L2: ;
  return;
}

void _ZN22Case_topo_chunk_headerILj16EE3runEv(void) {
  u32 v0;
  u32 v1;
  u32 v2;
  u1 v3;
L0: ;
  v0 = v_param(((u32)0ULL));
  if (v_exc) return;
  v1 = ((u32)(v0 * ((u32)25ULL)));
  v2 = ((u32)(v1 + ((u32)16ULL)));
  v3 = (v2 < ((u32)25ULL));
  if (v3) {
    goto L1;
  } else {
    goto L2;
  }
L1: ;
  _ZL22body_topo_chunk_headerj(v2);
  if (v_exc) return;
  goto L2;
L2: ;
  return;
}

void _ZN22Case_topo_chunk_headerILj17EE3runEv(void) {
  u32 v0;
  u32 v1;
  u32 v2;
  u1 v3;
L0: ;
  v0 = v_param(((u32)0ULL));
  if (v_exc) return;
  v1 = ((u32)(v0 * ((u32)25ULL)));
  v2 = ((u32)(v1 + ((u32)17ULL)));
  v3 = (v2 < ((u32)25ULL));
  if (v3) {
    goto L1;
  } else {
    goto L2;
  }
L1: ;
  _ZL22body_topo_chunk_headerj(v2);
  if (v_exc) return;
  goto L2;
L2: ;
  return;
}

void _ZN22Case_topo_chunk_headerILj18EE3runEv(void) {
  u32 v0;
  u32 v1;
  u32 v2;
  u1 v3;
L0: ;
  v0 = v_param(((u32)0ULL));
  if (v_exc) return;
  v1 = ((u32)(v0 * ((u32)25ULL)));
  v2 = ((u32)(v1 + ((u32)18ULL)));
  v3 = (v2 < ((u32)25ULL));
  if (v3) {
    goto L1;
  } else {
    goto L2;
  }
L1: ;
  _ZL22body_topo_chunk_headerj(v2);
  if (v_exc) return;
  goto L2;
L2: ;
  return;
}

void _ZN22Case_topo_chunk_headerILj19EE3runEv(void) {
  u32 v0;
  u32 v1;
  u32 v2;
  u1 v3;
L0: ;
  v0 = v_param(((u32)0ULL));
  if (v_exc) return;
  v1 = ((u32)(v0 * ((u32)25ULL)));
  v2 = ((u32)(v1 + ((u32)19ULL)));
  v3 = (v2 < ((u32)25ULL));
  if (v3) {
    goto L1;
  } else {
    goto L2;
  }
L1: ;
  _ZL22body_topo_chunk_headerj(v2);
  if (v_exc) return;
  goto L2;
L2: ;
  return;
}

void _ZN22Case_topo_chunk_headerILj20EE3runEv(void) {
  u32 v0;
  u32 v1;
  u32 v2;
  u1 v3;
L0: ;
  v0 = v_param(((u32)0ULL));
  if (v_exc) return;
  v1 = ((u32)(v0 * ((u32)25ULL)));
  v2 = ((u32)(v1 + ((u32)20ULL)));
  v3 = (v2 < ((u32)25ULL));
  if (v3) {
    goto L1;
  } else {
    goto L2;
  }
L1: ;
  _ZL22body_topo_chunk_headerj(v2);
  if (v_exc) return;
  goto L2;
L2: ;
  return;
}

void _ZN22Case_topo_chunk_headerILj21EE3runEv(void) {
  u32 v0;
  u32 v1;
  u32 v2;
  u1 v3;
L0: ;
  v0 = v_param(((u32)0ULL));
  if (v_exc) return;
  v1 = ((u32)(v0 * ((u32)25ULL)));
  v2 = ((u32)(v1 + ((u32)21ULL)));
  v3 = (v2 < ((u32)25ULL));
  if (v3) {
    goto L1;
  } else {
    goto L2;
  }
L1: ;
  _ZL22body_topo_chunk_headerj(v2);
  if (v_exc) return;
  goto L2;
L2: ;
  return;
}

void _ZN22Case_topo_chunk_headerILj22EE3runEv(void) {
  u32 v0;
  u32 v1;
  u32 v2;
  u1 v3;
L0: ;
  v0 = v_param(((u32)0ULL));
  if (v_exc) return;
  v1 = ((u32)(v0 * ((u32)25ULL)));
  v2 = ((u32)(v1 + ((u32)22ULL)));
  v3 = (v2 < ((u32)25ULL));
  if (v3) {
    goto L1;
  } else {
    goto L2;
  }
L1: ;
  _ZL22body_topo_chunk_headerj(v2);
  if (v_exc) return;
  goto L2;
L2: ;
  return;
}

void _ZN22Case_topo_chunk_headerILj23EE3runEv(void) {
  u32 v0;
  u32 v1;
  u32 v2;
  u1 v3;
L0: ;
  v0 = v_param(((u32)0ULL));
  if (v_exc) return;
  v1 = ((u32)(v0 * ((u32)25ULL)));
  v2 = ((u32)(v1 + ((u32)23ULL)));
  v3 = (v2 < ((u32)25ULL));
  if (v3) {
    goto L1;
  } else {
    goto L2;
  }
L1: ;
  _ZL22body_topo_chunk_headerj(v2);
  if (v_exc) return;
  goto L2;
L2: ;
  return;
}

void _ZN22Case_topo_chunk_headerILj24EE3runEv(void) {
  u32 v0;
  u32 v1;
  u32 v2;
  u1 v3;
L0: ;
  v0 = v_param(((u32)0ULL));
  if (v_exc) return;
  v1 = ((u32)(v0 * ((u32)25ULL)));
  v2 = ((u32)(v1 + ((u32)24ULL)));
  v3 = (v2 < ((u32)25ULL));
  if (v3) {
    goto L1;
  } else {
    goto L2;
  }
L1: ;
  _ZL22body_topo_chunk_headerj(v2);
  if (v_exc) return;
  goto L2;
L2: ;
  return;
}

void _ZL22body_topo_chunk_headerj(u32 a0) {
  struct S4_class_OpenVolumeMesh__IO__detail__Decode* v0; struct S4_class_OpenVolumeMesh__IO__detail__Decode v0_m;
  struct S14_struct_OpenVolumeMesh__IO__detail__TopoC* v1; struct S14_struct_OpenVolumeMesh__IO__detail__TopoC v1_m;
  u64 v2;
  u1 v3;
  u8* v4;
  u8* v5; u8* v5_t;
  u8* v6;
  u8* v7;
  u8** v8;
  u8** v9;
  u8** v10;
  u8** v11;
  u8** v12;
  u8* v13;
  struct S16 v14;
  u8* v15;
  u32 v16;
  u32 v17;
  u1 v18;
  u8* v19;
  u1 v20; u1 v20_t;
  u1 v21; u1 v21_t;
  u1 v22; u1 v22_t;
  u1 v23;
  struct S16 v24;
  struct S16 v25;
  u8 v26;
  u8 v27;
  u1 v28;
  u8 v29;
  u8 v30;
  struct S16 v31;
  u64* v32;
  u64 v33;
  u64 v34; u64 v34_t;
  u64 v35; u64 v35_t;
  u8* v36;
  u8 v37;
  u64 v38;
  u64 v39;
  u64 v40;
  u64 v41;
  u64 v42;
  u1 v43;
  u1 v44;
  u32* v45;
  u32 v46;
  u64 v47; u64 v47_t;
  u64 v48; u64 v48_t;
  u1 v49;
  u64 v50;
  u8* v51;
  u8 v52;
  u64 v53;
  u64 v54;
  u64 v55;
  u64 v56;
  u64 v57; u64 v57_t;
  u64 v58;
  u1 v59;
  u32 v60;
  u1 v61;
  u8* v62;
  u8 v63;
  u1 v64;
  u1 v65;
  u8* v66;
  u8 v67;
  u8 v68;
  u1 v69;
  u1 v70; u1 v70_t;
  u8* v71;
  u8 v72;
  u8 v73;
  u1 v74;
  u8* v75;
  u8 v76;
  u8 v77;
  u1 v78;
  u64* v79;
  u64 v80;
  u64 v81; u64 v81_t;
  u64 v82; u64 v82_t;
  u64 v83;
  u8* v84;
  u8 v85;
  u64 v86;
  u64 v87;
  u64 v88;
  u64 v89;
  u64 v90;
  u1 v91;
  u1 v92;
  u8* v93;
  u8* v94;
  u64 v95;
  u64 v96;
  u64 v97;
  u1 v98;
  u1 v99; u1 v99_t;
  u8* v100;
  u1 v101;
  struct S16 v102; struct S16 v102_t;
  u8* v103;
  u1 v104;
L0: ;
  v0 = &v0_m;
  v1 = &v1_m;
  v2 = ((u64)(a0));
  v3 = (a0 == ((u32)0ULL));
  if (v3) {
    v5 = ((u8*)0);
    goto L2;
  } else {
    goto L1;
  }
L1: ;
  v4 = _Znwm(v2);
  if (v_exc) return;
  v5 = v4;
  goto L2;
L2: ;
  v6 = (u8*)(v5 + (s64)((s64)v2));
  if (v3) {
    goto L4;
  } else {
    goto L3;
  }
L3: ;
  v_memcpy((u8*)v5, (u8*)((u8*)(&(*(&_ZL5g_raw)).e[(s64)((s64)((u64)0ULL))])), (u64)v2);
  goto L4;
L4: ;
  v7 = (u8*)v0;
  v8 = (u8**)(&(*v0).f0.f0.f0.f0.f0);
  *v8 = v5;
  v9 = (u8**)(&(*v0).f0.f0.f0.f0.f1);
  *v9 = v6;
  v10 = (u8**)(&(*v0).f0.f0.f0.f0.f2);
  *v10 = v6;
  v11 = (u8**)(&(*v0).f1);
  *v11 = v5;
  v12 = (u8**)(&(*v0).f2);
  *v12 = v6;
  v13 = (u8*)v1;
  _ZN14OpenVolumeMesh2IO6detail4readERNS1_7DecoderERNS1_15TopoChunkHeaderE(v0, v1);
  if (v_exc) {
    goto L5;
  }
  v20_t = ((u1)1ULL);
  v21_t = ((u1)0ULL);
  v22_t = ((u1)1ULL);
  v20 = v20_t;
  v21 = v21_t;
  v22 = v22_t;
  goto L7;
L5: ;
  v14.f0 = v_exc_obj;
  v14.f1 = 0;
  if (v14.f1 == 0 && v_exc_match((u8*)((u8*)(&_ZTIN14OpenVolumeMesh2IO6detail11parse_errorE)))) v14.f1 = 1;
  if (v14.f1 == 0) v14.f1 = 9999;
  if (v14.f1 == 0) return;
  v_exc = 0;
  v15 = v14.f0;
  v16 = v14.f1;
  v17 = 1;
  v18 = (v16 == v17);
  v19 = __cxa_begin_catch(v15);
  if (v18) {
    goto L6;
  } else {
    goto L11;
  }
L6: ;
  __cxa_end_catch();
  if (v_exc) {
    goto L13;
  }
  v20_t = ((u1)1ULL);
  v21_t = ((u1)1ULL);
  v22_t = ((u1)0ULL);
  v20 = v20_t;
  v21 = v21_t;
  v22 = v22_t;
  goto L7;
L7: ;
  __CPROVER_assert(v20, "out != OTHER @/verif/harness/C07_decoder.cpp:140 [_ZL22body_topo_chunk_headerj]");
  if (v_exc) {
    goto L12;
  }
  goto L8;
L8: ;
  v23 = (a0 < ((u32)24ULL));
  if (v23) {
    goto L9;
  } else {
    goto L14;
  }
L9: ;
  __CPROVER_assert(v21, "out == PARSE_ERROR @/verif/harness/C07_decoder.cpp:141 [_ZL22body_topo_chunk_headerj]");
  if (v_exc) {
    goto L12;
  }
  goto L10;
L10: ;
  __CPROVER_assert(0, "WITNESS:topo chunk header: short -> parse_error [_ZL22body_topo_chunk_headerj]");
  if (v_exc) {
    goto L12;
  }
  goto L39;
L11: ;
  __cxa_end_catch();
  if (v_exc) {
    goto L12;
  }
  v20_t = ((u1)0ULL);
  v21_t = ((u1)0ULL);
  v22_t = ((u1)0ULL);
  v20 = v20_t;
  v21 = v21_t;
  v22 = v22_t;
  goto L7;
L12: ;
  v24.f0 = v_exc_obj;
  v24.f1 = 0;
  v_exc = 0;
  v102 = v24;
  goto L42;
L13: ;
  v25.f0 = v_exc_obj;
  v25.f1 = 0;
  v_exc = 0;
  v102 = v25;
  goto L42;
L14: ;
  v26 = *((u8*)(&(*(&_ZL5g_raw)).e[(s64)((s64)((u64)12ULL))]));
  v27 = ((u8)(v26 + ((u8)255ULL)));
  v28 = (v27 < ((u8)3ULL));
  if (v28) {
    goto L15;
  } else {
    goto L17;
  }
L15: ;
  v29 = *((u8*)(&(*(&_ZL5g_raw)).e[(s64)((s64)((u64)14ULL))]));
  switch (v29) {
  case ((u8)4ULL): {
    goto L16;
  }
  case ((u8)2ULL): {
    goto L16;
  }
  case ((u8)1ULL): {
    goto L16;
  }
  case ((u8)0ULL): {
    goto L16;
  }
  default: {
    goto L17;
  }
  }
L16: ;
  v30 = *((u8*)(&(*(&_ZL5g_raw)).e[(s64)((s64)((u64)15ULL))]));
  switch (v30) {
  case ((u8)4ULL): {
    goto L20;
  }
  case ((u8)2ULL): {
    goto L20;
  }
  case ((u8)1ULL): {
    goto L20;
  }
  case ((u8)0ULL): {
    goto L20;
  }
  default: {
    goto L17;
  }
  }
L17: ;
  __CPROVER_assert(v21, "out == PARSE_ERROR @/verif/harness/C07_decoder.cpp:143 [_ZL22body_topo_chunk_headerj]");
  if (v_exc) {
    goto L19;
  }
  goto L18;
L18: ;
  __CPROVER_assert(0, "WITNESS:topo chunk header: bad enum -> parse_error [_ZL22body_topo_chunk_headerj]");
  if (v_exc) {
    goto L19;
  }
  goto L39;
L19: ;
  v31.f0 = v_exc_obj;
  v31.f1 = 0;
  v_exc = 0;
  v102 = v31;
  goto L42;
L20: ;
  if (v22) {
    goto L21;
  } else {
    v70 = ((u1)0ULL);
    goto L30;
  }
L21: ;
  v32 = (u64*)(&(*v1).f0.f0);
  v33 = *v32;
  v34_t = ((u64)0ULL);
  v35_t = ((u64)0ULL);
  v34 = v34_t;
  v35 = v35_t;
  goto L22;
L22: ;
  v36 = (u8*)(&(*(&_ZL5g_raw)).e[(s64)((s64)v34)]);
  v37 = (*(&_ZL5g_raw)).e[(s64)((s64)v34)];
  v38 = ((u64)(v37));
  v39 = ((u64)(v34 << ((u64)3ULL)));
  v40 = ((u64)(v38 << v39));
  v41 = ((u64)(v40 | v35));
  v42 = ((u64)(v34 + ((u64)1ULL)));
  v43 = (v42 == ((u64)8ULL));
  if (v43) {
    goto L23;
  } else {
    v34_t = v42;
    v35_t = v41;
    v34 = v34_t;
    v35 = v35_t;
    goto L22;
  }
L23: ;
  v44 = (v33 == v41);
  if (v44) {
    goto L24;
  } else {
    v70 = ((u1)0ULL);
    goto L30;
  }
L24: ;
  v45 = (u32*)(&(*v1).f0.f1);
  v46 = *v45;
  v47_t = ((u64)0ULL);
  v48_t = ((u64)0ULL);
  v47 = v47_t;
  v48 = v48_t;
  goto L25;
L25: ;
  v49 = (v47 < ((u64)4ULL));
  if (v49) {
    goto L26;
  } else {
    v57 = v48;
    goto L27;
  }
L26: ;
  v50 = ((u64)(v47 + ((u64)8ULL)));
  v51 = (u8*)(&(*(&_ZL5g_raw)).e[(s64)((s64)v50)]);
  v52 = (*(&_ZL5g_raw)).e[(s64)((s64)v50)];
  v53 = ((u64)(v52));
  v54 = ((u64)(v47 << ((u64)3ULL)));
  v55 = ((u64)(v53 << v54));
  v56 = ((u64)(v55 | v48));
  v57 = v56;
  goto L27;
L27: ;
  v58 = ((u64)(v47 + ((u64)1ULL)));
  v59 = (v58 == ((u64)8ULL));
  if (v59) {
    goto L28;
  } else {
    v47_t = v58;
    v48_t = v57;
    v47 = v47_t;
    v48 = v48_t;
    goto L25;
  }
L28: ;
  v60 = ((u32)(v57));
  v61 = (v46 == v60);
  v62 = (u8*)(&(*v1).f1);
  v63 = *v62;
  v64 = (v63 == v26);
  v65 = (v61 ? v64 : ((u1)0ULL));
  if (v65) {
    goto L29;
  } else {
    v70 = ((u1)0ULL);
    goto L30;
  }
L29: ;
  v66 = (u8*)(&(*v1).f2);
  v67 = *v66;
  v68 = *((u8*)(&(*(&_ZL5g_raw)).e[(s64)((s64)((u64)13ULL))]));
  v69 = (v67 == v68);
  v70 = v69;
  goto L30;
L30: ;
  __CPROVER_assert(v70, "out == OK && h.span.first == le(bytes, 0, 8) && h.span.count == (uint32_t)le(bytes, 8, 4) && (uint8_t)h.entity == bytes[12] && h.valence == bytes[13] @/verif/harness/C07_decoder.cpp:144 [_ZL22body_topo_chunk_headerj]");
  if (v_exc) {
    goto L19;
  }
  goto L31;
L31: ;
  v71 = (u8*)(&(*v1).f3);
  v72 = *v71;
  v73 = *((u8*)(&(*(&_ZL5g_raw)).e[(s64)((s64)((u64)14ULL))]));
  v74 = (v72 == v73);
  if (v74) {
    goto L32;
  } else {
    v99 = ((u1)0ULL);
    goto L37;
  }
L32: ;
  v75 = (u8*)(&(*v1).f4);
  v76 = *v75;
  v77 = *((u8*)(&(*(&_ZL5g_raw)).e[(s64)((s64)((u64)15ULL))]));
  v78 = (v76 == v77);
  if (v78) {
    goto L33;
  } else {
    v99 = ((u1)0ULL);
    goto L37;
  }
L33: ;
  v79 = (u64*)(&(*v1).f5);
  v80 = *v79;
  v81_t = ((u64)0ULL);
  v82_t = ((u64)0ULL);
  v81 = v81_t;
  v82 = v82_t;
  goto L34;
L34: ;
  v83 = ((u64)(v81 + ((u64)16ULL)));
  v84 = (u8*)(&(*(&_ZL5g_raw)).e[(s64)((s64)v83)]);
  v85 = (*(&_ZL5g_raw)).e[(s64)((s64)v83)];
  v86 = ((u64)(v85));
  v87 = ((u64)(v81 << ((u64)3ULL)));
  v88 = ((u64)(v86 << v87));
  v89 = ((u64)(v88 | v82));
  v90 = ((u64)(v81 + ((u64)1ULL)));
  v91 = (v90 == ((u64)8ULL));
  if (v91) {
    goto L35;
  } else {
    v81_t = v90;
    v82_t = v89;
    v81 = v81_t;
    v82 = v82_t;
    goto L34;
  }
L35: ;
  v92 = (v80 == v89);
  if (v92) {
    goto L36;
  } else {
    v99 = ((u1)0ULL);
    goto L37;
  }
L36: ;
  v93 = *v11;
  v94 = *v8;
  v95 = ((u64)((u64)v93));
  v96 = ((u64)((u64)v94));
  v97 = v_pdiff((u8*)v93, (u8*)v94);
  v98 = (v97 == ((u64)24ULL));
  v99 = v98;
  goto L37;
L37: ;
  __CPROVER_assert(v99, "(uint8_t)h.valence_encoding == bytes[14] && (uint8_t)h.handle_encoding == bytes[15] && h.handle_offset == le(bytes, 16, 8) && dec.pos() == 24 @/verif/harness/C07_decoder.cpp:145 [_ZL22body_topo_chunk_headerj]");
  if (v_exc) {
    goto L19;
  }
  goto L38;
L38: ;
  __CPROVER_assert(0, "WITNESS:topo chunk header: accepted [_ZL22body_topo_chunk_headerj]");
  if (v_exc) {
    goto L19;
  }
  goto L39;
L39: ;
  v100 = *v8;
  v101 = ((u8*)v100 == (u8*)((u8*)0));
  if (v101) {
    goto L41;
  } else {
    goto L40;
  }
L40: ;
  _ZdlPv(v100);
  goto L41;
L41: ;
  return;
L42: ;
  v103 = *v8;
  v104 = ((u8*)v103 == (u8*)((u8*)0));
  if (v104) {
    goto L44;
  } else {
    goto L43;
  }
L43: ;
  _ZdlPv(v103);
  goto L44;
L44: ;
  v_exc = 1; return;
}

void harness_reserved3(void) {
  v_run_static_init();
  u32 v0;
  u1 v1;
  u32 v2;
  u32 v3;
  u32 v4;
  u1 v5;
  u64 v6; u64 v6_t;
  u8 v7;
  u8* v8;
  u64 v9;
  u1 v10;
L0: ;
  v6 = ((u64)0ULL);
  goto L12;
L1: ;
  v0 = v_nondet_u32();
  if (v_exc) return;
  v1 = (v0 < ((u32)9ULL));
  __CPROVER_assume(v1);
  v2 = v_param(((u32)0ULL));
  if (v_exc) return;
  v3 = ((u32)(v2 * ((u32)9ULL)));
  v4 = ((u32)(v3 + v0));
  v5 = (v4 < ((u32)9ULL));
  __CPROVER_assume(v5);
  switch (v0) {
  case ((u32)0ULL): {
    goto L2;
  }
  case ((u32)1ULL): {
    goto L3;
  }
  case ((u32)2ULL): {
    goto L4;
  }
  case ((u32)3ULL): {
    goto L5;
  }
  case ((u32)4ULL): {
    goto L6;
  }
  case ((u32)5ULL): {
    goto L7;
  }
  case ((u32)6ULL): {
    goto L8;
  }
  case ((u32)7ULL): {
    goto L9;
  }
  case ((u32)8ULL): {
    goto L10;
  }
  default: {
    goto L11;
  }
  }
L2: ;
  _ZN14Case_reserved3ILj0EE3runEv();
  if (v_exc) return;
  goto L11;
L3: ;
  _ZN14Case_reserved3ILj1EE3runEv();
  if (v_exc) return;
  goto L11;
L4: ;
  _ZN14Case_reserved3ILj2EE3runEv();
  if (v_exc) return;
  goto L11;
L5: ;
  _ZN14Case_reserved3ILj3EE3runEv();
  if (v_exc) return;
  goto L11;
L6: ;
  _ZN14Case_reserved3ILj4EE3runEv();
  if (v_exc) return;
  goto L11;
L7: ;
  _ZN14Case_reserved3ILj5EE3runEv();
  if (v_exc) return;
  goto L11;
L8: ;
  _ZN14Case_reserved3ILj6EE3runEv();
  if (v_exc) return;
  goto L11;
L9: ;
  _ZN14Case_reserved3ILj7EE3runEv();
  if (v_exc) return;
  goto L11;
L10: ;
  _ZN14Case_reserved3ILj8EE3runEv();
  if (v_exc) return;
  goto L11;
L11: ;
  return;
L12: ;
  v7 = v_nondet_u8();
  if (v_exc) return;
  v8 = (u8*)(&(*(&_ZL5g_raw)).e[(s64)((s64)v6)]);
  (*(&_ZL5g_raw)).e[(s64)((s64)v6)] = v7;
  v9 = ((u64)(v6 + ((u64)1ULL)));
  v10 = (v9 == ((u64)8ULL));
  if (v10) {
    goto L1;
  } else {
    v6 = v9;
    goto L12;
  }
}

void _ZN14Case_reserved3ILj0EE3runEv(void) {
  u32 v0;
  u32 v1;
  u1 v2;
L0: ;
  v0 = v_param(((u32)0ULL));
  if (v_exc) return;
  v1 = ((u32)(v0 * ((u32)9ULL)));
  v2 = (v1 < ((u32)9ULL));
  if (v2) {
    goto L1;
  } else {
    goto L2;
  }
L1: ;
  _ZL14body_reserved3j(v1);
  if (v_exc) return;
  goto L2;
L2: ;
  return;
}

void _ZN14Case_reserved3ILj1EE3runEv(void) {
  u32 v0;
  u32 v1;
  u32 v2;
  u1 v3;
L0: ;
  v0 = v_param(((u32)0ULL));
  if (v_exc) return;
  v1 = ((u32)(v0 * ((u32)9ULL)));
  v2 = ((u32)(v1 + ((u32)1ULL)));
  v3 = (v2 < ((u32)9ULL));
  if (v3) {
    goto L1;
  } else {
    goto L2;
  }
L1: ;
  _ZL14body_reserved3j(v2);
  if (v_exc) return;
  goto L2;
L2: ;
  return;
}

void _ZN14Case_reserved3ILj2EE3runEv(void) {
  u32 v0;
  u32 v1;
  u32 v2;
  u1 v3;
L0: ;
  v0 = v_param(((u32)0ULL));
  if (v_exc) return;
  v1 = ((u32)(v0 * ((u32)9ULL)));
  v2 = ((u32)(v1 + ((u32)2ULL)));
  v3 = (v2 < ((u32)9ULL));
  if (v3) {
    goto L1;
  } else {
    goto L2;
  }
L1: ;
  _ZL14body_reserved3j(v2);
  if (v_exc) return;
  goto L2;
L2: ;
  return;
}

void _ZN14Case_reserved3ILj3EE3runEv(void) {
  u32 v0;
  u32 v1;
  u32 v2;
  u1 v3;
L0: ;
  v0 = v_param(((u32)0ULL));
  if (v_exc) return;
  v1 = ((u32)(v0 * ((u32)9ULL)));
  v2 = ((u32)(v1 + ((u32)3ULL)));
  v3 = (v2 < ((u32)9ULL));
  if (v3) {
    goto L1;
  } else {
    goto L2;
  }
L1: ;
  _ZL14body_reserved3j(v2);
  if (v_exc) return;
  goto L2;
L2: ;
  return;
}

void _ZN14Case_reserved3ILj4EE3runEv(void) {
  u32 v0;
  u32 v1;
  u32 v2;
  u1 v3;
L0: ;
  v0 = v_param(((u32)0ULL));
  if (v_exc) return;
  v1 = ((u32)(v0 * ((u32)9ULL)));
  v2 = ((u32)(v1 + ((u32)4ULL)));
  v3 = (v2 < ((u32)9ULL));
  if (v3) {
    goto L1;
  } else {
    goto L2;
  }
L1: ;
  _ZL14body_reserved3j(v2);
  if (v_exc) return;
  goto L2;
L2: ;
  return;
}

void _ZN14Case_reserved3ILj5EE3runEv(void) {
  u32 v0;
  u32 v1;
  u32 v2;
  u1 v3;
L0: ;
  v0 = v_param(((u32)0ULL));
  if (v_exc) return;
  v1 = ((u32)(v0 * ((u32)9ULL)));
  v2 = ((u32)(v1 + ((u32)5ULL)));
  v3 = (v2 < ((u32)9ULL));
  if (v3) {
    goto L1;
  } else {
    goto L2;
  }
L1: ;
  _ZL14body_reserved3j(v2);
  if (v_exc) return;
  goto L2;
L2: ;
  return;
}

void _ZN14Case_reserved3ILj6EE3runEv(void) {
  u32 v0;
  u32 v1;
  u32 v2;
  u1 v3;
L0: ;
  v0 = v_param(((u32)0ULL));
  if (v_exc) return;
  v1 = ((u32)(v0 * ((u32)9ULL)));
  v2 = ((u32)(v1 + ((u32)6ULL)));
  v3 = (v2 < ((u32)9ULL));
  if (v3) {
    goto L1;
  } else {
    goto L2;
  }
L1: ;
  _ZL14body_reserved3j(v2);
  if (v_exc) return;
  goto L2;
L2: ;
  return;
}

void _ZN14Case_reserved3ILj7EE3runEv(void) {
  u32 v0;
  u32 v1;
  u32 v2;
  u1 v3;
L0: ;
  v0 = v_param(((u32)0ULL));
  if (v_exc) return;
  v1 = ((u32)(v0 * ((u32)9ULL)));
  v2 = ((u32)(v1 + ((u32)7ULL)));
  v3 = (v2 < ((u32)9ULL));
  if (v3) {
    goto L1;
  } else {
    goto L2;
  }
L1: ;
  _ZL14body_reserved3j(v2);
  if (v_exc) return;
  goto L2;
L2: ;
  return;
}

void _ZN14Case_reserved3ILj8EE3runEv(void) {
  u32 v0;
  u32 v1;
  u32 v2;
  u1 v3;
L0: ;
  v0 = v_param(((u32)0ULL));
  if (v_exc) return;
  v1 = ((u32)(v0 * ((u32)9ULL)));
  v2 = ((u32)(v1 + ((u32)8ULL)));
  v3 = (v2 < ((u32)9ULL));
  if (v3) {
    goto L1;
  } else {
    goto L2;
  }
L1: ;
  _ZL14body_reserved3j(v2);
  if (v_exc) return;
  goto L2;
L2: ;
  return;
}

void _ZL14body_reserved3j(u32 a0) {
  struct S4_class_OpenVolumeMesh__IO__detail__Decode* v0; struct S4_class_OpenVolumeMesh__IO__detail__Decode v0_m;
  u64 v1;
  u1 v2;
  u8* v3;
  u8* v4; u8* v4_t;
  u8* v5;
  u8* v6;
  u8** v7;
  u8** v8;
  u8** v9;
  u8** v10;
  u8** v11;
  struct S16 v12;
  u8* v13;
  u32 v14;
  u32 v15;
  u1 v16;
  u8* v17;
  u1 v18; u1 v18_t;
  u1 v19; u1 v19_t;
  u1 v20; u1 v20_t;
  u1 v21;
  struct S16 v22;
  struct S16 v23;
  u8 v24;
  u1 v25;
  u1 v26;
  u64 v27; u64 v27_t;
  u8 v28; u8 v28_t;
  u8* v29;
  u8 v30;
  u1 v31;
  u8 v32;
  u64 v33;
  u1 v34;
  u8* v35;
  u8* v36;
  u64 v37;
  u64 v38;
  u64 v39;
  u1 v40;
  struct S16 v41;
  u8* v42;
  u1 v43;
  struct S16 v44; struct S16 v44_t;
  u8* v45;
  u1 v46;
L0: ;
  v0 = &v0_m;
  v1 = ((u64)(a0));
  v2 = (a0 == ((u32)0ULL));
  if (v2) {
    v4 = ((u8*)0);
    goto L2;
  } else {
    goto L1;
  }
L1: ;
  v3 = _Znwm(v1);
  if (v_exc) return;
  v4 = v3;
  goto L2;
L2: ;
  v5 = (u8*)(v4 + (s64)((s64)v1));
  if (v2) {
    goto L4;
  } else {
    goto L3;
  }
L3: ;
  v_memcpy((u8*)v4, (u8*)((u8*)(&(*(&_ZL5g_raw)).e[(s64)((s64)((u64)0ULL))])), (u64)v1);
  goto L4;
L4: ;
  v6 = (u8*)v0;
  v7 = (u8**)(&(*v0).f0.f0.f0.f0.f0);
  *v7 = v4;
  v8 = (u8**)(&(*v0).f0.f0.f0.f0.f1);
  *v8 = v5;
  v9 = (u8**)(&(*v0).f0.f0.f0.f0.f2);
  *v9 = v5;
  v10 = (u8**)(&(*v0).f1);
  *v10 = v4;
  v11 = (u8**)(&(*v0).f2);
  *v11 = v5;
  _ZN14OpenVolumeMesh2IO6detail7Decoder4needEm(v0, ((u64)3ULL));
  if (v_exc) {
    goto L6;
  }
  goto L5;
L5: ;
  _ZN14OpenVolumeMesh2IO6detail7Decoder8reservedILh3EEEvv(v0);
  if (v_exc) {
    goto L6;
  }
  v18_t = ((u1)1ULL);
  v19_t = ((u1)1ULL);
  v20_t = ((u1)0ULL);
  v18 = v18_t;
  v19 = v19_t;
  v20 = v20_t;
  goto L8;
L6: ;
  v12.f0 = v_exc_obj;
  v12.f1 = 0;
  if (v12.f1 == 0 && v_exc_match((u8*)((u8*)(&_ZTIN14OpenVolumeMesh2IO6detail11parse_errorE)))) v12.f1 = 1;
  if (v12.f1 == 0) v12.f1 = 9999;
  if (v12.f1 == 0) return;
  v_exc = 0;
  v13 = v12.f0;
  v14 = v12.f1;
  v15 = 1;
  v16 = (v14 == v15);
  v17 = __cxa_begin_catch(v13);
  if (v16) {
    goto L7;
  } else {
    goto L12;
  }
L7: ;
  __cxa_end_catch();
  if (v_exc) {
    goto L14;
  }
  v18_t = ((u1)1ULL);
  v19_t = ((u1)0ULL);
  v20_t = ((u1)1ULL);
  v18 = v18_t;
  v19 = v19_t;
  v20 = v20_t;
  goto L8;
L8: ;
  __CPROVER_assert(v18, "out != OTHER @/verif/harness/C07_decoder.cpp:155 [_ZL14body_reserved3j]");
  if (v_exc) {
    goto L13;
  }
  goto L9;
L9: ;
  v21 = (a0 < ((u32)3ULL));
  if (v21) {
    goto L10;
  } else {
    v27_t = ((u64)0ULL);
    v28_t = ((u8)1ULL);
    v27 = v27_t;
    v28 = v28_t;
    goto L16;
  }
L10: ;
  __CPROVER_assert(v20, "out == PARSE_ERROR @/verif/harness/C07_decoder.cpp:156 [_ZL14body_reserved3j]");
  if (v_exc) {
    goto L13;
  }
  goto L11;
L11: ;
  __CPROVER_assert(0, "WITNESS:reserved: short -> parse_error [_ZL14body_reserved3j]");
  if (v_exc) {
    goto L13;
  }
  goto L22;
L12: ;
  __cxa_end_catch();
  if (v_exc) {
    goto L13;
  }
  v18_t = ((u1)0ULL);
  v19_t = ((u1)0ULL);
  v20_t = ((u1)0ULL);
  v18 = v18_t;
  v19 = v19_t;
  v20 = v20_t;
  goto L8;
L13: ;
  v22.f0 = v_exc_obj;
  v22.f1 = 0;
  v_exc = 0;
  v44 = v22;
  goto L24;
L14: ;
  v23.f0 = v_exc_obj;
  v23.f1 = 0;
  v_exc = 0;
  v44 = v23;
  goto L24;
L15: ;
  v24 = ((u8)(v32 & ((u8)1ULL)));
  v25 = (v24 == ((u8)0ULL));
  v26 = ((u1)((v19 ^ v25)&1));
  __CPROVER_assert(v26, "(out == OK) == zero @/verif/harness/C07_decoder.cpp:159 [_ZL14body_reserved3j]");
  if (v_exc) {
    goto L20;
  }
  goto L17;
L16: ;
  v29 = (u8*)(&(*(&_ZL5g_raw)).e[(s64)((s64)v27)]);
  v30 = (*(&_ZL5g_raw)).e[(s64)((s64)v27)];
  v31 = (v30 == ((u8)0ULL));
  v32 = (v31 ? v28 : ((u8)0ULL));
  v33 = ((u64)(v27 + ((u64)1ULL)));
  v34 = (v33 == ((u64)3ULL));
  if (v34) {
    goto L15;
  } else {
    v27_t = v33;
    v28_t = v32;
    v27 = v27_t;
    v28 = v28_t;
    goto L16;
  }
L17: ;
  if (v19) {
    goto L18;
  } else {
    goto L21;
  }
L18: ;
  v35 = *v10;
  v36 = *v7;
  v37 = ((u64)((u64)v35));
  v38 = ((u64)((u64)v36));
  v39 = v_pdiff((u8*)v35, (u8*)v36);
  v40 = (v39 == ((u64)3ULL));
  __CPROVER_assert(v40, "dec.pos() == N @/verif/harness/C07_decoder.cpp:160 [_ZL14body_reserved3j]");
  if (v_exc) {
    goto L20;
  }
  goto L19;
L19: ;
  __CPROVER_assert(0, "WITNESS:reserved: zero bytes accepted [_ZL14body_reserved3j]");
  if (v_exc) {
    goto L20;
  }
  goto L22;
L20: ;
  v41.f0 = v_exc_obj;
  v41.f1 = 0;
  v_exc = 0;
  v44 = v41;
  goto L24;
L21: ;
  __CPROVER_assert(0, "WITNESS:reserved: non-zero byte -> parse_error [_ZL14body_reserved3j]");
  if (v_exc) {
    goto L20;
  }
  goto L22;
L22: ;
  v42 = *v7;
  v43 = ((u8*)v42 == (u8*)((u8*)0));
  if (v43) {
    goto L27;
  } else {
    goto L23;
  }
L23: ;
  _ZdlPv(v42);
  goto L27;
L24: ;
  v45 = *v7;
  v46 = ((u8*)v45 == (u8*)((u8*)0));
  if (v46) {
    goto L26;
  } else {
    goto L25;
  }
L25: ;
  _ZdlPv(v45);
  goto L26;
L26: ;
  v_exc = 1; return;
L27: ;
  return;
}

void _ZN14OpenVolumeMesh2IO6detail7Decoder8reservedILh3EEEvv(struct S4_class_OpenVolumeMesh__IO__detail__Decode* a0) {
  struct S17_struct_std__array* v0; struct S17_struct_std__array v0_m;
  struct S5_class_std____cxx11__basic_string* v1; struct S5_class_std____cxx11__basic_string v1_m;
  struct S5_class_std____cxx11__basic_string* v2; struct S5_class_std____cxx11__basic_string v2_m;
  u8* v3;
  u8* v4;
  u1 v5;
  u8* v6; u8* v6_t;
  u8 v7;
  u1 v8;
  u8* v9;
  u8* v10;
  u8* v11;
  u8* v12;
  u8** v13;
  u8* v14;
  u8** v15;
  u8* v16;
  u64 v17;
  u64 v18;
  u64 v19;
  struct S6_class_std__runtime_error* v20;
  fnptr_t** v21;
  struct S16 v22;
  struct S16 v23;
  u1 v24; u1 v24_t;
  struct S16 v25;
  u8** v26;
  u8* v27;
  struct S18_union_anon* v28;
  u8* v29;
  u1 v30;
  struct S16 v31; struct S16 v31_t;
  u1 v32; u1 v32_t;
  u8** v33;
  u8* v34;
  struct S18_union_anon* v35;
  u8* v36;
  u1 v37;
  struct S16 v38; struct S16 v38_t;
  u1 v39; u1 v39_t;
L0: ;
  v0 = &v0_m;
  v1 = &v1_m;
  v2 = &v2_m;
  v3 = (u8*)(&(*v0).f0.e[(s64)((s64)((u64)0ULL))]);
  _ZN14OpenVolumeMesh2IO6detail7Decoder4readEPhm(a0, v3, ((u64)3ULL));
  v4 = (u8*)(&(*v0).f0.e[(s64)((s64)((u64)3ULL))]);
  v6 = v3;
  goto L3;
L1: ;
  v5 = ((u8*)v9 == (u8*)v4);
  if (v5) {
    goto L2;
  } else {
    v6 = v9;
    goto L3;
  }
L2: ;
  return;
L3: ;
  v7 = *v6;
  v8 = (v7 == ((u8)0ULL));
  v9 = (u8*)(v6 + (s64)((s64)((u64)1ULL)));
  if (v8) {
    goto L1;
  } else {
    goto L4;
  }
L4: ;
  v10 = __cxa_allocate_exception(((u64)16ULL));
  v11 = (u8*)v1;
  v12 = (u8*)v2;
  v13 = (u8**)(&(*a0).f1);
  v14 = *v13;
  v15 = (u8**)(&(*a0).f0.f0.f0.f0.f0);
  v16 = *v15;
  v17 = ((u64)((u64)v14));
  v18 = ((u64)((u64)v16));
  v19 = v_pdiff((u8*)v14, (u8*)v16);
  _ZNSt7__cxx119to_stringEm(v2, v19);
  if (v_exc) {
    goto L8;
  }
  goto L5;
L5: ;
  _ZStplIcSt11char_traitsIcESaIcEENSt7__cxx1112basic_stringIT_T0_T1_EEPKS5_OS8_(v1, ((u8*)(&(*(&_str_58)).e[(s64)((s64)((u64)0ULL))])), v2);
  if (v_exc) {
    goto L9;
  }
  goto L6;
L6: ;
  v20 = (struct S6_class_std__runtime_error*)v10;
  _ZNSt13runtime_errorC2ERKNSt7__cxx1112basic_stringIcSt11char_traitsIcESaIcEEE(v20, v1);
  if (v_exc) {
    v24 = ((u1)1ULL);
    goto L10;
  }
  goto L7;
L7: ;
  v21 = (fnptr_t**)v10;
  *v21 = ((fnptr_t*)((u8**)(&(*(&_ZTVN14OpenVolumeMesh2IO6detail11parse_errorE)).f0.e[(s64)((s64)((u64)2ULL))])));
  __cxa_throw(v10, ((u8*)(&_ZTIN14OpenVolumeMesh2IO6detail11parse_errorE)), ((u8*)((fnptr_t)_ZNSt13runtime_errorD2Ev)));
  if (v_exc) {
    v24 = ((u1)0ULL);
    goto L10;
  }
  goto L17;
L8: ;
  v22.f0 = v_exc_obj;
  v22.f1 = 0;
  v_exc = 0;
  v38_t = v22;
  v39_t = ((u1)1ULL);
  v38 = v38_t;
  v39 = v39_t;
  goto L14;
L9: ;
  v23.f0 = v_exc_obj;
  v23.f1 = 0;
  v_exc = 0;
  v31_t = v23;
  v32_t = ((u1)1ULL);
  v31 = v31_t;
  v32 = v32_t;
  goto L12;
L10: ;
  v25.f0 = v_exc_obj;
  v25.f1 = 0;
  v_exc = 0;
  v26 = (u8**)(&(*v1).f0.f0);
  v27 = *v26;
  v28 = (struct S18_union_anon*)(&(*v1).f2);
  v29 = (u8*)v28;
  v30 = ((u8*)v27 == (u8*)v29);
  if (v30) {
    v31_t = v25;
    v32_t = v24;
    v31 = v31_t;
    v32 = v32_t;
    goto L12;
  } else {
    goto L11;
  }
L11: ;
  _ZdlPv(v27);
  v31_t = v25;
  v32_t = v24;
  v31 = v31_t;
  v32 = v32_t;
  goto L12;
L12: ;
  v33 = (u8**)(&(*v2).f0.f0);
  v34 = *v33;
  v35 = (struct S18_union_anon*)(&(*v2).f2);
  v36 = (u8*)v35;
  v37 = ((u8*)v34 == (u8*)v36);
  if (v37) {
    v38_t = v31;
    v39_t = v32;
    v38 = v38_t;
    v39 = v39_t;
    goto L14;
  } else {
    goto L13;
  }
L13: ;
  _ZdlPv(v34);
  v38_t = v31;
  v39_t = v32;
  v38 = v38_t;
  v39 = v39_t;
  goto L14;
L14: ;
  if (v39) {
    goto L15;
  } else {
    goto L16;
  }
L15: ;
  __cxa_free_exception(v10);
  goto L16;
L16: ;
  v_exc = 1; return;
L17: ;
  __CPROVER_assume(0);
}

void _ZNSt7__cxx119to_stringEm(struct S5_class_std____cxx11__basic_string* a0, u64 a1) {
  u1 v0;
  u64 v1; u64 v1_t;
  u32 v2; u32 v2_t;
  u1 v3;
  u32 v4;
  u1 v5;
  u32 v6;
  u1 v7;
  u32 v8;
  u64 v9;
  u32 v10;
  u1 v11;
  u32 v12; u32 v12_t;
  u64 v13;
  struct S18_union_anon* v14;
  struct S18_union_anon** v15;
  u8** v16;
  u8* v17;
  u1 v18;
  u64* v19;
  u64 v20;
  u32 v21;
  u32 v22;
  u64 v23; u64 v23_t;
  u32 v24; u32 v24_t;
  u64 v25;
  u64 v26;
  u64 v27;
  u64 v28;
  u8* v29;
  u8 v30;
  u64 v31;
  u8* v32;
  u8* v33;
  u8 v34;
  u32 v35;
  u64 v36;
  u8* v37;
  u32 v38;
  u1 v39;
  u64 v40; u64 v40_t;
  u1 v41;
  u64 v42;
  u64 v43;
  u8* v44;
  u8 v45;
  u8* v46;
  u8* v47;
  u8 v48;
  u8 v49;
  u8 v50;
  u8 v51; u8 v51_t;
L0: ;
  v0 = (a1 < ((u64)10ULL));
  if (v0) {
    v12 = ((u32)1ULL);
    goto L8;
  } else {
    v1_t = a1;
    v2_t = ((u32)1ULL);
    v1 = v1_t;
    v2 = v2_t;
    goto L1;
  }
L1: ;
  v3 = (v1 < ((u64)100ULL));
  if (v3) {
    goto L2;
  } else {
    goto L3;
  }
L2: ;
  v4 = ((u32)(v2 + ((u32)1ULL)));
  v12 = v4;
  goto L8;
L3: ;
  v5 = (v1 < ((u64)1000ULL));
  if (v5) {
    goto L4;
  } else {
    goto L5;
  }
L4: ;
  v6 = ((u32)(v2 + ((u32)2ULL)));
  v12 = v6;
  goto L8;
L5: ;
  v7 = (v1 < ((u64)10000ULL));
  if (v7) {
    goto L6;
  } else {
    goto L7;
  }
L6: ;
  v8 = ((u32)(v2 + ((u32)3ULL)));
  v12 = v8;
  goto L8;
L7: ;
  v9 = ((u64)(v1 / ((u64)10000ULL)));
  v10 = ((u32)(v2 + ((u32)4ULL)));
  v11 = (v1 < ((u64)100000ULL));
  if (v11) {
    v12 = v10;
    goto L8;
  } else {
    v1_t = v9;
    v2_t = v10;
    v1 = v1_t;
    v2 = v2_t;
    goto L1;
  }
L8: ;
  v13 = ((u64)(v12));
  v14 = (struct S18_union_anon*)(&(*a0).f2);
  v15 = (struct S18_union_anon**)&(*a0).f0.f0;
  *v15 = v14;
  _ZNSt7__cxx1112basic_stringIcSt11char_traitsIcESaIcEE12_M_constructEmc(a0, v13, ((u8)0ULL));
  if (v_exc) return;
  v16 = (u8**)(&(*a0).f0.f0);
  v17 = *v16;
  v18 = (a1 > ((u64)99ULL));
  if (v18) {
    goto L9;
  } else {
    v40 = a1;
    goto L11;
  }
L9: ;
  v19 = (u64*)(&(*a0).f1);
  v20 = *v19;
  v21 = ((u32)(v20));
  v22 = ((u32)(v21 + ((u32)4294967295ULL)));
  v23_t = a1;
  v24_t = v22;
  v23 = v23_t;
  v24 = v24_t;
  goto L10;
L10: ;
  v25 = ((u64)(v23 % ((u64)100ULL)));
  v26 = ((u64)(v25 << ((u64)1ULL)));
  v27 = ((u64)(v23 / ((u64)100ULL)));
  v28 = ((u64)(v26 | ((u64)1ULL)));
  v29 = (u8*)(&(*(&_ZZNSt8__detail18__to_chars_10_implImEEvPcjT_E8__digits)).e[(s64)((s64)v28)]);
  v30 = (*(&_ZZNSt8__detail18__to_chars_10_implImEEvPcjT_E8__digits)).e[(s64)((s64)v28)];
  v31 = ((u64)(v24));
  v32 = (u8*)(v17 + (s64)((s64)v31));
  *v32 = v30;
  v33 = (u8*)(&(*(&_ZZNSt8__detail18__to_chars_10_implImEEvPcjT_E8__digits)).e[(s64)((s64)v26)]);
  v34 = (*(&_ZZNSt8__detail18__to_chars_10_implImEEvPcjT_E8__digits)).e[(s64)((s64)v26)];
  v35 = ((u32)(v24 + ((u32)4294967295ULL)));
  v36 = ((u64)(v35));
  v37 = (u8*)(v17 + (s64)((s64)v36));
  *v37 = v34;
  v38 = ((u32)(v24 + ((u32)4294967294ULL)));
  v39 = (v23 > ((u64)9999ULL));
  if (v39) {
    v23_t = v27;
    v24_t = v38;
    v23 = v23_t;
    v24 = v24_t;
    goto L10;
  } else {
    v40 = v27;
    goto L11;
  }
L11: ;
  v41 = (v40 > ((u64)9ULL));
  if (v41) {
    goto L12;
  } else {
    goto L13;
  }
L12: ;
  v42 = ((u64)(v40 << ((u64)1ULL)));
  v43 = ((u64)(v42 | ((u64)1ULL)));
  v44 = (u8*)(&(*(&_ZZNSt8__detail18__to_chars_10_implImEEvPcjT_E8__digits)).e[(s64)((s64)v43)]);
  v45 = (*(&_ZZNSt8__detail18__to_chars_10_implImEEvPcjT_E8__digits)).e[(s64)((s64)v43)];
  v46 = (u8*)(v17 + (s64)((s64)((u64)1ULL)));
  *v46 = v45;
  v47 = (u8*)(&(*(&_ZZNSt8__detail18__to_chars_10_implImEEvPcjT_E8__digits)).e[(s64)((s64)v42)]);
  v48 = (*(&_ZZNSt8__detail18__to_chars_10_implImEEvPcjT_E8__digits)).e[(s64)((s64)v42)];
  v51 = v48;
  goto L14;
L13: ;
  v49 = ((u8)(v40));
  v50 = ((u8)(v49 + ((u8)48ULL)));
  v51 = v50;
  goto L14;
L14: ;
  *v17 = v51;
  return;
}

void _ZStplIcSt11char_traitsIcESaIcEENSt7__cxx1112basic_stringIT_T0_T1_EEPKS5_OS8_(struct S5_class_std____cxx11__basic_string* a0, u8* a1, struct S5_class_std____cxx11__basic_string* a2) {
  u64 v0;
  struct S5_class_std____cxx11__basic_string* v1;
  struct S18_union_anon* v2;
  u8* v3;
  struct S18_union_anon** v4;
  u8** v5;
  u8* v6;
  struct S18_union_anon* v7;
  u8* v8;
  u1 v9;
  u64* v10;
  u64 v11;
  u64 v12;
  u1 v13;
  u8** v14;
  u64* v15;
  u64 v16;
  u64* v17;
  u64* v18;
  u64 v19;
  u64* v20;
  struct S18_union_anon** v21;
L0: ;
  v0 = strlen(a1);
  v1 = _ZNSt7__cxx1112basic_stringIcSt11char_traitsIcESaIcEE10_M_replaceEmmPKcm(a2, ((u64)0ULL), ((u64)0ULL), a1, v0);
  if (v_exc) return;
  v2 = (struct S18_union_anon*)(&(*a0).f2);
  v3 = (u8*)v2;
  v4 = (struct S18_union_anon**)&(*a0).f0.f0;
  *v4 = v2;
  v5 = (u8**)(&(*v1).f0.f0);
  v6 = *v5;
  v7 = (struct S18_union_anon*)(&(*v1).f2);
  v8 = (u8*)v7;
  v9 = ((u8*)v6 == (u8*)v8);
  if (v9) {
    goto L1;
  } else {
    goto L3;
  }
L1: ;
  v10 = (u64*)(&(*v1).f1);
  v11 = *v10;
  v12 = ((u64)(v11 + ((u64)1ULL)));
  v13 = (v12 == ((u64)0ULL));
  if (v13) {
    goto L4;
  } else {
    goto L2;
  }
L2: ;
  { struct S18_union_anon* _d = v2; struct S18_union_anon* _s = v7; u64 _len = (u64)v12; u64 _n = _len / 16;
    if (_len % 16 == 0) { if (_n) { if (__CPROVER_same_object(_d, _s) && __CPROVER_POINTER_OFFSET(_d) > __CPROVER_POINTER_OFFSET(_s)) { for (u64 _i = _n; _i > 0; --_i) _d[_i-1] = _s[_i-1]; } else { for (u64 _i = 0; _i < _n; ++_i) _d[_i] = _s[_i]; } } }
    else { u8* _bd = (u8*)_d; u8* _bs = (u8*)_s; if (__CPROVER_same_object(_bd, _bs) && __CPROVER_POINTER_OFFSET(_bd) > __CPROVER_POINTER_OFFSET(_bs)) { for (u64 _i = _len; _i > 0; --_i) _bd[_i-1] = _bs[_i-1]; } else { for (u64 _i = 0; _i < _len; ++_i) _bd[_i] = _bs[_i]; } } }
  goto L4;
L3: ;
  v14 = (u8**)(&(*a0).f0.f0);
  *v14 = v6;
  v15 = (u64*)(&(*v1).f2.f0.e[0]);
  v16 = *v15;
  v17 = (u64*)(&(*a0).f2.f0.e[0]);
  *v17 = v16;
  goto L4;
L4: ;
  v18 = (u64*)(&(*v1).f1);
  v19 = *v18;
  v20 = (u64*)(&(*a0).f1);
  *v20 = v19;
  v21 = (struct S18_union_anon**)&(*v1).f0.f0;
  *v21 = v7;
  *v18 = ((u64)0ULL);
  *v8 = ((u8)0ULL);
  return;
}

void _ZN14OpenVolumeMesh2IO6detail11parse_errorD0Ev(struct S7_class_OpenVolumeMesh__IO__detail__parse_* a0) {
  struct S6_class_std__runtime_error* v0;
  u8* v1;
L0: ;
  v0 = (struct S6_class_std__runtime_error*)(&(*a0).f0.f0);
  _ZNSt13runtime_errorD2Ev(v0);
  v1 = (u8*)a0;
  _ZdlPv(v1);
  return;
}

void harness_reserved4(void) {
  v_run_static_init();
  u32 v0;
  u1 v1;
  u32 v2;
  u32 v3;
  u32 v4;
  u1 v5;
  u64 v6; u64 v6_t;
  u8 v7;
  u8* v8;
  u64 v9;
  u1 v10;
L0: ;
  v6 = ((u64)0ULL);
  goto L12;
L1: ;
  v0 = v_nondet_u32();
  if (v_exc) return;
  v1 = (v0 < ((u32)9ULL));
  __CPROVER_assume(v1);
  v2 = v_param(((u32)0ULL));
  if (v_exc) return;
  v3 = ((u32)(v2 * ((u32)9ULL)));
  v4 = ((u32)(v3 + v0));
  v5 = (v4 < ((u32)9ULL));
  __CPROVER_assume(v5);
  switch (v0) {
  case ((u32)0ULL): {
    goto L2;
  }
  case ((u32)1ULL): {
    goto L3;
  }
  case ((u32)2ULL): {
    goto L4;
  }
  case ((u32)3ULL): {
    goto L5;
  }
  case ((u32)4ULL): {
    goto L6;
  }
  case ((u32)5ULL): {
    goto L7;
  }
  case ((u32)6ULL): {
    goto L8;
  }
  case ((u32)7ULL): {
    goto L9;
  }
  case ((u32)8ULL): {
    goto L10;
  }
  default: {
    goto L11;
  }
  }
L2: ;
  _ZN14Case_reserved4ILj0EE3runEv();
  if (v_exc) return;
  goto L11;
L3: ;
  _ZN14Case_reserved4ILj1EE3runEv();
  if (v_exc) return;
  goto L11;
L4: ;
  _ZN14Case_reserved4ILj2EE3runEv();
  if (v_exc) return;
  goto L11;
L5: ;
  _ZN14Case_reserved4ILj3EE3runEv();
  if (v_exc) return;
  goto L11;
L6: ;
  _ZN14Case_reserved4ILj4EE3runEv();
  if (v_exc) return;
  goto L11;
L7: ;
  _ZN14Case_reserved4ILj5EE3runEv();
  if (v_exc) return;
  goto L11;
L8: ;
  _ZN14Case_reserved4ILj6EE3runEv();
  if (v_exc) return;
  goto L11;
L9: ;
  _ZN14Case_reserved4ILj7EE3runEv();
  if (v_exc) return;
  goto L11;
L10: ;
  _ZN14Case_reserved4ILj8EE3runEv();
  if (v_exc) return;
  goto L11;
L11: ;
  return;
L12: ;
  v7 = v_nondet_u8();
  if (v_exc) return;
  v8 = (u8*)(&(*(&_ZL5g_raw)).e[(s64)((s64)v6)]);
  (*(&_ZL5g_raw)).e[(s64)((s64)v6)] = v7;
  v9 = ((u64)(v6 + ((u64)1ULL)));
  v10 = (v9 == ((u64)8ULL));
  if (v10) {
    goto L1;
  } else {
    v6 = v9;
    goto L12;
  }
}

void _ZN14Case_reserved4ILj0EE3runEv(void) {
  u32 v0;
  u32 v1;
  u1 v2;
L0: ;
  v0 = v_param(((u32)0ULL));
  if (v_exc) return;
  v1 = ((u32)(v0 * ((u32)9ULL)));
  v2 = (v1 < ((u32)9ULL));
  if (v2) {
    goto L1;
  } else {
    goto L2;
  }
L1: ;
  _ZL14body_reserved4j(v1);
  if (v_exc) return;
  goto L2;
L2: ;
  return;
}

void _ZN14Case_reserved4ILj1EE3runEv(void) {
  u32 v0;
  u32 v1;
  u32 v2;
  u1 v3;
L0: ;
  v0 = v_param(((u32)0ULL));
  if (v_exc) return;
  v1 = ((u32)(v0 * ((u32)9ULL)));
  v2 = ((u32)(v1 + ((u32)1ULL)));
  v3 = (v2 < ((u32)9ULL));
  if (v3) {
    goto L1;
  } else {
    goto L2;
  }
L1: ;
  _ZL14body_reserved4j(v2);
  if (v_exc) return;
  goto L2;
L2: ;
  return;
}

void _ZN14Case_reserved4ILj2EE3runEv(void) {
  u32 v0;
  u32 v1;
  u32 v2;
  u1 v3;
L0: ;
  v0 = v_param(((u32)0ULL));
  if (v_exc) return;
  v1 = ((u32)(v0 * ((u32)9ULL)));
  v2 = ((u32)(v1 + ((u32)2ULL)));
  v3 = (v2 < ((u32)9ULL));
  if (v3) {
    goto L1;
  } else {
    goto L2;
  }
L1: ;
  _ZL14body_reserved4j(v2);
  if (v_exc) return;
  goto L2;
L2: ;
  return;
}

void _ZN14Case_reserved4ILj3EE3runEv(void) {
  u32 v0;
  u32 v1;
  u32 v2;
  u1 v3;
L0: ;
  v0 = v_param(((u32)0ULL));
  if (v_exc) return;
  v1 = ((u32)(v0 * ((u32)9ULL)));
  v2 = ((u32)(v1 + ((u32)3ULL)));
  v3 = (v2 < ((u32)9ULL));
  if (v3) {
    goto L1;
  } else {
    goto L2;
  }
L1: ;
  _ZL14body_reserved4j(v2);
  if (v_exc) return;
  goto L2;
L2: ;
  return;
}

void _ZN14Case_reserved4ILj4EE3runEv(void) {
  u32 v0;
  u32 v1;
  u32 v2;
  u1 v3;
L0: ;
  v0 = v_param(((u32)0ULL));
  if (v_exc) return;
  v1 = ((u32)(v0 * ((u32)9ULL)));
  v2 = ((u32)(v1 + ((u32)4ULL)));
  v3 = (v2 < ((u32)9ULL));
  if (v3) {
    goto L1;
  } else {
    goto L2;
  }
L1: ;
  _ZL14body_reserved4j(v2);
  if (v_exc) return;
  goto L2;
L2: ;
  return;
}

void _ZN14Case_reserved4ILj5EE3runEv(void) {
  u32 v0;
  u32 v1;
  u32 v2;
  u1 v3;
L0: ;
  v0 = v_param(((u32)0ULL));
  if (v_exc) return;
  v1 = ((u32)(v0 * ((u32)9ULL)));
  v2 = ((u32)(v1 + ((u32)5ULL)));
  v3 = (v2 < ((u32)9ULL));
  if (v3) {
    goto L1;
  } else {
    goto L2;
  }
L1: ;
  _ZL14body_reserved4j(v2);
  if (v_exc) return;
  goto L2;
L2: ;
  return;
}

void _ZN14Case_reserved4ILj6EE3runEv(void) {
  u32 v0;
  u32 v1;
  u32 v2;
  u1 v3;
L0: ;
  v0 = v_param(((u32)0ULL));
  if (v_exc) return;
  v1 = ((u32)(v0 * ((u32)9ULL)));
  v2 = ((u32)(v1 + ((u32)6ULL)));
  v3 = (v2 < ((u32)9ULL));
  if (v3) {
    goto L1;
  } else {
    goto L2;
  }
L1: ;
  _ZL14body_reserved4j(v2);
  if (v_exc) return;
  goto L2;
L2: ;
  return;
}

void _ZN14Case_reserved4ILj7EE3runEv(void) {
  u32 v0;
  u32 v1;
  u32 v2;
  u1 v3;
L0: ;
  v0 = v_param(((u32)0ULL));
  if (v_exc) return;
  v1 = ((u32)(v0 * ((u32)9ULL)));
  v2 = ((u32)(v1 + ((u32)7ULL)));
  v3 = (v2 < ((u32)9ULL));
  if (v3) {
    goto L1;
  } else {
    goto L2;
  }
L1: ;
  _ZL14body_reserved4j(v2);
  if (v_exc) return;
  goto L2;
L2: ;
  return;
}

void _ZN14Case_reserved4ILj8EE3runEv(void) {
  u32 v0;
  u32 v1;
  u32 v2;
  u1 v3;
L0: ;
  v0 = v_param(((u32)0ULL));
  if (v_exc) return;
  v1 = ((u32)(v0 * ((u32)9ULL)));
  v2 = ((u32)(v1 + ((u32)8ULL)));
  v3 = (v2 < ((u32)9ULL));
  if (v3) {
    goto L1;
  } else {
    goto L2;
  }
L1: ;
  _ZL14body_reserved4j(v2);
  if (v_exc) return;
  goto L2;
L2: ;
  return;
}

void _ZL14body_reserved4j(u32 a0) {
  struct S4_class_OpenVolumeMesh__IO__detail__Decode* v0; struct S4_class_OpenVolumeMesh__IO__detail__Decode v0_m;
  u64 v1;
  u1 v2;
  u8* v3;
  u8* v4; u8* v4_t;
  u8* v5;
  u8* v6;
  u8** v7;
  u8** v8;
  u8** v9;
  u8** v10;
  u8** v11;
  struct S16 v12;
  u8* v13;
  u32 v14;
  u32 v15;
  u1 v16;
  u8* v17;
  u1 v18; u1 v18_t;
  u1 v19; u1 v19_t;
  u1 v20; u1 v20_t;
  u1 v21;
  struct S16 v22;
  struct S16 v23;
  u8 v24;
  u1 v25;
  u1 v26;
  u64 v27; u64 v27_t;
  u8 v28; u8 v28_t;
  u8* v29;
  u8 v30;
  u1 v31;
  u8 v32;
  u64 v33;
  u1 v34;
  u8* v35;
  u8* v36;
  u64 v37;
  u64 v38;
  u64 v39;
  u1 v40;
  struct S16 v41;
  u8* v42;
  u1 v43;
  struct S16 v44; struct S16 v44_t;
  u8* v45;
  u1 v46;
L0: ;
  v0 = &v0_m;
  v1 = ((u64)(a0));
  v2 = (a0 == ((u32)0ULL));
  if (v2) {
    v4 = ((u8*)0);
    goto L2;
  } else {
    goto L1;
  }
L1: ;
  v3 = _Znwm(v1);
  if (v_exc) return;
  v4 = v3;
  goto L2;
L2: ;
  v5 = (u8*)(v4 + (s64)((s64)v1));
  if (v2) {
    goto L4;
  } else {
    goto L3;
  }
L3: ;
  v_memcpy((u8*)v4, (u8*)((u8*)(&(*(&_ZL5g_raw)).e[(s64)((s64)((u64)0ULL))])), (u64)v1);
  goto L4;
L4: ;
  v6 = (u8*)v0;
  v7 = (u8**)(&(*v0).f0.f0.f0.f0.f0);
  *v7 = v4;
  v8 = (u8**)(&(*v0).f0.f0.f0.f0.f1);
  *v8 = v5;
  v9 = (u8**)(&(*v0).f0.f0.f0.f0.f2);
  *v9 = v5;
  v10 = (u8**)(&(*v0).f1);
  *v10 = v4;
  v11 = (u8**)(&(*v0).f2);
  *v11 = v5;
  _ZN14OpenVolumeMesh2IO6detail7Decoder4needEm(v0, ((u64)4ULL));
  if (v_exc) {
    goto L6;
  }
  goto L5;
L5: ;
  _ZN14OpenVolumeMesh2IO6detail7Decoder8reservedILh4EEEvv(v0);
  if (v_exc) {
    goto L6;
  }
  v18_t = ((u1)1ULL);
  v19_t = ((u1)1ULL);
  v20_t = ((u1)0ULL);
  v18 = v18_t;
  v19 = v19_t;
  v20 = v20_t;
  goto L8;
L6: ;
  v12.f0 = v_exc_obj;
  v12.f1 = 0;
  if (v12.f1 == 0 && v_exc_match((u8*)((u8*)(&_ZTIN14OpenVolumeMesh2IO6detail11parse_errorE)))) v12.f1 = 1;
  if (v12.f1 == 0) v12.f1 = 9999;
  if (v12.f1 == 0) return;
  v_exc = 0;
  v13 = v12.f0;
  v14 = v12.f1;
  v15 = 1;
  v16 = (v14 == v15);
  v17 = __cxa_begin_catch(v13);
  if (v16) {
    goto L7;
  } else {
    goto L12;
  }
L7: ;
  __cxa_end_catch();
  if (v_exc) {
    goto L14;
  }
  v18_t = ((u1)1ULL);
  v19_t = ((u1)0ULL);
  v20_t = ((u1)1ULL);
  v18 = v18_t;
  v19 = v19_t;
  v20 = v20_t;
  goto L8;
L8: ;
  __CPROVER_assert(v18, "out != OTHER @/verif/harness/C07_decoder.cpp:155 [_ZL14body_reserved4j]");
  if (v_exc) {
    goto L13;
  }
  goto L9;
L9: ;
  v21 = (a0 < ((u32)4ULL));
  if (v21) {
    goto L10;
  } else {
    v27_t = ((u64)0ULL);
    v28_t = ((u8)1ULL);
    v27 = v27_t;
    v28 = v28_t;
    goto L16;
  }
L10: ;
  __CPROVER_assert(v20, "out == PARSE_ERROR @/verif/harness/C07_decoder.cpp:156 [_ZL14body_reserved4j]");
  if (v_exc) {
    goto L13;
  }
  goto L11;
L11: ;
  __CPROVER_assert(0, "WITNESS:reserved: short -> parse_error [_ZL14body_reserved4j]");
  if (v_exc) {
    goto L13;
  }
  goto L22;
L12: ;
  __cxa_end_catch();
  if (v_exc) {
    goto L13;
  }
  v18_t = ((u1)0ULL);
  v19_t = ((u1)0ULL);
  v20_t = ((u1)0ULL);
  v18 = v18_t;
  v19 = v19_t;
  v20 = v20_t;
  goto L8;
L13: ;
  v22.f0 = v_exc_obj;
  v22.f1 = 0;
  v_exc = 0;
  v44 = v22;
  goto L24;
L14: ;
  v23.f0 = v_exc_obj;
  v23.f1 = 0;
  v_exc = 0;
  v44 = v23;
  goto L24;
L15: ;
  v24 = ((u8)(v32 & ((u8)1ULL)));
  v25 = (v24 == ((u8)0ULL));
  v26 = ((u1)((v19 ^ v25)&1));
  __CPROVER_assert(v26, "(out == OK) == zero @/verif/harness/C07_decoder.cpp:159 [_ZL14body_reserved4j]");
  if (v_exc) {
    goto L20;
  }
  goto L17;
L16: ;
  v29 = (u8*)(&(*(&_ZL5g_raw)).e[(s64)((s64)v27)]);
  v30 = (*(&_ZL5g_raw)).e[(s64)((s64)v27)];
  v31 = (v30 == ((u8)0ULL));
  v32 = (v31 ? v28 : ((u8)0ULL));
  v33 = ((u64)(v27 + ((u64)1ULL)));
  v34 = (v33 == ((u64)4ULL));
  if (v34) {
    goto L15;
  } else {
    v27_t = v33;
    v28_t = v32;
    v27 = v27_t;
    v28 = v28_t;
    goto L16;
  }
L17: ;
  if (v19) {
    goto L18;
  } else {
    goto L21;
  }
L18: ;
  v35 = *v10;
  v36 = *v7;
  v37 = ((u64)((u64)v35));
  v38 = ((u64)((u64)v36));
  v39 = v_pdiff((u8*)v35, (u8*)v36);
  v40 = (v39 == ((u64)4ULL));
  __CPROVER_assert(v40, "dec.pos() == N @/verif/harness/C07_decoder.cpp:160 [_ZL14body_reserved4j]");
  if (v_exc) {
    goto L20;
  }
  goto L19;
L19: ;
  __CPROVER_assert(0, "WITNESS:reserved: zero bytes accepted [_ZL14body_reserved4j]");
  if (v_exc) {
    goto L20;
  }
  goto L22;
L20: ;
  v41.f0 = v_exc_obj;
  v41.f1 = 0;
  v_exc = 0;
  v44 = v41;
  goto L24;
L21: ;
  __CPROVER_assert(0, "WITNESS:reserved: non-zero byte -> parse_error [_ZL14body_reserved4j]");
  if (v_exc) {
    goto L20;
  }
  goto L22;
L22: ;
  v42 = *v7;
  v43 = ((u8*)v42 == (u8*)((u8*)0));
  if (v43) {
    goto L27;
  } else {
    goto L23;
  }
L23: ;
  _ZdlPv(v42);
  goto L27;
L24: ;
  v45 = *v7;
  v46 = ((u8*)v45 == (u8*)((u8*)0));
  if (v46) {
    goto L26;
  } else {
    goto L25;
  }
L25: ;
  _ZdlPv(v45);
  goto L26;
L26: ;
  v_exc = 1; return;
L27: ;
  return;
}

void _ZN14OpenVolumeMesh2IO6detail7Decoder8reservedILh4EEEvv(struct S4_class_OpenVolumeMesh__IO__detail__Decode* a0) {
  struct S19_struct_std__array_9* v0; struct S19_struct_std__array_9 v0_m;
  struct S5_class_std____cxx11__basic_string* v1; struct S5_class_std____cxx11__basic_string v1_m;
  struct S5_class_std____cxx11__basic_string* v2; struct S5_class_std____cxx11__basic_string v2_m;
  u8* v3;
  u8* v4;
  u1 v5;
  u8* v6; u8* v6_t;
  u8 v7;
  u1 v8;
  u8* v9;
  u8* v10;
  u8* v11;
  u8* v12;
  u8** v13;
  u8* v14;
  u8** v15;
  u8* v16;
  u64 v17;
  u64 v18;
  u64 v19;
  struct S6_class_std__runtime_error* v20;
  fnptr_t** v21;
  struct S16 v22;
  struct S16 v23;
  u1 v24; u1 v24_t;
  struct S16 v25;
  u8** v26;
  u8* v27;
  struct S18_union_anon* v28;
  u8* v29;
  u1 v30;
  struct S16 v31; struct S16 v31_t;
  u1 v32; u1 v32_t;
  u8** v33;
  u8* v34;
  struct S18_union_anon* v35;
  u8* v36;
  u1 v37;
  struct S16 v38; struct S16 v38_t;
  u1 v39; u1 v39_t;
L0: ;
  v0 = &v0_m;
  v1 = &v1_m;
  v2 = &v2_m;
  v3 = (u8*)(&(*v0).f0.e[(s64)((s64)((u64)0ULL))]);
  _ZN14OpenVolumeMesh2IO6detail7Decoder4readEPhm(a0, v3, ((u64)4ULL));
  v4 = (u8*)(&(*v0).f0.e[(s64)((s64)((u64)4ULL))]);
  v6 = v3;
  goto L3;
L1: ;
  v5 = ((u8*)v9 == (u8*)v4);
  if (v5) {
    goto L2;
  } else {
    v6 = v9;
    goto L3;
  }
L2: ;
  return;
L3: ;
  v7 = *v6;
  v8 = (v7 == ((u8)0ULL));
  v9 = (u8*)(v6 + (s64)((s64)((u64)1ULL)));
  if (v8) {
    goto L1;
  } else {
    goto L4;
  }
L4: ;
  v10 = __cxa_allocate_exception(((u64)16ULL));
  v11 = (u8*)v1;
  v12 = (u8*)v2;
  v13 = (u8**)(&(*a0).f1);
  v14 = *v13;
  v15 = (u8**)(&(*a0).f0.f0.f0.f0.f0);
  v16 = *v15;
  v17 = ((u64)((u64)v14));
  v18 = ((u64)((u64)v16));
  v19 = v_pdiff((u8*)v14, (u8*)v16);
  _ZNSt7__cxx119to_stringEm(v2, v19);
  if (v_exc) {
    goto L8;
  }
  goto L5;
L5: ;
  _ZStplIcSt11char_traitsIcESaIcEENSt7__cxx1112basic_stringIT_T0_T1_EEPKS5_OS8_(v1, ((u8*)(&(*(&_str_58)).e[(s64)((s64)((u64)0ULL))])), v2);
  if (v_exc) {
    goto L9;
  }
  goto L6;
L6: ;
  v20 = (struct S6_class_std__runtime_error*)v10;
  _ZNSt13runtime_errorC2ERKNSt7__cxx1112basic_stringIcSt11char_traitsIcESaIcEEE(v20, v1);
  if (v_exc) {
    v24 = ((u1)1ULL);
    goto L10;
  }
  goto L7;
L7: ;
  v21 = (fnptr_t**)v10;
  *v21 = ((fnptr_t*)((u8**)(&(*(&_ZTVN14OpenVolumeMesh2IO6detail11parse_errorE)).f0.e[(s64)((s64)((u64)2ULL))])));
  __cxa_throw(v10, ((u8*)(&_ZTIN14OpenVolumeMesh2IO6detail11parse_errorE)), ((u8*)((fnptr_t)_ZNSt13runtime_errorD2Ev)));
  if (v_exc) {
    v24 = ((u1)0ULL);
    goto L10;
  }
  goto L17;
L8: ;
  v22.f0 = v_exc_obj;
  v22.f1 = 0;
  v_exc = 0;
  v38_t = v22;
  v39_t = ((u1)1ULL);
  v38 = v38_t;
  v39 = v39_t;
  goto L14;
L9: ;
  v23.f0 = v_exc_obj;
  v23.f1 = 0;
  v_exc = 0;
  v31_t = v23;
  v32_t = ((u1)1ULL);
  v31 = v31_t;
  v32 = v32_t;
  goto L12;
L10: ;
  v25.f0 = v_exc_obj;
  v25.f1 = 0;
  v_exc = 0;
  v26 = (u8**)(&(*v1).f0.f0);
  v27 = *v26;
  v28 = (struct S18_union_anon*)(&(*v1).f2);
  v29 = (u8*)v28;
  v30 = ((u8*)v27 == (u8*)v29);
  if (v30) {
    v31_t = v25;
    v32_t = v24;
    v31 = v31_t;
    v32 = v32_t;
    goto L12;
  } else {
    goto L11;
  }
L11: ;
  _ZdlPv(v27);
  v31_t = v25;
  v32_t = v24;
  v31 = v31_t;
  v32 = v32_t;
  goto L12;
L12: ;
  v33 = (u8**)(&(*v2).f0.f0);
  v34 = *v33;
  v35 = (struct S18_union_anon*)(&(*v2).f2);
  v36 = (u8*)v35;
  v37 = ((u8*)v34 == (u8*)v36);
  if (v37) {
    v38_t = v31;
    v39_t = v32;
    v38 = v38_t;
    v39 = v39_t;
    goto L14;
  } else {
    goto L13;
  }
L13: ;
  _ZdlPv(v34);
  v38_t = v31;
  v39_t = v32;
  v38 = v38_t;
  v39 = v39_t;
  goto L14;
L14: ;
  if (v39) {
    goto L15;
  } else {
    goto L16;
  }
L15: ;
  __cxa_free_exception(v10);
  goto L16;
L16: ;
  v_exc = 1; return;
L17: ;
  __CPROVER_assume(0);
}

void harness_padding(void) {
  v_run_static_init();
  u32 v0;
  u1 v1;
  u32 v2;
  u32 v3;
  u32 v4;
  u1 v5;
  u1 v6;
  u64 v7; u64 v7_t;
  u8 v8;
  u8* v9;
  u64 v10;
  u1 v11;
L0: ;
  v7 = ((u64)0ULL);
  goto L32;
L1: ;
  v0 = v_nondet_u32();
  if (v_exc) return;
  v1 = (v0 < ((u32)25ULL));
  __CPROVER_assume(v1);
  v2 = v_param(((u32)0ULL));
  if (v_exc) return;
  v3 = ((u32)(v2 * ((u32)25ULL)));
  v4 = ((u32)(v3 + v0));
  v5 = (v4 < ((u32)25ULL));
  __CPROVER_assume(v5);
  switch (v0) {
  case ((u32)0ULL): {
    goto L2;
  }
  case ((u32)1ULL): {
    goto L3;
  }
  case ((u32)2ULL): {
    goto L4;
  }
  case ((u32)3ULL): {
    goto L5;
  }
  case ((u32)4ULL): {
    goto L6;
  }
  case ((u32)5ULL): {
    goto L7;
  }
  case ((u32)6ULL): {
    goto L8;
  }
  case ((u32)7ULL): {
    goto L9;
  }
  case ((u32)8ULL): {
    goto L10;
  }
  case ((u32)9ULL): {
    goto L11;
  }
  case ((u32)10ULL): {
    goto L12;
  }
  case ((u32)11ULL): {
    goto L13;
  }
  case ((u32)12ULL): {
    goto L14;
  }
  case ((u32)13ULL): {
    goto L15;
  }
  case ((u32)14ULL): {
    goto L16;
  }
  case ((u32)15ULL): {
    goto L17;
  }
  case ((u32)16ULL): {
    goto L18;
  }
  case ((u32)17ULL): {
    goto L19;
  }
  case ((u32)18ULL): {
    goto L20;
  }
  case ((u32)19ULL): {
    goto L21;
  }
  case ((u32)20ULL): {
    goto L22;
  }
  case ((u32)21ULL): {
    goto L24;
  }
  case ((u32)22ULL): {
    goto L26;
  }
  case ((u32)23ULL): {
    goto L28;
  }
  case ((u32)24ULL): {
    goto L30;
  }
  default: {
    goto L31;
  }
  }
L2: ;
  _ZN12Case_paddingILj0EE3runEv();
  if (v_exc) return;
  goto L31;
L3: ;
  _ZN12Case_paddingILj1EE3runEv();
  if (v_exc) return;
  goto L31;
L4: ;
  _ZN12Case_paddingILj2EE3runEv();
  if (v_exc) return;
  goto L31;
L5: ;
  _ZN12Case_paddingILj3EE3runEv();
  if (v_exc) return;
  goto L31;
L6: ;
  _ZN12Case_paddingILj4EE3runEv();
  if (v_exc) return;
  goto L31;
L7: ;
  _ZN12Case_paddingILj5EE3runEv();
  if (v_exc) return;
  goto L29;
L8: ;
  _ZN12Case_paddingILj6EE3runEv();
  if (v_exc) return;
  goto L27;
L9: ;
  _ZN12Case_paddingILj7EE3runEv();
  if (v_exc) return;
  goto L25;
L10: ;
  _ZN12Case_paddingILj8EE3runEv();
  if (v_exc) return;
  goto L23;
L11: ;
  _ZN12Case_paddingILj9EE3runEv();
  if (v_exc) return;
  goto L23;
L12: ;
  _ZN12Case_paddingILj10EE3runEv();
  if (v_exc) return;
  goto L23;
L13: ;
  _ZN12Case_paddingILj11EE3runEv();
  if (v_exc) return;
  goto L23;
L14: ;
  _ZN12Case_paddingILj12EE3runEv();
  if (v_exc) return;
  goto L25;
L15: ;
  _ZN12Case_paddingILj13EE3runEv();
  if (v_exc) return;
  goto L25;
L16: ;
  _ZN12Case_paddingILj14EE3runEv();
  if (v_exc) return;
  goto L27;
L17: ;
  _ZN12Case_paddingILj15EE3runEv();
  if (v_exc) return;
  goto L27;
L18: ;
  _ZN12Case_paddingILj16EE3runEv();
  if (v_exc) return;
  goto L29;
L19: ;
  _ZN12Case_paddingILj17EE3runEv();
  if (v_exc) return;
  goto L29;
L20: ;
  _ZN12Case_paddingILj18EE3runEv();
  if (v_exc) return;
  goto L31;
L21: ;
  _ZN12Case_paddingILj19EE3runEv();
  if (v_exc) return;
  goto L31;
L22: ;
  _ZN12Case_paddingILj20EE3runEv();
  if (v_exc) return;
  goto L23;
L23: ;
  switch (v0) {
  case ((u32)21ULL): {
    goto L24;
  }
  case ((u32)22ULL): {
    goto L26;
  }
  case ((u32)23ULL): {
    goto L28;
  }
  case ((u32)24ULL): {
    goto L30;
  }
  default: {
    goto L31;
  }
  }
L24: ;
  _ZN12Case_paddingILj21EE3runEv();
  if (v_exc) return;
  goto L25;
L25: ;
  switch (v0) {
  case ((u32)22ULL): {
    goto L26;
  }
  case ((u32)23ULL): {
    goto L28;
  }
  case ((u32)24ULL): {
    goto L30;
  }
  default: {
    goto L31;
  }
  }
L26: ;
  _ZN12Case_paddingILj22EE3runEv();
  if (v_exc) return;
  goto L27;
L27: ;
  switch (v0) {
  case ((u32)23ULL): {
    goto L28;
  }
  case ((u32)24ULL): {
    goto L30;
  }
  default: {
    goto L31;
  }
  }
L28: ;
  _ZN12Case_paddingILj23EE3runEv();
  if (v_exc) return;
  goto L29;
L29: ;
  v6 = (v0 == ((u32)24ULL));
  if (v6) {
    goto L30;
  } else {
    goto L31;
  }
L30: ;
  _ZN12Case_paddingILj24EE3runEv();
  if (v_exc) return;
  goto L31;
L31: ;
  return;
L32: ;
  v8 = v_nondet_u8();
  if (v_exc) return;
  v9 = (u8*)(&(*(&_ZL5g_raw)).e[(s64)((s64)v7)]);
  (*(&_ZL5g_raw)).e[(s64)((s64)v7)] = v8;
  v10 = ((u64)(v7 + ((u64)1ULL)));
  v11 = (v10 == ((u64)24ULL));
  if (v11) {
    goto L1;
  } else {
    v7 = v10;
    goto L32;
  }
}

void _ZN12Case_paddingILj0EE3runEv(void) {
  u32 v0;
  u32 v1;
  u1 v2;
L0: ;
  v0 = v_param(((u32)0ULL));
  if (v_exc) return;
  v1 = ((u32)(v0 * ((u32)25ULL)));
  v2 = (v1 < ((u32)25ULL));
  if (v2) {
    goto L1;
  } else {
    goto L2;
  }
L1: ;
  _ZL12body_paddingj(v1);
  if (v_exc) return;
  goto L2;
L2: ;
  return;
}

void _ZN12Case_paddingILj1EE3runEv(void) {
  u32 v0;
  u32 v1;
  u32 v2;
  u1 v3;
L0: ;
  v0 = v_param(((u32)0ULL));
  if (v_exc) return;
  v1 = ((u32)(v0 * ((u32)25ULL)));
  v2 = ((u32)(v1 + ((u32)1ULL)));
  v3 = (v2 < ((u32)25ULL));
  if (v3) {
    goto L1;
  } else {
    goto L2;
  }
L1: ;
  _ZL12body_paddingj(v2);
  if (v_exc) return;
  goto L2;
L2: ;
  return;
}

void _ZN12Case_paddingILj2EE3runEv(void) {
  u32 v0;
  u32 v1;
  u32 v2;
  u1 v3;
L0: ;
  v0 = v_param(((u32)0ULL));
  if (v_exc) return;
  v1 = ((u32)(v0 * ((u32)25ULL)));
  v2 = ((u32)(v1 + ((u32)2ULL)));
  v3 = (v2 < ((u32)25ULL));
  if (v3) {
    goto L1;
  } else {
    goto L2;
  }
L1: ;
  _ZL12body_paddingj(v2);
  if (v_exc) return;
  goto L2;
L2: ;
  return;
}

void _ZN12Case_paddingILj3EE3runEv(void) {
  u32 v0;
  u32 v1;
  u32 v2;
  u1 v3;
L0: ;
  v0 = v_param(((u32)0ULL));
  if (v_exc) return;
  v1 = ((u32)(v0 * ((u32)25ULL)));
  v2 = ((u32)(v1 + ((u32)3ULL)));
  v3 = (v2 < ((u32)25ULL));
  if (v3) {
    goto L1;
  } else {
    goto L2;
  }
L1: ;
  _ZL12body_paddingj(v2);
  if (v_exc) return;
  goto L2;
L2: ;
  return;
}

void _ZN12Case_paddingILj4EE3runEv(void) {
  u32 v0;
  u32 v1;
  u32 v2;
  u1 v3;
L0: ;
  v0 = v_param(((u32)0ULL));
  if (v_exc) return;
  v1 = ((u32)(v0 * ((u32)25ULL)));
  v2 = ((u32)(v1 + ((u32)4ULL)));
  v3 = (v2 < ((u32)25ULL));
  if (v3) {
    goto L1;
  } else {
    goto L2;
  }
L1: ;
  _ZL12body_paddingj(v2);
  if (v_exc) return;
  goto L2;
L2: ;
  return;
}

void _ZN12Case_paddingILj5EE3runEv(void) {
  u32 v0;
  u32 v1;
  u32 v2;
  u1 v3;
L0: ;
  v0 = v_param(((u32)0ULL));
  if (v_exc) return;
  v1 = ((u32)(v0 * ((u32)25ULL)));
  v2 = ((u32)(v1 + ((u32)5ULL)));
  v3 = (v2 < ((u32)25ULL));
  if (v3) {
    goto L1;
  } else {
    goto L2;
  }
L1: ;
  _ZL12body_paddingj(v2);
  if (v_exc) return;
  goto L2;
L2: ;
  return;
}

void _ZN12Case_paddingILj6EE3runEv(void) {
  u32 v0;
  u32 v1;
  u32 v2;
  u1 v3;
L0: ;
  v0 = v_param(((u32)0ULL));
  if (v_exc) return;
  v1 = ((u32)(v0 * ((u32)25ULL)));
  v2 = ((u32)(v1 + ((u32)6ULL)));
  v3 = (v2 < ((u32)25ULL));
  if (v3) {
    goto L1;
  } else {
    goto L2;
  }
L1: ;
  _ZL12body_paddingj(v2);
  if (v_exc) return;
  goto L2;
L2: ;
  return;
}

void _ZN12Case_paddingILj7EE3runEv(void) {
  u32 v0;
  u32 v1;
  u32 v2;
  u1 v3;
L0: ;
  v0 = v_param(((u32)0ULL));
  if (v_exc) return;
  v1 = ((u32)(v0 * ((u32)25ULL)));
  v2 = ((u32)(v1 + ((u32)7ULL)));
  v3 = (v2 < ((u32)25ULL));
  if (v3) {
    goto L1;
  } else {
    goto L2;
  }
L1: ;
  _ZL12body_paddingj(v2);
  if (v_exc) return;
  goto L2;
L2: ;
  return;
}

void _ZN12Case_paddingILj8EE3runEv(void) {
  u32 v0;
  u32 v1;
  u32 v2;
  u1 v3;
L0: ;
  v0 = v_param(((u32)0ULL));
  if (v_exc) return;
  v1 = ((u32)(v0 * ((u32)25ULL)));
  v2 = ((u32)(v1 + ((u32)8ULL)));
  v3 = (v2 < ((u32)25ULL));
  if (v3) {
    goto L1;
  } else {
    goto L2;
  }
L1: ;
  _ZL12body_paddingj(v2);
  if (v_exc) return;
  goto L2;
L2: ;
  return;
}

void _ZN12Case_paddingILj9EE3runEv(void) {
  u32 v0;
  u32 v1;
  u32 v2;
  u1 v3;
L0: ;
  v0 = v_param(((u32)0ULL));
  if (v_exc) return;
  v1 = ((u32)(v0 * ((u32)25ULL)));
  v2 = ((u32)(v1 + ((u32)9ULL)));
  v3 = (v2 < ((u32)25ULL));
  if (v3) {
    goto L1;
  } else {
    goto L2;
  }
L1: ;
  _ZL12body_paddingj(v2);
  if (v_exc) return;
  goto L2;
L2: ;
  return;
}

void _ZN12Case_paddingILj10EE3runEv(void) {
  u32 v0;
  u32 v1;
  u32 v2;
  u1 v3;
L0: ;
  v0 = v_param(((u32)0ULL));
  if (v_exc) return;
  v1 = ((u32)(v0 * ((u32)25ULL)));
  v2 = ((u32)(v1 + ((u32)10ULL)));
  v3 = (v2 < ((u32)25ULL));
  if (v3) {
    goto L1;
  } else {
    goto L2;
  }
L1: ;
  _ZL12body_paddingj(v2);
  if (v_exc) return;
  goto L2;
L2: ;
  return;
}

void _ZN12Case_paddingILj11EE3runEv(void) {
  u32 v0;
  u32 v1;
  u32 v2;
  u1 v3;
L0: ;
  v0 = v_param(((u32)0ULL));
  if (v_exc) return;
  v1 = ((u32)(v0 * ((u32)25ULL)));
  v2 = ((u32)(v1 + ((u32)11ULL)));
  v3 = (v2 < ((u32)25ULL));
  if (v3) {
    goto L1;
  } else {
    goto L2;
  }
L1: ;
  _ZL12body_paddingj(v2);
  if (v_exc) return;
  goto L2;
L2: ;
  return;
}

void _ZN12Case_paddingILj12EE3runEv(void) {
  u32 v0;
  u32 v1;
  u32 v2;
  u1 v3;
L0: ;
  v0 = v_param(((u32)0ULL));
  if (v_exc) return;
  v1 = ((u32)(v0 * ((u32)25ULL)));
  v2 = ((u32)(v1 + ((u32)12ULL)));
  v3 = (v2 < ((u32)25ULL));
  if (v3) {
    goto L1;
  } else {
    goto L2;
  }
L1: ;
  _ZL12body_paddingj(v2);
  if (v_exc) return;
  goto L2;
L2: ;
  return;
}

void _ZN12Case_paddingILj13EE3runEv(void) {
  u32 v0;
  u32 v1;
  u32 v2;
  u1 v3;
L0: ;
  v0 = v_param(((u32)0ULL));
  if (v_exc) return;
  v1 = ((u32)(v0 * ((u32)25ULL)));
  v2 = ((u32)(v1 + ((u32)13ULL)));
  v3 = (v2 < ((u32)25ULL));
  if (v3) {
    goto L1;
  } else {
    goto L2;
  }
L1: ;
  _ZL12body_paddingj(v2);
  if (v_exc) return;
  goto L2;
L2: ;
  return;
}

void _ZN12Case_paddingILj14EE3runEv(void) {
  u32 v0;
  u32 v1;
  u32 v2;
  u1 v3;
L0: ;
  v0 = v_param(((u32)0ULL));
  if (v_exc) return;
  v1 = ((u32)(v0 * ((u32)25ULL)));
  v2 = ((u32)(v1 + ((u32)14ULL)));
  v3 = (v2 < ((u32)25ULL));
  if (v3) {
    goto L1;
  } else {
    goto L2;
  }
L1: ;
  _ZL12body_paddingj(v2);
  if (v_exc) return;
  goto L2;
L2: ;
  return;
}

void _ZN12Case_paddingILj15EE3runEv(void) {
  u32 v0;
  u32 v1;
  u32 v2;
  u1 v3;
L0: ;
  v0 = v_param(((u32)0ULL));
  if (v_exc) return;
  v1 = ((u32)(v0 * ((u32)25ULL)));
  v2 = ((u32)(v1 + ((u32)15ULL)));
  v3 = (v2 < ((u32)25ULL));
  if (v3) {
    goto L1;
  } else {
    goto L2;
  }
L1: ;
  _ZL12body_paddingj(v2);
  if (v_exc) return;
  goto L2;
L2: ;
  return;
}

void _ZN12Case_paddingILj16EE3runEv(void) {
  u32 v0;
  u32 v1;
  u32 v2;
  u1 v3;
L0: ;
  v0 = v_param(((u32)0ULL));
  if (v_exc) return;
  v1 = ((u32)(v0 * ((u32)25ULL)));
  v2 = ((u32)(v1 + ((u32)16ULL)));
  v3 = (v2 < ((u32)25ULL));
  if (v3) {
    goto L1;
  } else {
    goto L2;
  }
L1: ;
  _ZL12body_paddingj(v2);
  if (v_exc) return;
  goto L2;
L2: ;
  return;
}

void _ZN12Case_paddingILj17EE3runEv(void) {
  u32 v0;
  u32 v1;
  u32 v2;
  u1 v3;
L0: ;
  v0 = v_param(((u32)0ULL));
  if (v_exc) return;
  v1 = ((u32)(v0 * ((u32)25ULL)));
  v2 = ((u32)(v1 + ((u32)17ULL)));
  v3 = (v2 < ((u32)25ULL));
  if (v3) {
    goto L1;
  } else {
    goto L2;
  }
L1: ;
  _ZL12body_paddingj(v2);
  if (v_exc) return;
  goto L2;
L2: ;
  return;
}

void _ZN12Case_paddingILj18EE3runEv(void) {
  u32 v0;
  u32 v1;
  u32 v2;
  u1 v3;
L0: ;
  v0 = v_param(((u32)0ULL));
  if (v_exc) return;
  v1 = ((u32)(v0 * ((u32)25ULL)));
  v2 = ((u32)(v1 + ((u32)18ULL)));
  v3 = (v2 < ((u32)25ULL));
  if (v3) {
    goto L1;
  } else {
    goto L2;
  }
L1: ;
  _ZL12body_paddingj(v2);
  if (v_exc) return;
  goto L2;
L2: ;
  return;
}

void _ZN12Case_paddingILj19EE3runEv(void) {
  u32 v0;
  u32 v1;
  u32 v2;
  u1 v3;
L0: ;
  v0 = v_param(((u32)0ULL));
  if (v_exc) return;
  v1 = ((u32)(v0 * ((u32)25ULL)));
  v2 = ((u32)(v1 + ((u32)19ULL)));
  v3 = (v2 < ((u32)25ULL));
  if (v3) {
    goto L1;
  } else {
    goto L2;
  }
L1: ;
  _ZL12body_paddingj(v2);
  if (v_exc) return;
  goto L2;
L2: ;
  return;
}

void _ZN12Case_paddingILj20EE3runEv(void) {
  u32 v0;
  u32 v1;
  u32 v2;
  u1 v3;
L0: ;
  v0 = v_param(((u32)0ULL));
  if (v_exc) return;
  v1 = ((u32)(v0 * ((u32)25ULL)));
  v2 = ((u32)(v1 + ((u32)20ULL)));
  v3 = (v2 < ((u32)25ULL));
  if (v3) {
    goto L1;
  } else {
    goto L2;
  }
L1: ;
  _ZL12body_paddingj(v2);
  if (v_exc) return;
  goto L2;
L2: ;
  return;
}

void _ZN12Case_paddingILj21EE3runEv(void) {
  u32 v0;
  u32 v1;
  u32 v2;
  u1 v3;
L0: ;
  v0 = v_param(((u32)0ULL));
  if (v_exc) return;
  v1 = ((u32)(v0 * ((u32)25ULL)));
  v2 = ((u32)(v1 + ((u32)21ULL)));
  v3 = (v2 < ((u32)25ULL));
  if (v3) {
    goto L1;
  } else {
    goto L2;
  }
L1: ;
  _ZL12body_paddingj(v2);
  if (v_exc) return;
  goto L2;
L2: ;
  return;
}

void _ZN12Case_paddingILj22EE3runEv(void) {
  u32 v0;
  u32 v1;
  u32 v2;
  u1 v3;
L0: ;
  v0 = v_param(((u32)0ULL));
  if (v_exc) return;
  v1 = ((u32)(v0 * ((u32)25ULL)));
  v2 = ((u32)(v1 + ((u32)22ULL)));
  v3 = (v2 < ((u32)25ULL));
  if (v3) {
    goto L1;
  } else {
    goto L2;
  }
L1: ;
  _ZL12body_paddingj(v2);
  if (v_exc) return;
  goto L2;
L2: ;
  return;
}

void _ZN12Case_paddingILj23EE3runEv(void) {
  u32 v0;
  u32 v1;
  u32 v2;
  u1 v3;
L0: ;
  v0 = v_param(((u32)0ULL));
  if (v_exc) return;
  v1 = ((u32)(v0 * ((u32)25ULL)));
  v2 = ((u32)(v1 + ((u32)23ULL)));
  v3 = (v2 < ((u32)25ULL));
  if (v3) {
    goto L1;
  } else {
    goto L2;
  }
L1: ;
  _ZL12body_paddingj(v2);
  if (v_exc) return;
  goto L2;
L2: ;
  return;
}

void _ZN12Case_paddingILj24EE3runEv(void) {
  u32 v0;
  u32 v1;
  u32 v2;
  u1 v3;
L0: ;
  v0 = v_param(((u32)0ULL));
  if (v_exc) return;
  v1 = ((u32)(v0 * ((u32)25ULL)));
  v2 = ((u32)(v1 + ((u32)24ULL)));
  v3 = (v2 < ((u32)25ULL));
  if (v3) {
    goto L1;
  } else {
    goto L2;
  }
L1: ;
  _ZL12body_paddingj(v2);
  if (v_exc) return;
  goto L2;
L2: ;
  return;
}

void _ZL12body_paddingj(u32 a0) {
  struct S4_class_OpenVolumeMesh__IO__detail__Decode* v0; struct S4_class_OpenVolumeMesh__IO__detail__Decode v0_m;
  u64 v1;
  u1 v2;
  u8* v3;
  u8* v4; u8* v4_t;
  u8* v5;
  u8* v6;
  u8** v7;
  u8** v8;
  u8** v9;
  u8** v10;
  u8** v11;
  u8 v12;
  struct S16 v13;
  u8* v14;
  u32 v15;
  u32 v16;
  u1 v17;
  u8* v18;
  u1 v19; u1 v19_t;
  u1 v20; u1 v20_t;
  u64 v21;
  u8 v22;
  u1 v23;
  u1 v24;
  struct S16 v25;
  struct S16 v26;
  u64 v27; u64 v27_t;
  u8 v28; u8 v28_t;
  u1 v29;
  u8* v30;
  u8 v31;
  u1 v32;
  u8 v33;
  u8 v34; u8 v34_t;
  u64 v35;
  u1 v36;
  u8* v37;
  u8* v38;
  u1 v39;
  struct S16 v40;
  u8* v41;
  u1 v42;
  struct S16 v43; struct S16 v43_t;
  u8* v44;
  u1 v45;
L0: ;
  v0 = &v0_m;
  v1 = ((u64)(a0));
  v2 = (a0 == ((u32)0ULL));
  if (v2) {
    v4 = ((u8*)0);
    goto L2;
  } else {
    goto L1;
  }
L1: ;
  v3 = _Znwm(v1);
  if (v_exc) return;
  v4 = v3;
  goto L2;
L2: ;
  v5 = (u8*)(v4 + (s64)((s64)v1));
  if (v2) {
    goto L4;
  } else {
    goto L3;
  }
L3: ;
  v_memcpy((u8*)v4, (u8*)((u8*)(&(*(&_ZL5g_raw)).e[(s64)((s64)((u64)0ULL))])), (u64)v1);
  goto L4;
L4: ;
  v6 = (u8*)v0;
  v7 = (u8**)(&(*v0).f0.f0.f0.f0.f0);
  *v7 = v4;
  v8 = (u8**)(&(*v0).f0.f0.f0.f0.f1);
  *v8 = v5;
  v9 = (u8**)(&(*v0).f0.f0.f0.f0.f2);
  *v9 = v5;
  v10 = (u8**)(&(*v0).f1);
  *v10 = v4;
  v11 = (u8**)(&(*v0).f2);
  *v11 = v5;
  v12 = ((u8)(a0));
  _ZN14OpenVolumeMesh2IO6detail7Decoder7paddingEh(v0, v12);
  if (v_exc) {
    goto L5;
  }
  v19_t = ((u1)1ULL);
  v20_t = ((u1)1ULL);
  v19 = v19_t;
  v20 = v20_t;
  goto L7;
L5: ;
  v13.f0 = v_exc_obj;
  v13.f1 = 0;
  if (v13.f1 == 0 && v_exc_match((u8*)((u8*)(&_ZTIN14OpenVolumeMesh2IO6detail11parse_errorE)))) v13.f1 = 1;
  if (v13.f1 == 0) v13.f1 = 9999;
  if (v13.f1 == 0) return;
  v_exc = 0;
  v14 = v13.f0;
  v15 = v13.f1;
  v16 = 1;
  v17 = (v15 == v16);
  v18 = __cxa_begin_catch(v14);
  if (v17) {
    goto L6;
  } else {
    goto L10;
  }
L6: ;
  __cxa_end_catch();
  if (v_exc) {
    goto L12;
  }
  v19_t = ((u1)1ULL);
  v20_t = ((u1)0ULL);
  v19 = v19_t;
  v20 = v20_t;
  goto L7;
L7: ;
  __CPROVER_assert(v19, "out != OTHER @/verif/harness/C07_decoder.cpp:172 [_ZL12body_paddingj]");
  if (v_exc) {
    goto L11;
  }
  goto L8;
L8: ;
  v21 = ((u64)(a0));
  v27_t = ((u64)0ULL);
  v28_t = ((u8)1ULL);
  v27 = v27_t;
  v28 = v28_t;
  goto L13;
L9: ;
  v22 = ((u8)(v34 & ((u8)1ULL)));
  v23 = (v22 == ((u8)0ULL));
  v24 = ((u1)((v20 ^ v23)&1));
  __CPROVER_assert(v24, "(out == OK) == zero @/verif/harness/C07_decoder.cpp:175 [_ZL12body_paddingj]");
  if (v_exc) {
    goto L19;
  }
  goto L16;
L10: ;
  __cxa_end_catch();
  if (v_exc) {
    goto L11;
  }
  v19_t = ((u1)0ULL);
  v20_t = ((u1)0ULL);
  v19 = v19_t;
  v20 = v20_t;
  goto L7;
L11: ;
  v25.f0 = v_exc_obj;
  v25.f1 = 0;
  v_exc = 0;
  v43 = v25;
  goto L24;
L12: ;
  v26.f0 = v_exc_obj;
  v26.f1 = 0;
  v_exc = 0;
  v43 = v26;
  goto L24;
L13: ;
  v29 = (v27 < v21);
  if (v29) {
    goto L14;
  } else {
    v34 = v28;
    goto L15;
  }
L14: ;
  v30 = (u8*)(&(*(&_ZL5g_raw)).e[(s64)((s64)v27)]);
  v31 = (*(&_ZL5g_raw)).e[(s64)((s64)v27)];
  v32 = (v31 == ((u8)0ULL));
  v33 = (v32 ? v28 : ((u8)0ULL));
  v34 = v33;
  goto L15;
L15: ;
  v35 = ((u64)(v27 + ((u64)1ULL)));
  v36 = (v35 == ((u64)24ULL));
  if (v36) {
    goto L9;
  } else {
    v27_t = v35;
    v28_t = v34;
    v27 = v27_t;
    v28 = v28_t;
    goto L13;
  }
L16: ;
  if (v20) {
    goto L17;
  } else {
    goto L20;
  }
L17: ;
  v37 = *v10;
  v38 = *v11;
  v39 = ((u8*)v37 == (u8*)v38);
  __CPROVER_assert(v39, "dec.finished() @/verif/harness/C07_decoder.cpp:176 [_ZL12body_paddingj]");
  if (v_exc) {
    goto L19;
  }
  goto L18;
L18: ;
  __CPROVER_assert(0, "WITNESS:padding: zero bytes accepted [_ZL12body_paddingj]");
  if (v_exc) {
    goto L19;
  }
  goto L21;
L19: ;
  v40.f0 = v_exc_obj;
  v40.f1 = 0;
  v_exc = 0;
  v43 = v40;
  goto L24;
L20: ;
  __CPROVER_assert(0, "WITNESS:padding: non-zero byte -> parse_error [_ZL12body_paddingj]");
  if (v_exc) {
    goto L19;
  }
  goto L21;
L21: ;
  v41 = *v7;
  v42 = ((u8*)v41 == (u8*)((u8*)0));
  if (v42) {
    goto L23;
  } else {
    goto L22;
  }
L22: ;
  _ZdlPv(v41);
  goto L23;
L23: ;
  return;
L24: ;
  v44 = *v7;
  v45 = ((u8*)v44 == (u8*)((u8*)0));
  if (v45) {
    goto L26;
  } else {
    goto L25;
  }
L25: ;
  _ZdlPv(v44);
  goto L26;
L26: ;
  v_exc = 1; return;
}

void harness_readvec(void) {
  v_run_static_init();
  u32 v0;
  u1 v1;
  u32 v2;
  u32 v3;
  u32 v4;
  u1 v5;
  u1 v6;
  u64 v7; u64 v7_t;
  u8 v8;
  u8* v9;
  u64 v10;
  u1 v11;
L0: ;
  v7 = ((u64)0ULL);
  goto L32;
L1: ;
  v0 = v_nondet_u32();
  if (v_exc) return;
  v1 = (v0 < ((u32)25ULL));
  __CPROVER_assume(v1);
  v2 = v_param(((u32)0ULL));
  if (v_exc) return;
  v3 = ((u32)(v2 * ((u32)25ULL)));
  v4 = ((u32)(v3 + v0));
  v5 = (v4 < ((u32)25ULL));
  __CPROVER_assume(v5);
  switch (v0) {
  case ((u32)0ULL): {
    goto L2;
  }
  case ((u32)1ULL): {
    goto L3;
  }
  case ((u32)2ULL): {
    goto L4;
  }
  case ((u32)3ULL): {
    goto L5;
  }
  case ((u32)4ULL): {
    goto L6;
  }
  case ((u32)5ULL): {
    goto L7;
  }
  case ((u32)6ULL): {
    goto L8;
  }
  case ((u32)7ULL): {
    goto L9;
  }
  case ((u32)8ULL): {
    goto L10;
  }
  case ((u32)9ULL): {
    goto L11;
  }
  case ((u32)10ULL): {
    goto L12;
  }
  case ((u32)11ULL): {
    goto L13;
  }
  case ((u32)12ULL): {
    goto L14;
  }
  case ((u32)13ULL): {
    goto L15;
  }
  case ((u32)14ULL): {
    goto L16;
  }
  case ((u32)15ULL): {
    goto L17;
  }
  case ((u32)16ULL): {
    goto L18;
  }
  case ((u32)17ULL): {
    goto L19;
  }
  case ((u32)18ULL): {
    goto L20;
  }
  case ((u32)19ULL): {
    goto L21;
  }
  case ((u32)20ULL): {
    goto L22;
  }
  case ((u32)21ULL): {
    goto L24;
  }
  case ((u32)22ULL): {
    goto L26;
  }
  case ((u32)23ULL): {
    goto L28;
  }
  case ((u32)24ULL): {
    goto L30;
  }
  default: {
    goto L31;
  }
  }
L2: ;
  _ZN12Case_readvecILj0EE3runEv();
  if (v_exc) return;
  goto L31;
L3: ;
  _ZN12Case_readvecILj1EE3runEv();
  if (v_exc) return;
  goto L31;
L4: ;
  _ZN12Case_readvecILj2EE3runEv();
  if (v_exc) return;
  goto L31;
L5: ;
  _ZN12Case_readvecILj3EE3runEv();
  if (v_exc) return;
  goto L31;
L6: ;
  _ZN12Case_readvecILj4EE3runEv();
  if (v_exc) return;
  goto L31;
L7: ;
  _ZN12Case_readvecILj5EE3runEv();
  if (v_exc) return;
  goto L29;
L8: ;
  _ZN12Case_readvecILj6EE3runEv();
  if (v_exc) return;
  goto L27;
L9: ;
  _ZN12Case_readvecILj7EE3runEv();
  if (v_exc) return;
  goto L25;
L10: ;
  _ZN12Case_readvecILj8EE3runEv();
  if (v_exc) return;
  goto L23;
L11: ;
  _ZN12Case_readvecILj9EE3runEv();
  if (v_exc) return;
  goto L23;
L12: ;
  _ZN12Case_readvecILj10EE3runEv();
  if (v_exc) return;
  goto L23;
L13: ;
  _ZN12Case_readvecILj11EE3runEv();
  if (v_exc) return;
  goto L23;
L14: ;
  _ZN12Case_readvecILj12EE3runEv();
  if (v_exc) return;
  goto L25;
L15: ;
  _ZN12Case_readvecILj13EE3runEv();
  if (v_exc) return;
  goto L25;
L16: ;
  _ZN12Case_readvecILj14EE3runEv();
  if (v_exc) return;
  goto L27;
L17: ;
  _ZN12Case_readvecILj15EE3runEv();
  if (v_exc) return;
  goto L27;
L18: ;
  _ZN12Case_readvecILj16EE3runEv();
  if (v_exc) return;
  goto L29;
L19: ;
  _ZN12Case_readvecILj17EE3runEv();
  if (v_exc) return;
  goto L29;
L20: ;
  _ZN12Case_readvecILj18EE3runEv();
  if (v_exc) return;
  goto L31;
L21: ;
  _ZN12Case_readvecILj19EE3runEv();
  if (v_exc) return;
  goto L31;
L22: ;
  _ZN12Case_readvecILj20EE3runEv();
  if (v_exc) return;
  goto L23;
L23: ;
  switch (v0) {
  case ((u32)21ULL): {
    goto L24;
  }
  case ((u32)22ULL): {
    goto L26;
  }
  case ((u32)23ULL): {
    goto L28;
  }
  case ((u32)24ULL): {
    goto L30;
  }
  default: {
    goto L31;
  }
  }
L24: ;
  _ZN12Case_readvecILj21EE3runEv();
  if (v_exc) return;
  goto L25;
L25: ;
  switch (v0) {
  case ((u32)22ULL): {
    goto L26;
  }
  case ((u32)23ULL): {
    goto L28;
  }
  case ((u32)24ULL): {
    goto L30;
  }
  default: {
    goto L31;
  }
  }
L26: ;
  _ZN12Case_readvecILj22EE3runEv();
  if (v_exc) return;
  goto L27;
L27: ;
  switch (v0) {
  case ((u32)23ULL): {
    goto L28;
  }
  case ((u32)24ULL): {
    goto L30;
  }
  default: {
    goto L31;
  }
  }
L28: ;
  _ZN12Case_readvecILj23EE3runEv();
  if (v_exc) return;
  goto L29;
L29: ;
  v6 = (v0 == ((u32)24ULL));
  if (v6) {
    goto L30;
  } else {
    goto L31;
  }
L30: ;
  _ZN12Case_readvecILj24EE3runEv();
  if (v_exc) return;
  goto L31;
L31: ;
  return;
L32: ;
  v8 = v_nondet_u8();
  if (v_exc) return;
  v9 = (u8*)(&(*(&_ZL5g_raw)).e[(s64)((s64)v7)]);
  (*(&_ZL5g_raw)).e[(s64)((s64)v7)] = v8;
  v10 = ((u64)(v7 + ((u64)1ULL)));
  v11 = (v10 == ((u64)24ULL));
  if (v11) {
    goto L1;
  } else {
    v7 = v10;
    goto L32;
  }
}

void _ZN12Case_readvecILj0EE3runEv(void) {
  u32 v0;
  u32 v1;
  u1 v2;
L0: ;
  v0 = v_param(((u32)0ULL));
  if (v_exc) return;
  v1 = ((u32)(v0 * ((u32)25ULL)));
  v2 = (v1 < ((u32)25ULL));
  if (v2) {
    goto L1;
  } else {
    goto L2;
  }
L1: ;
  _ZL12body_readvecj(v1);
  if (v_exc) return;
  goto L2;
L2: ;
  return;
}

void _ZN12Case_readvecILj1EE3runEv(void) {
  u32 v0;
  u32 v1;
  u32 v2;
  u1 v3;
L0: ;
  v0 = v_param(((u32)0ULL));
  if (v_exc) return;
  v1 = ((u32)(v0 * ((u32)25ULL)));
  v2 = ((u32)(v1 + ((u32)1ULL)));
  v3 = (v2 < ((u32)25ULL));
  if (v3) {
    goto L1;
  } else {
    goto L2;
  }
L1: ;
  _ZL12body_readvecj(v2);
  if (v_exc) return;
  goto L2;
L2: ;
  return;
}

void _ZN12Case_readvecILj2EE3runEv(void) {
  u32 v0;
  u32 v1;
  u32 v2;
  u1 v3;
L0: ;
  v0 = v_param(((u32)0ULL));
  if (v_exc) return;
  v1 = ((u32)(v0 * ((u32)25ULL)));
  v2 = ((u32)(v1 + ((u32)2ULL)));
  v3 = (v2 < ((u32)25ULL));
  if (v3) {
    goto L1;
  } else {
    goto L2;
  }
L1: ;
  _ZL12body_readvecj(v2);
  if (v_exc) return;
  goto L2;
L2: ;
  return;
}

void _ZN12Case_readvecILj3EE3runEv(void) {
  u32 v0;
  u32 v1;
  u32 v2;
  u1 v3;
L0: ;
  v0 = v_param(((u32)0ULL));
  if (v_exc) return;
  v1 = ((u32)(v0 * ((u32)25ULL)));
  v2 = ((u32)(v1 + ((u32)3ULL)));
  v3 = (v2 < ((u32)25ULL));
  if (v3) {
    goto L1;
  } else {
    goto L2;
  }
L1: ;
  _ZL12body_readvecj(v2);
  if (v_exc) return;
  goto L2;
L2: ;
  return;
}

void _ZN12Case_readvecILj4EE3runEv(void) {
  u32 v0;
  u32 v1;
  u32 v2;
  u1 v3;
L0: ;
  v0 = v_param(((u32)0ULL));
  if (v_exc) return;
  v1 = ((u32)(v0 * ((u32)25ULL)));
  v2 = ((u32)(v1 + ((u32)4ULL)));
  v3 = (v2 < ((u32)25ULL));
  if (v3) {
    goto L1;
  } else {
    goto L2;
  }
L1: ;
  _ZL12body_readvecj(v2);
  if (v_exc) return;
  goto L2;
L2: ;
  return;
}

void _ZN12Case_readvecILj5EE3runEv(void) {
  u32 v0;
  u32 v1;
  u32 v2;
  u1 v3;
L0: ;
  v0 = v_param(((u32)0ULL));
  if (v_exc) return;
  v1 = ((u32)(v0 * ((u32)25ULL)));
  v2 = ((u32)(v1 + ((u32)5ULL)));
  v3 = (v2 < ((u32)25ULL));
  if (v3) {
    goto L1;
  } else {
    goto L2;
  }
L1: ;
  _ZL12body_readvecj(v2);
  if (v_exc) return;
  goto L2;
L2: ;
  return;
}

void _ZN12Case_readvecILj6EE3runEv(void) {
  u32 v0;
  u32 v1;
  u32 v2;
  u1 v3;
L0: ;
  v0 = v_param(((u32)0ULL));
  if (v_exc) return;
  v1 = ((u32)(v0 * ((u32)25ULL)));
  v2 = ((u32)(v1 + ((u32)6ULL)));
  v3 = (v2 < ((u32)25ULL));
  if (v3) {
    goto L1;
  } else {
    goto L2;
  }
L1: ;
  _ZL12body_readvecj(v2);
  if (v_exc) return;
  goto L2;
L2: ;
  return;
}

void _ZN12Case_readvecILj7EE3runEv(void) {
  u32 v0;
  u32 v1;
  u32 v2;
  u1 v3;
L0: ;
  v0 = v_param(((u32)0ULL));
  if (v_exc) return;
  v1 = ((u32)(v0 * ((u32)25ULL)));
  v2 = ((u32)(v1 + ((u32)7ULL)));
  v3 = (v2 < ((u32)25ULL));
  if (v3) {
    goto L1;
  } else {
    goto L2;
  }
L1: ;
  _ZL12body_readvecj(v2);
  if (v_exc) return;
  goto L2;
L2: ;
  return;
}

void _ZN12Case_readvecILj8EE3runEv(void) {
  u32 v0;
  u32 v1;
  u32 v2;
  u1 v3;
L0: ;
  v0 = v_param(((u32)0ULL));
  if (v_exc) return;
  v1 = ((u32)(v0 * ((u32)25ULL)));
  v2 = ((u32)(v1 + ((u32)8ULL)));
  v3 = (v2 < ((u32)25ULL));
  if (v3) {
    goto L1;
  } else {
    goto L2;
  }
L1: ;
  _ZL12body_readvecj(v2);
  if (v_exc) return;
  goto L2;
L2: ;
  return;
}

void _ZN12Case_readvecILj9EE3runEv(void) {
  u32 v0;
  u32 v1;
  u32 v2;
  u1 v3;
L0: ;
  v0 = v_param(((u32)0ULL));
  if (v_exc) return;
  v1 = ((u32)(v0 * ((u32)25ULL)));
  v2 = ((u32)(v1 + ((u32)9ULL)));
  v3 = (v2 < ((u32)25ULL));
  if (v3) {
    goto L1;
  } else {
    goto L2;
  }
L1: ;
  _ZL12body_readvecj(v2);
  if (v_exc) return;
  goto L2;
L2: ;
  return;
}

void _ZN12Case_readvecILj10EE3runEv(void) {
  u32 v0;
  u32 v1;
  u32 v2;
  u1 v3;
L0: ;
  v0 = v_param(((u32)0ULL));
  if (v_exc) return;
  v1 = ((u32)(v0 * ((u32)25ULL)));
  v2 = ((u32)(v1 + ((u32)10ULL)));
  v3 = (v2 < ((u32)25ULL));
  if (v3) {
    goto L1;
  } else {
    goto L2;
  }
L1: ;
  _ZL12body_readvecj(v2);
  if (v_exc) return;
  goto L2;
L2: ;
  return;
}

void _ZN12Case_readvecILj11EE3runEv(void) {
  u32 v0;
  u32 v1;
  u32 v2;
  u1 v3;
L0: ;
  v0 = v_param(((u32)0ULL));
  if (v_exc) return;
  v1 = ((u32)(v0 * ((u32)25ULL)));
  v2 = ((u32)(v1 + ((u32)11ULL)));
  v3 = (v2 < ((u32)25ULL));
  if (v3) {
    goto L1;
  } else {
    goto L2;
  }
L1: ;
  _ZL12body_readvecj(v2);
  if (v_exc) return;
  goto L2;
L2: ;
  return;
}

void _ZN12Case_readvecILj12EE3runEv(void) {
  u32 v0;
  u32 v1;
  u32 v2;
  u1 v3;
L0: ;
  v0 = v_param(((u32)0ULL));
  if (v_exc) return;
  v1 = ((u32)(v0 * ((u32)25ULL)));
  v2 = ((u32)(v1 + ((u32)12ULL)));
  v3 = (v2 < ((u32)25ULL));
  if (v3) {
    goto L1;
  } else {
    goto L2;
  }
L1: ;
  _ZL12body_readvecj(v2);
  if (v_exc) return;
  goto L2;
L2: ;
  return;
}

void _ZN12Case_readvecILj13EE3runEv(void) {
  u32 v0;
  u32 v1;
  u32 v2;
  u1 v3;
L0: ;
  v0 = v_param(((u32)0ULL));
  if (v_exc) return;
  v1 = ((u32)(v0 * ((u32)25ULL)));
  v2 = ((u32)(v1 + ((u32)13ULL)));
  v3 = (v2 < ((u32)25ULL));
  if (v3) {
    goto L1;
  } else {
    goto L2;
  }
L1: ;
  _ZL12body_readvecj(v2);
  if (v_exc) return;
  goto L2;
L2: ;
  return;
}

void _ZN12Case_readvecILj14EE3runEv(void) {
  u32 v0;
  u32 v1;
  u32 v2;
  u1 v3;
L0: ;
  v0 = v_param(((u32)0ULL));
  if (v_exc) return;
  v1 = ((u32)(v0 * ((u32)25ULL)));
  v2 = ((u32)(v1 + ((u32)14ULL)));
  v3 = (v2 < ((u32)25ULL));
  if (v3) {
    goto L1;
  } else {
    goto L2;
  }
L1: ;
  _ZL12body_readvecj(v2);
  if (v_exc) return;
  goto L2;
L2: ;
  return;
}

void _ZN12Case_readvecILj15EE3runEv(void) {
  u32 v0;
  u32 v1;
  u32 v2;
  u1 v3;
L0: ;
  v0 = v_param(((u32)0ULL));
  if (v_exc) return;
  v1 = ((u32)(v0 * ((u32)25ULL)));
  v2 = ((u32)(v1 + ((u32)15ULL)));
  v3 = (v2 < ((u32)25ULL));
  if (v3) {
    goto L1;
  } else {
    goto L2;
  }
L1: ;
  _ZL12body_readvecj(v2);
  if (v_exc) return;
  goto L2;
L2: ;
  return;
}

void _ZN12Case_readvecILj16EE3runEv(void) {
  u32 v0;
  u32 v1;
  u32 v2;
  u1 v3;
L0: ;
  v0 = v_param(((u32)0ULL));
  if (v_exc) return;
  v1 = ((u32)(v0 * ((u32)25ULL)));
  v2 = ((u32)(v1 + ((u32)16ULL)));
  v3 = (v2 < ((u32)25ULL));
  if (v3) {
    goto L1;
  } else {
    goto L2;
  }
L1: ;
  _ZL12body_readvecj(v2);
  if (v_exc) return;
  goto L2;
L2: ;
  return;
}

void _ZN12Case_readvecILj17EE3runEv(void) {
  u32 v0;
  u32 v1;
  u32 v2;
  u1 v3;
L0: ;
  v0 = v_param(((u32)0ULL));
  if (v_exc) return;
  v1 = ((u32)(v0 * ((u32)25ULL)));
  v2 = ((u32)(v1 + ((u32)17ULL)));
  v3 = (v2 < ((u32)25ULL));
  if (v3) {
    goto L1;
  } else {
    goto L2;
  }
L1: ;
  _ZL12body_readvecj(v2);
  if (v_exc) return;
  goto L2;
L2: ;
  return;
}

void _ZN12Case_readvecILj18EE3runEv(void) {
  u32 v0;
  u32 v1;
  u32 v2;
  u1 v3;
L0: ;
  v0 = v_param(((u32)0ULL));
  if (v_exc) return;
  v1 = ((u32)(v0 * ((u32)25ULL)));
  v2 = ((u32)(v1 + ((u32)18ULL)));
  v3 = (v2 < ((u32)25ULL));
  if (v3) {
    goto L1;
  } else {
    goto L2;
  }
L1: ;
  _ZL12body_readvecj(v2);
  if (v_exc) return;
  goto L2;
L2: ;
  return;
}

void _ZN12Case_readvecILj19EE3runEv(void) {
  u32 v0;
  u32 v1;
  u32 v2;
  u1 v3;
L0: ;
  v0 = v_param(((u32)0ULL));
  if (v_exc) return;
  v1 = ((u32)(v0 * ((u32)25ULL)));
  v2 = ((u32)(v1 + ((u32)19ULL)));
  v3 = (v2 < ((u32)25ULL));
  if (v3) {
    goto L1;
  } else {
    goto L2;
  }
L1: ;
  _ZL12body_readvecj(v2);
  if (v_exc) return;
  goto L2;
L2: ;
  return;
}

void _ZN12Case_readvecILj20EE3runEv(void) {
  u32 v0;
  u32 v1;
  u32 v2;
  u1 v3;
L0: ;
  v0 = v_param(((u32)0ULL));
  if (v_exc) return;
  v1 = ((u32)(v0 * ((u32)25ULL)));
  v2 = ((u32)(v1 + ((u32)20ULL)));
  v3 = (v2 < ((u32)25ULL));
  if (v3) {
    goto L1;
  } else {
    goto L2;
  }
L1: ;
  _ZL12body_readvecj(v2);
  if (v_exc) return;
  goto L2;
L2: ;
  return;
}

void _ZN12Case_readvecILj21EE3runEv(void) {
  u32 v0;
  u32 v1;
  u32 v2;
  u1 v3;
L0: ;
  v0 = v_param(((u32)0ULL));
  if (v_exc) return;
  v1 = ((u32)(v0 * ((u32)25ULL)));
  v2 = ((u32)(v1 + ((u32)21ULL)));
  v3 = (v2 < ((u32)25ULL));
  if (v3) {
    goto L1;
  } else {
    goto L2;
  }
L1: ;
  _ZL12body_readvecj(v2);
  if (v_exc) return;
  goto L2;
L2: ;
  return;
}

void _ZN12Case_readvecILj22EE3runEv(void) {
  u32 v0;
  u32 v1;
  u32 v2;
  u1 v3;
L0: ;
  v0 = v_param(((u32)0ULL));
  if (v_exc) return;
  v1 = ((u32)(v0 * ((u32)25ULL)));
  v2 = ((u32)(v1 + ((u32)22ULL)));
  v3 = (v2 < ((u32)25ULL));
  if (v3) {
    goto L1;
  } else {
    goto L2;
  }
L1: ;
  _ZL12body_readvecj(v2);
  if (v_exc) return;
  goto L2;
L2: ;
  return;
}

void _ZN12Case_readvecILj23EE3runEv(void) {
  u32 v0;
  u32 v1;
  u32 v2;
  u1 v3;
L0: ;
  v0 = v_param(((u32)0ULL));
  if (v_exc) return;
  v1 = ((u32)(v0 * ((u32)25ULL)));
  v2 = ((u32)(v1 + ((u32)23ULL)));
  v3 = (v2 < ((u32)25ULL));
  if (v3) {
    goto L1;
  } else {
    goto L2;
  }
L1: ;
  _ZL12body_readvecj(v2);
  if (v_exc) return;
  goto L2;
L2: ;
  return;
}

void _ZN12Case_readvecILj24EE3runEv(void) {
  u32 v0;
  u32 v1;
  u32 v2;
  u1 v3;
L0: ;
  v0 = v_param(((u32)0ULL));
  if (v_exc) return;
  v1 = ((u32)(v0 * ((u32)25ULL)));
  v2 = ((u32)(v1 + ((u32)24ULL)));
  v3 = (v2 < ((u32)25ULL));
  if (v3) {
    goto L1;
  } else {
    goto L2;
  }
L1: ;
  _ZL12body_readvecj(v2);
  if (v_exc) return;
  goto L2;
L2: ;
  return;
}

void _ZL12body_readvecj(u32 a0) {
  struct S4_class_OpenVolumeMesh__IO__detail__Decode* v0; struct S4_class_OpenVolumeMesh__IO__detail__Decode v0_m;
  struct S8_class_std__vector* v1; struct S8_class_std__vector v1_m;
  u64 v2;
  u1 v3;
  u8* v4;
  u8* v5; u8* v5_t;
  u8* v6;
  u8* v7;
  u8** v8;
  u8** v9;
  u8** v10;
  u8** v11;
  u8** v12;
  u8* v13;
  u32 v14;
  u64 v15;
  u8** v16;
  u8* v17;
  u8** v18;
  u8* v19;
  u64 v20;
  u64 v21;
  u64 v22;
  u1 v23;
  u64 v24;
  u1 v25;
  u8* v26;
  u1 v27;
  u8* v28;
  struct S16 v29;
  u8* v30;
  u32 v31;
  u32 v32;
  u1 v33;
  u8* v34;
  u1 v35; u1 v35_t;
  u1 v36; u1 v36_t;
  u1 v37; u1 v37_t;
  u1 v38;
  struct S16 v39;
  struct S16 v40;
  u64 v41; u64 v41_t;
  u64 v42; u64 v42_t;
  u1 v43;
  u8* v44;
  u8 v45;
  u64 v46;
  u64 v47;
  u64 v48;
  u64 v49;
  u64 v50; u64 v50_t;
  u64 v51;
  u1 v52;
  u32 v53;
  u64 v54;
  u1 v55;
  struct S16 v56;
  u8** v57;
  u8* v58;
  u8** v59;
  u8* v60;
  u64 v61;
  u64 v62;
  u64 v63;
  u1 v64;
  u8* v65;
  u8* v66;
  u64 v67;
  u64 v68;
  u64 v69;
  u64 v70;
  u1 v71;
  u1 v72; u1 v72_t;
  u32 v73;
  u1 v74;
  u64 v75;
  u1 v76;
  u8** v77;
  u8* v78;
  u8* v79;
  u8 v80;
  u32 v81;
  u64 v82;
  u8* v83;
  u8 v84;
  u1 v85;
  struct S16 v86;
  u8** v87;
  u8* v88;
  u1 v89;
  u8* v90;
  u1 v91;
  struct S16 v92; struct S16 v92_t;
  u8** v93;
  u8* v94;
  u1 v95;
  u8* v96;
  u1 v97;
L0: ;
  v0 = &v0_m;
  v1 = &v1_m;
  v2 = ((u64)(a0));
  v3 = (a0 == ((u32)0ULL));
  if (v3) {
    v5 = ((u8*)0);
    goto L2;
  } else {
    goto L1;
  }
L1: ;
  v4 = _Znwm(v2);
  if (v_exc) return;
  v5 = v4;
  goto L2;
L2: ;
  v6 = (u8*)(v5 + (s64)((s64)v2));
  if (v3) {
    goto L4;
  } else {
    goto L3;
  }
L3: ;
  v_memcpy((u8*)v5, (u8*)((u8*)(&(*(&_ZL5g_raw)).e[(s64)((s64)((u64)0ULL))])), (u64)v2);
  goto L4;
L4: ;
  v7 = (u8*)v0;
  v8 = (u8**)(&(*v0).f0.f0.f0.f0.f0);
  *v8 = v5;
  v9 = (u8**)(&(*v0).f0.f0.f0.f0.f1);
  *v9 = v6;
  v10 = (u8**)(&(*v0).f0.f0.f0.f0.f2);
  *v10 = v6;
  v11 = (u8**)(&(*v0).f1);
  *v11 = v5;
  v12 = (u8**)(&(*v0).f2);
  *v12 = v6;
  v13 = (u8*)v1;
  (*v1).f0.f0.f0.f0 = (u8*)0;
  (*v1).f0.f0.f0.f1 = (u8*)0;
  (*v1).f0.f0.f0.f2 = (u8*)0;
  _ZN14OpenVolumeMesh2IO6detail7Decoder4needEm(v0, ((u64)4ULL));
  if (v_exc) {
    goto L13;
  }
  goto L5;
L5: ;
  v14 = _ZN14OpenVolumeMesh2IO6detail7Decoder3u32Ev(v0);
  if (v_exc) {
    goto L13;
  }
  goto L6;
L6: ;
  v15 = ((u64)(v14));
  _ZN14OpenVolumeMesh2IO6detail7Decoder4needEm(v0, v15);
  if (v_exc) {
    goto L13;
  }
  goto L7;
L7: ;
  v16 = (u8**)(&(*v1).f0.f0.f0.f1);
  v17 = *v16;
  v18 = (u8**)(&(*v1).f0.f0.f0.f0);
  v19 = *v18;
  v20 = ((u64)((u64)v17));
  v21 = ((u64)((u64)v19));
  v22 = v_pdiff((u8*)v17, (u8*)v19);
  v23 = (v22 < v15);
  if (v23) {
    goto L8;
  } else {
    goto L9;
  }
L8: ;
  v24 = ((u64)(v15 - v22));
  _ZNSt6vectorIhSaIhEE17_M_default_appendEm(v1, v24);
  if (v_exc) {
    goto L13;
  }
  goto L12;
L9: ;
  v25 = (v22 > v15);
  if (v25) {
    goto L10;
  } else {
    goto L12;
  }
L10: ;
  v26 = (u8*)(v19 + (s64)((s64)v15));
  v27 = ((u8*)v17 == (u8*)v26);
  if (v27) {
    goto L12;
  } else {
    goto L11;
  }
L11: ;
  *v16 = v26;
  goto L12;
L12: ;
  v28 = *v18;
  _ZN14OpenVolumeMesh2IO6detail7Decoder4readEPhm(v0, v28, v15);
  if (v_exc) {
    goto L13;
  }
  v35_t = ((u1)1ULL);
  v36_t = ((u1)1ULL);
  v37_t = ((u1)0ULL);
  v35 = v35_t;
  v36 = v36_t;
  v37 = v37_t;
  goto L15;
L13: ;
  v29.f0 = v_exc_obj;
  v29.f1 = 0;
  if (v29.f1 == 0 && v_exc_match((u8*)((u8*)(&_ZTIN14OpenVolumeMesh2IO6detail11parse_errorE)))) v29.f1 = 1;
  if (v29.f1 == 0) v29.f1 = 9999;
  if (v29.f1 == 0) return;
  v_exc = 0;
  v30 = v29.f0;
  v31 = v29.f1;
  v32 = 1;
  v33 = (v31 == v32);
  v34 = __cxa_begin_catch(v30);
  if (v33) {
    goto L14;
  } else {
    goto L19;
  }
L14: ;
  __cxa_end_catch();
  if (v_exc) {
    goto L21;
  }
  v35_t = ((u1)1ULL);
  v36_t = ((u1)0ULL);
  v37_t = ((u1)1ULL);
  v35 = v35_t;
  v36 = v36_t;
  v37 = v37_t;
  goto L15;
L15: ;
  __CPROVER_assert(v35, "out != OTHER @/verif/harness/C07_decoder.cpp:185 [_ZL12body_readvecj]");
  if (v_exc) {
    goto L20;
  }
  goto L16;
L16: ;
  v38 = (a0 < ((u32)4ULL));
  if (v38) {
    goto L17;
  } else {
    v41_t = ((u64)0ULL);
    v42_t = ((u64)0ULL);
    v41 = v41_t;
    v42 = v42_t;
    goto L22;
  }
L17: ;
  __CPROVER_assert(v37, "out == PARSE_ERROR @/verif/harness/C07_decoder.cpp:186 [_ZL12body_readvecj]");
  if (v_exc) {
    goto L20;
  }
  goto L18;
L18: ;
  __CPROVER_assert(0, "WITNESS:readVec: no room for length -> parse_error [_ZL12body_readvecj]");
  if (v_exc) {
    goto L20;
  }
  goto L39;
L19: ;
  __cxa_end_catch();
  if (v_exc) {
    goto L20;
  }
  v35_t = ((u1)0ULL);
  v36_t = ((u1)0ULL);
  v37_t = ((u1)0ULL);
  v35 = v35_t;
  v36 = v36_t;
  v37 = v37_t;
  goto L15;
L20: ;
  v39.f0 = v_exc_obj;
  v39.f1 = 0;
  v_exc = 0;
  v92 = v39;
  goto L44;
L21: ;
  v40.f0 = v_exc_obj;
  v40.f1 = 0;
  v_exc = 0;
  v92 = v40;
  goto L44;
L22: ;
  v43 = (v41 < ((u64)4ULL));
  if (v43) {
    goto L23;
  } else {
    v50 = v42;
    goto L24;
  }
L23: ;
  v44 = (u8*)(&(*(&_ZL5g_raw)).e[(s64)((s64)v41)]);
  v45 = (*(&_ZL5g_raw)).e[(s64)((s64)v41)];
  v46 = ((u64)(v45));
  v47 = ((u64)(v41 << ((u64)3ULL)));
  v48 = ((u64)(v46 << v47));
  v49 = ((u64)(v48 | v42));
  v50 = v49;
  goto L24;
L24: ;
  v51 = ((u64)(v41 + ((u64)1ULL)));
  v52 = (v51 == ((u64)8ULL));
  if (v52) {
    goto L25;
  } else {
    v41_t = v51;
    v42_t = v50;
    v41 = v41_t;
    v42 = v42_t;
    goto L22;
  }
L25: ;
  v53 = ((u32)(a0 + ((u32)4294967292ULL)));
  v54 = ((u64)(v53));
  v55 = (v50 > v54);
  if (v55) {
    goto L26;
  } else {
    goto L29;
  }
L26: ;
  __CPROVER_assert(v37, "out == PARSE_ERROR @/verif/harness/C07_decoder.cpp:188 [_ZL12body_readvecj]");
  if (v_exc) {
    goto L28;
  }
  goto L27;
L27: ;
  __CPROVER_assert(0, "WITNESS:readVec: declared length beyond buffer -> parse_error [_ZL12body_readvecj]");
  if (v_exc) {
    goto L28;
  }
  goto L39;
L28: ;
  v56.f0 = v_exc_obj;
  v56.f1 = 0;
  v_exc = 0;
  v92 = v56;
  goto L44;
L29: ;
  if (v36) {
    goto L30;
  } else {
    v72 = ((u1)0ULL);
    goto L32;
  }
L30: ;
  v57 = (u8**)(&(*v1).f0.f0.f0.f1);
  v58 = *v57;
  v59 = (u8**)(&(*v1).f0.f0.f0.f0);
  v60 = *v59;
  v61 = ((u64)((u64)v58));
  v62 = ((u64)((u64)v60));
  v63 = v_pdiff((u8*)v58, (u8*)v60);
  v64 = (v63 == v50);
  if (v64) {
    goto L31;
  } else {
    v72 = ((u1)0ULL);
    goto L32;
  }
L31: ;
  v65 = *v11;
  v66 = *v8;
  v67 = ((u64)((u64)v65));
  v68 = ((u64)((u64)v66));
  v69 = v_pdiff((u8*)v65, (u8*)v66);
  v70 = ((u64)(v50 + ((u64)4ULL)));
  v71 = (v69 == v70);
  v72 = v71;
  goto L32;
L32: ;
  __CPROVER_assert(v72, "out == OK && v.size() == n && dec.pos() == 4 + n @/verif/harness/C07_decoder.cpp:189 [_ZL12body_readvecj]");
  if (v_exc) {
    goto L28;
  }
  goto L33;
L33: ;
  v73 = v_nondet_u32();
  if (v_exc) {
    goto L37;
  }
  goto L34;
L34: ;
  v74 = (v73 < ((u32)24ULL));
  __CPROVER_assume(v74);
  if (v_exc) {
    goto L37;
  }
  goto L35;
L35: ;
  v75 = ((u64)(v73));
  v76 = (v50 > v75);
  if (v76) {
    goto L36;
  } else {
    goto L38;
  }
L36: ;
  v77 = (u8**)(&(*v1).f0.f0.f0.f0);
  v78 = *v77;
  v79 = (u8*)(v78 + (s64)((s64)v75));
  v80 = *v79;
  v81 = ((u32)(v73 + ((u32)4ULL)));
  v82 = ((u64)(v81));
  v83 = (u8*)(&(*(&_ZL5g_raw)).e[(s64)((s64)v82)]);
  v84 = (*(&_ZL5g_raw)).e[(s64)((s64)v82)];
  v85 = (v80 == v84);
  __CPROVER_assert(v85, "v[k] == bytes[4 + k] @/verif/harness/C07_decoder.cpp:191 [_ZL12body_readvecj]");
  if (v_exc) {
    goto L37;
  }
  goto L38;
L37: ;
  v86.f0 = v_exc_obj;
  v86.f1 = 0;
  v_exc = 0;
  v92 = v86;
  goto L44;
L38: ;
  __CPROVER_assert(0, "WITNESS:readVec: accepted [_ZL12body_readvecj]");
  if (v_exc) {
    goto L37;
  }
  goto L39;
L39: ;
  v87 = (u8**)(&(*v1).f0.f0.f0.f0);
  v88 = *v87;
  v89 = ((u8*)v88 == (u8*)((u8*)0));
  if (v89) {
    goto L41;
  } else {
    goto L40;
  }
L40: ;
  _ZdlPv(v88);
  goto L41;
L41: ;
  v90 = *v8;
  v91 = ((u8*)v90 == (u8*)((u8*)0));
  if (v91) {
    goto L43;
  } else {
    goto L42;
  }
L42: ;
  _ZdlPv(v90);
  goto L43;
L43: ;
  return;
L44: ;
  v93 = (u8**)(&(*v1).f0.f0.f0.f0);
  v94 = *v93;
  v95 = ((u8*)v94 == (u8*)((u8*)0));
  if (v95) {
    goto L46;
  } else {
    goto L45;
  }
L45: ;
  _ZdlPv(v94);
  goto L46;
L46: ;
  v96 = *v8;
  v97 = ((u8*)v96 == (u8*)((u8*)0));
  if (v97) {
    goto L48;
  } else {
    goto L47;
  }
L47: ;
  _ZdlPv(v96);
  goto L48;
L48: ;
  v_exc = 1; return;
}

void _ZNSt6vectorIhSaIhEE17_M_default_appendEm(struct S8_class_std__vector* a0, u64 a1) {
  u1 v0;
  u8** v1;
  u8* v2;
  u8** v3;
  u8* v4;
  u64 v5;
  u64 v6;
  u64 v7;
  u8** v8;
  u8* v9;
  u64 v10;
  u64 v11;
  u1 v12;
  u64 v13;
  u1 v14;
  u1 v15;
  u8* v16;
  u64 v17;
  u1 v18;
  u8* v19;
  u8* v20; u8* v20_t;
  u1 v21;
  u1 v22;
  u64 v23;
  u64 v24;
  u1 v25;
  u1 v26;
  u1 v27;
  u64 v28;
  u1 v29;
  u1 v30;
  u8* v31;
  u8* v32; u8* v32_t;
  u8* v33;
  u64 v34;
  u1 v35;
  u8* v36;
  u1 v37;
  u1 v38;
  u8* v39;
  u8* v40;
L0: ;
  v0 = (a1 == ((u64)0ULL));
  if (v0) {
    goto L18;
  } else {
    goto L1;
  }
L1: ;
  v1 = (u8**)(&(*a0).f0.f0.f0.f1);
  v2 = *v1;
  v3 = (u8**)(&(*a0).f0.f0.f0.f0);
  v4 = *v3;
  v5 = ((u64)((u64)v2));
  v6 = ((u64)((u64)v4));
  v7 = v_pdiff((u8*)v2, (u8*)v4);
  v8 = (u8**)(&(*a0).f0.f0.f0.f2);
  v9 = *v8;
  v10 = ((u64)((u64)v9));
  v11 = v_pdiff((u8*)v9, (u8*)v2);
  v12 = (((s64)v7) > ((s64)((u64)18446744073709551615ULL)));
  v13 = ((u64)(v7 ^ ((u64)9223372036854775807ULL)));
  v14 = (v11 <= v13);
  v15 = (v11 < a1);
  if (v15) {
    goto L5;
  } else {
    goto L2;
  }
L2: ;
  *v2 = ((u8)0ULL);
  v16 = (u8*)(v2 + (s64)((s64)((u64)1ULL)));
  v17 = ((u64)(a1 + ((u64)18446744073709551615ULL)));
  v18 = (v17 == ((u64)0ULL));
  if (v18) {
    v20 = v16;
    goto L4;
  } else {
    goto L3;
  }
L3: ;
  v19 = (u8*)(v2 + (s64)((s64)a1));
  v_memset((u8*)v16, ((u8)0ULL), (u64)v17);
  v20 = v19;
  goto L4;
L4: ;
  *v1 = v20;
  goto L18;
L5: ;
  v21 = (v13 < a1);
  if (v21) {
    goto L6;
  } else {
    goto L7;
  }
L6: ;
  _ZSt20__throw_length_errorPKc(((u8*)(&(*(&_str_74)).e[(s64)((s64)((u64)0ULL))])));
  if (v_exc) return;
  __CPROVER_assume(0);
L7: ;
  v22 = (v7 < a1);
  v23 = (v22 ? a1 : v7);
  v24 = ((u64)(v23 + v7));
  v25 = (v24 < v7);
  v26 = (((s64)v24) < ((s64)((u64)0ULL)));
  v27 = ((u1)((v25 | v26)&1));
  v28 = (v27 ? ((u64)9223372036854775807ULL) : v24);
  v29 = (v28 == ((u64)0ULL));
  if (v29) {
    v32 = ((u8*)0);
    goto L11;
  } else {
    goto L8;
  }
L8: ;
  v30 = (((s64)v28) < ((s64)((u64)0ULL)));
  if (v30) {
    goto L9;
  } else {
    goto L10;
  }
L9: ;
  _ZSt17__throw_bad_allocv();
  if (v_exc) return;
  __CPROVER_assume(0);
L10: ;
  v31 = _Znwm(v28);
  if (v_exc) return;
  v32 = v31;
  goto L11;
L11: ;
  v33 = (u8*)(v32 + (s64)((s64)v7));
  *v33 = ((u8)0ULL);
  v34 = ((u64)(a1 + ((u64)18446744073709551615ULL)));
  v35 = (v34 == ((u64)0ULL));
  if (v35) {
    goto L13;
  } else {
    goto L12;
  }
L12: ;
  v36 = (u8*)(v33 + (s64)((s64)((u64)1ULL)));
  v_memset((u8*)v36, ((u8)0ULL), (u64)v34);
  goto L13;
L13: ;
  v37 = (((s64)v7) > ((s64)((u64)0ULL)));
  if (v37) {
    goto L14;
  } else {
    goto L15;
  }
L14: ;
  v_memmove((u8*)v32, (u8*)v4, (u64)v7);
  goto L15;
L15: ;
  v38 = ((u8*)v4 == (u8*)((u8*)0));
  if (v38) {
    goto L17;
  } else {
    goto L16;
  }
L16: ;
  _ZdlPv(v4);
  goto L17;
L17: ;
  *v3 = v32;
  v39 = (u8*)(v33 + (s64)((s64)a1));
  *v1 = v39;
  v40 = (u8*)(v32 + (s64)((s64)v28));
  *v8 = v40;
  goto L18;
L18: ;
  return;
}

void harness_string_after_need(void) {
  v_run_static_init();
  u32 v0;
  u1 v1;
  u32 v2;
  u32 v3;
  u32 v4;
  u1 v5;
  u1 v6;
  u64 v7; u64 v7_t;
  u8 v8;
  u8* v9;
  u64 v10;
  u1 v11;
L0: ;
  v7 = ((u64)0ULL);
  goto L32;
L1: ;
  v0 = v_nondet_u32();
  if (v_exc) return;
  v1 = (v0 < ((u32)25ULL));
  __CPROVER_assume(v1);
  v2 = v_param(((u32)0ULL));
  if (v_exc) return;
  v3 = ((u32)(v2 * ((u32)25ULL)));
  v4 = ((u32)(v3 + v0));
  v5 = (v4 < ((u32)25ULL));
  __CPROVER_assume(v5);
  switch (v0) {
  case ((u32)0ULL): {
    goto L2;
  }
  case ((u32)1ULL): {
    goto L3;
  }
  case ((u32)2ULL): {
    goto L4;
  }
  case ((u32)3ULL): {
    goto L5;
  }
  case ((u32)4ULL): {
    goto L6;
  }
  case ((u32)5ULL): {
    goto L7;
  }
  case ((u32)6ULL): {
    goto L8;
  }
  case ((u32)7ULL): {
    goto L9;
  }
  case ((u32)8ULL): {
    goto L10;
  }
  case ((u32)9ULL): {
    goto L11;
  }
  case ((u32)10ULL): {
    goto L12;
  }
  case ((u32)11ULL): {
    goto L13;
  }
  case ((u32)12ULL): {
    goto L14;
  }
  case ((u32)13ULL): {
    goto L15;
  }
  case ((u32)14ULL): {
    goto L16;
  }
  case ((u32)15ULL): {
    goto L17;
  }
  case ((u32)16ULL): {
    goto L18;
  }
  case ((u32)17ULL): {
    goto L19;
  }
  case ((u32)18ULL): {
    goto L20;
  }
  case ((u32)19ULL): {
    goto L21;
  }
  case ((u32)20ULL): {
    goto L22;
  }
  case ((u32)21ULL): {
    goto L24;
  }
  case ((u32)22ULL): {
    goto L26;
  }
  case ((u32)23ULL): {
    goto L28;
  }
  case ((u32)24ULL): {
    goto L30;
  }
  default: {
    goto L31;
  }
  }
L2: ;
  _ZN22Case_string_after_needILj0EE3runEv();
  if (v_exc) return;
  goto L31;
L3: ;
  _ZN22Case_string_after_needILj1EE3runEv();
  if (v_exc) return;
  goto L31;
L4: ;
  _ZN22Case_string_after_needILj2EE3runEv();
  if (v_exc) return;
  goto L31;
L5: ;
  _ZN22Case_string_after_needILj3EE3runEv();
  if (v_exc) return;
  goto L31;
L6: ;
  _ZN22Case_string_after_needILj4EE3runEv();
  if (v_exc) return;
  goto L31;
L7: ;
  _ZN22Case_string_after_needILj5EE3runEv();
  if (v_exc) return;
  goto L29;
L8: ;
  _ZN22Case_string_after_needILj6EE3runEv();
  if (v_exc) return;
  goto L27;
L9: ;
  _ZN22Case_string_after_needILj7EE3runEv();
  if (v_exc) return;
  goto L25;
L10: ;
  _ZN22Case_string_after_needILj8EE3runEv();
  if (v_exc) return;
  goto L23;
L11: ;
  _ZN22Case_string_after_needILj9EE3runEv();
  if (v_exc) return;
  goto L23;
L12: ;
  _ZN22Case_string_after_needILj10EE3runEv();
  if (v_exc) return;
  goto L23;
L13: ;
  _ZN22Case_string_after_needILj11EE3runEv();
  if (v_exc) return;
  goto L23;
L14: ;
  _ZN22Case_string_after_needILj12EE3runEv();
  if (v_exc) return;
  goto L25;
L15: ;
  _ZN22Case_string_after_needILj13EE3runEv();
  if (v_exc) return;
  goto L25;
L16: ;
  _ZN22Case_string_after_needILj14EE3runEv();
  if (v_exc) return;
  goto L27;
L17: ;
  _ZN22Case_string_after_needILj15EE3runEv();
  if (v_exc) return;
  goto L27;
L18: ;
  _ZN22Case_string_after_needILj16EE3runEv();
  if (v_exc) return;
  goto L29;
L19: ;
  _ZN22Case_string_after_needILj17EE3runEv();
  if (v_exc) return;
  goto L29;
L20: ;
  _ZN22Case_string_after_needILj18EE3runEv();
  if (v_exc) return;
  goto L31;
L21: ;
  _ZN22Case_string_after_needILj19EE3runEv();
  if (v_exc) return;
  goto L31;
L22: ;
  _ZN22Case_string_after_needILj20EE3runEv();
  if (v_exc) return;
  goto L23;
L23: ;
  switch (v0) {
  case ((u32)21ULL): {
    goto L24;
  }
  case ((u32)22ULL): {
    goto L26;
  }
  case ((u32)23ULL): {
    goto L28;
  }
  case ((u32)24ULL): {
    goto L30;
  }
  default: {
    goto L31;
  }
  }
L24: ;
  _ZN22Case_string_after_needILj21EE3runEv();
  if (v_exc) return;
  goto L25;
L25: ;
  switch (v0) {
  case ((u32)22ULL): {
    goto L26;
  }
  case ((u32)23ULL): {
    goto L28;
  }
  case ((u32)24ULL): {
    goto L30;
  }
  default: {
    goto L31;
  }
  }
L26: ;
  _ZN22Case_string_after_needILj22EE3runEv();
  if (v_exc) return;
  goto L27;
L27: ;
  switch (v0) {
  case ((u32)23ULL): {
    goto L28;
  }
  case ((u32)24ULL): {
    goto L30;
  }
  default: {
    goto L31;
  }
  }
L28: ;
  _ZN22Case_string_after_needILj23EE3runEv();
  if (v_exc) return;
  goto L29;
L29: ;
  v6 = (v0 == ((u32)24ULL));
  if (v6) {
    goto L30;
  } else {
    goto L31;
  }
L30: ;
  _ZN22Case_string_after_needILj24EE3runEv();
  if (v_exc) return;
  goto L31;
L31: ;
  return;
L32: ;
  v8 = v_nondet_u8();
  if (v_exc) return;
  v9 = (u8*)(&(*(&_ZL5g_raw)).e[(s64)((s64)v7)]);
  (*(&_ZL5g_raw)).e[(s64)((s64)v7)] = v8;
  v10 = ((u64)(v7 + ((u64)1ULL)));
  v11 = (v10 == ((u64)24ULL));
  if (v11) {
    goto L1;
  } else {
    v7 = v10;
    goto L32;
  }
}

void _ZN22Case_string_after_needILj0EE3runEv(void) {
  u32 v0;
  u32 v1;
  u1 v2;
L0: ;
  v0 = v_param(((u32)0ULL));
  if (v_exc) return;
  v1 = ((u32)(v0 * ((u32)25ULL)));
  v2 = (v1 < ((u32)25ULL));
  if (v2) {
    goto L1;
  } else {
    goto L2;
  }
L1: ;
  _ZL22body_string_after_needj(v1);
  if (v_exc) return;
  goto L2;
L2: ;
  return;
}

void _ZN22Case_string_after_needILj1EE3runEv(void) {
  u32 v0;
  u32 v1;
  u32 v2;
  u1 v3;
L0: ;
  v0 = v_param(((u32)0ULL));
  if (v_exc) return;
  v1 = ((u32)(v0 * ((u32)25ULL)));
  v2 = ((u32)(v1 + ((u32)1ULL)));
  v3 = (v2 < ((u32)25ULL));
  if (v3) {
    goto L1;
  } else {
    goto L2;
  }
L1: ;
  _ZL22body_string_after_needj(v2);
  if (v_exc) return;
  goto L2;
L2: ;
  return;
}

void _ZN22Case_string_after_needILj2EE3runEv(void) {
  u32 v0;
  u32 v1;
  u32 v2;
  u1 v3;
L0: ;
  v0 = v_param(((u32)0ULL));
  if (v_exc) return;
  v1 = ((u32)(v0 * ((u32)25ULL)));
  v2 = ((u32)(v1 + ((u32)2ULL)));
  v3 = (v2 < ((u32)25ULL));
  if (v3) {
    goto L1;
  } else {
    goto L2;
  }
L1: ;
  _ZL22body_string_after_needj(v2);
  if (v_exc) return;
  goto L2;
L2: ;
  return;
}

void _ZN22Case_string_after_needILj3EE3runEv(void) {
  u32 v0;
  u32 v1;
  u32 v2;
  u1 v3;
L0: ;
  v0 = v_param(((u32)0ULL));
  if (v_exc) return;
  v1 = ((u32)(v0 * ((u32)25ULL)));
  v2 = ((u32)(v1 + ((u32)3ULL)));
  v3 = (v2 < ((u32)25ULL));
  if (v3) {
    goto L1;
  } else {
    goto L2;
  }
L1: ;
  _ZL22body_string_after_needj(v2);
  if (v_exc) return;
  goto L2;
L2: ;
  return;
}

void _ZN22Case_string_after_needILj4EE3runEv(void) {
  u32 v0;
  u32 v1;
  u32 v2;
  u1 v3;
L0: ;
  v0 = v_param(((u32)0ULL));
  if (v_exc) return;
  v1 = ((u32)(v0 * ((u32)25ULL)));
  v2 = ((u32)(v1 + ((u32)4ULL)));
  v3 = (v2 < ((u32)25ULL));
  if (v3) {
    goto L1;
  } else {
    goto L2;
  }
L1: ;
  _ZL22body_string_after_needj(v2);
  if (v_exc) return;
  goto L2;
L2: ;
  return;
}

void _ZN22Case_string_after_needILj5EE3runEv(void) {
  u32 v0;
  u32 v1;
  u32 v2;
  u1 v3;
L0: ;
  v0 = v_param(((u32)0ULL));
  if (v_exc) return;
  v1 = ((u32)(v0 * ((u32)25ULL)));
  v2 = ((u32)(v1 + ((u32)5ULL)));
  v3 = (v2 < ((u32)25ULL));
  if (v3) {
    goto L1;
  } else {
    goto L2;
  }
L1: ;
  _ZL22body_string_after_needj(v2);
  if (v_exc) return;
  goto L2;
L2: ;
  return;
}

void _ZN22Case_string_after_needILj6EE3runEv(void) {
  u32 v0;
  u32 v1;
  u32 v2;
  u1 v3;
L0: ;
  v0 = v_param(((u32)0ULL));
  if (v_exc) return;
  v1 = ((u32)(v0 * ((u32)25ULL)));
  v2 = ((u32)(v1 + ((u32)6ULL)));
  v3 = (v2 < ((u32)25ULL));
  if (v3) {
    goto L1;
  } else {
    goto L2;
  }
L1: ;
  _ZL22body_string_after_needj(v2);
  if (v_exc) return;
  goto L2;
L2: ;
  return;
}

void _ZN22Case_string_after_needILj7EE3runEv(void) {
  u32 v0;
  u32 v1;
  u32 v2;
  u1 v3;
L0: ;
  v0 = v_param(((u32)0ULL));
  if (v_exc) return;
  v1 = ((u32)(v0 * ((u32)25ULL)));
  v2 = ((u32)(v1 + ((u32)7ULL)));
  v3 = (v2 < ((u32)25ULL));
  if (v3) {
    goto L1;
  } else {
    goto L2;
  }
L1: ;
  _ZL22body_string_after_needj(v2);
  if (v_exc) return;
  goto L2;
L2: ;
  return;
}

void _ZN22Case_string_after_needILj8EE3runEv(void) {
  u32 v0;
  u32 v1;
  u32 v2;
  u1 v3;
L0: ;
  v0 = v_param(((u32)0ULL));
  if (v_exc) return;
  v1 = ((u32)(v0 * ((u32)25ULL)));
  v2 = ((u32)(v1 + ((u32)8ULL)));
  v3 = (v2 < ((u32)25ULL));
  if (v3) {
    goto L1;
  } else {
    goto L2;
  }
L1: ;
  _ZL22body_string_after_needj(v2);
  if (v_exc) return;
  goto L2;
L2: ;
  return;
}

void _ZN22Case_string_after_needILj9EE3runEv(void) {
  u32 v0;
  u32 v1;
  u32 v2;
  u1 v3;
L0: ;
  v0 = v_param(((u32)0ULL));
  if (v_exc) return;
  v1 = ((u32)(v0 * ((u32)25ULL)));
  v2 = ((u32)(v1 + ((u32)9ULL)));
  v3 = (v2 < ((u32)25ULL));
  if (v3) {
    goto L1;
  } else {
    goto L2;
  }
L1: ;
  _ZL22body_string_after_needj(v2);
  if (v_exc) return;
  goto L2;
L2: ;
  return;
}

void _ZN22Case_string_after_needILj10EE3runEv(void) {
  u32 v0;
  u32 v1;
  u32 v2;
  u1 v3;
L0: ;
  v0 = v_param(((u32)0ULL));
  if (v_exc) return;
  v1 = ((u32)(v0 * ((u32)25ULL)));
  v2 = ((u32)(v1 + ((u32)10ULL)));
  v3 = (v2 < ((u32)25ULL));
  if (v3) {
    goto L1;
  } else {
    goto L2;
  }
L1: ;
  _ZL22body_string_after_needj(v2);
  if (v_exc) return;
  goto L2;
L2: ;
  return;
}

void _ZN22Case_string_after_needILj11EE3runEv(void) {
  u32 v0;
  u32 v1;
  u32 v2;
  u1 v3;
L0: ;
  v0 = v_param(((u32)0ULL));
  if (v_exc) return;
  v1 = ((u32)(v0 * ((u32)25ULL)));
  v2 = ((u32)(v1 + ((u32)11ULL)));
  v3 = (v2 < ((u32)25ULL));
  if (v3) {
    goto L1;
  } else {
    goto L2;
  }
L1: ;
  _ZL22body_string_after_needj(v2);
  if (v_exc) return;
  goto L2;
L2: ;
  return;
}

void _ZN22Case_string_after_needILj12EE3runEv(void) {
  u32 v0;
  u32 v1;
  u32 v2;
  u1 v3;
L0: ;
  v0 = v_param(((u32)0ULL));
  if (v_exc) return;
  v1 = ((u32)(v0 * ((u32)25ULL)));
  v2 = ((u32)(v1 + ((u32)12ULL)));
  v3 = (v2 < ((u32)25ULL));
  if (v3) {
    goto L1;
  } else {
    goto L2;
  }
L1: ;
  _ZL22body_string_after_needj(v2);
  if (v_exc) return;
  goto L2;
L2: ;
  return;
}

void _ZN22Case_string_after_needILj13EE3runEv(void) {
  u32 v0;
  u32 v1;
  u32 v2;
  u1 v3;
L0: ;
  v0 = v_param(((u32)0ULL));
  if (v_exc) return;
  v1 = ((u32)(v0 * ((u32)25ULL)));
  v2 = ((u32)(v1 + ((u32)13ULL)));
  v3 = (v2 < ((u32)25ULL));
  if (v3) {
    goto L1;
  } else {
    goto L2;
  }
L1: ;
  _ZL22body_string_after_needj(v2);
  if (v_exc) return;
  goto L2;
L2: ;
  return;
}

void _ZN22Case_string_after_needILj14EE3runEv(void) {
  u32 v0;
  u32 v1;
  u32 v2;
  u1 v3;
L0: ;
  v0 = v_param(((u32)0ULL));
  if (v_exc) return;
  v1 = ((u32)(v0 * ((u32)25ULL)));
  v2 = ((u32)(v1 + ((u32)14ULL)));
  v3 = (v2 < ((u32)25ULL));
  if (v3) {
    goto L1;
  } else {
    goto L2;
  }
L1: ;
  _ZL22body_string_after_needj(v2);
  if (v_exc) return;
  goto L2;
L2: ;
  return;
}

void _ZN22Case_string_after_needILj15EE3runEv(void) {
  u32 v0;
  u32 v1;
  u32 v2;
  u1 v3;
L0: ;
  v0 = v_param(((u32)0ULL));
  if (v_exc) return;
  v1 = ((u32)(v0 * ((u32)25ULL)));
  v2 = ((u32)(v1 + ((u32)15ULL)));
  v3 = (v2 < ((u32)25ULL));
  if (v3) {
    goto L1;
  } else {
    goto L2;
  }
L1: ;
  _ZL22body_string_after_needj(v2);
  if (v_exc) return;
  goto L2;
L2: ;
  return;
}

void _ZN22Case_string_after_needILj16EE3runEv(void) {
  u32 v0;
  u32 v1;
  u32 v2;
  u1 v3;
L0: ;
  v0 = v_param(((u32)0ULL));
  if (v_exc) return;
  v1 = ((u32)(v0 * ((u32)25ULL)));
  v2 = ((u32)(v1 + ((u32)16ULL)));
  v3 = (v2 < ((u32)25ULL));
  if (v3) {
    goto L1;
  } else {
    goto L2;
  }
L1: ;
  _ZL22body_string_after_needj(v2);
  if (v_exc) return;
  goto L2;
L2: ;
  return;
}

void _ZN22Case_string_after_needILj17EE3runEv(void) {
  u32 v0;
  u32 v1;
  u32 v2;
  u1 v3;
L0: ;
  v0 = v_param(((u32)0ULL));
  if (v_exc) return;
  v1 = ((u32)(v0 * ((u32)25ULL)));
  v2 = ((u32)(v1 + ((u32)17ULL)));
  v3 = (v2 < ((u32)25ULL));
  if (v3) {
    goto L1;
  } else {
    goto L2;
  }
L1: ;
  _ZL22body_string_after_needj(v2);
  if (v_exc) return;
  goto L2;
L2: ;
  return;
}

void _ZN22Case_string_after_needILj18EE3runEv(void) {
  u32 v0;
  u32 v1;
  u32 v2;
  u1 v3;
L0: ;
  v0 = v_param(((u32)0ULL));
  if (v_exc) return;
  v1 = ((u32)(v0 * ((u32)25ULL)));
  v2 = ((u32)(v1 + ((u32)18ULL)));
  v3 = (v2 < ((u32)25ULL));
  if (v3) {
    goto L1;
  } else {
    goto L2;
  }
L1: ;
  _ZL22body_string_after_needj(v2);
  if (v_exc) return;
  goto L2;
L2: ;
  return;
}

void _ZN22Case_string_after_needILj19EE3runEv(void) {
  u32 v0;
  u32 v1;
  u32 v2;
  u1 v3;
L0: ;
  v0 = v_param(((u32)0ULL));
  if (v_exc) return;
  v1 = ((u32)(v0 * ((u32)25ULL)));
  v2 = ((u32)(v1 + ((u32)19ULL)));
  v3 = (v2 < ((u32)25ULL));
  if (v3) {
    goto L1;
  } else {
    goto L2;
  }
L1: ;
  _ZL22body_string_after_needj(v2);
  if (v_exc) return;
  goto L2;
L2: ;
  return;
}

void _ZN22Case_string_after_needILj20EE3runEv(void) {
  u32 v0;
  u32 v1;
  u32 v2;
  u1 v3;
L0: ;
  v0 = v_param(((u32)0ULL));
  if (v_exc) return;
  v1 = ((u32)(v0 * ((u32)25ULL)));
  v2 = ((u32)(v1 + ((u32)20ULL)));
  v3 = (v2 < ((u32)25ULL));
  if (v3) {
    goto L1;
  } else {
    goto L2;
  }
L1: ;
  _ZL22body_string_after_needj(v2);
  if (v_exc) return;
  goto L2;
L2: ;
  return;
}

void _ZN22Case_string_after_needILj21EE3runEv(void) {
  u32 v0;
  u32 v1;
  u32 v2;
  u1 v3;
L0: ;
  v0 = v_param(((u32)0ULL));
  if (v_exc) return;
  v1 = ((u32)(v0 * ((u32)25ULL)));
  v2 = ((u32)(v1 + ((u32)21ULL)));
  v3 = (v2 < ((u32)25ULL));
  if (v3) {
    goto L1;
  } else {
    goto L2;
  }
L1: ;
  _ZL22body_string_after_needj(v2);
  if (v_exc) return;
  goto L2;
L2: ;
  return;
}

void _ZN22Case_string_after_needILj22EE3runEv(void) {
  u32 v0;
  u32 v1;
  u32 v2;
  u1 v3;
L0: ;
  v0 = v_param(((u32)0ULL));
  if (v_exc) return;
  v1 = ((u32)(v0 * ((u32)25ULL)));
  v2 = ((u32)(v1 + ((u32)22ULL)));
  v3 = (v2 < ((u32)25ULL));
  if (v3) {
    goto L1;
  } else {
    goto L2;
  }
L1: ;
  _ZL22body_string_after_needj(v2);
  if (v_exc) return;
  goto L2;
L2: ;
  return;
}

void _ZN22Case_string_after_needILj23EE3runEv(void) {
  u32 v0;
  u32 v1;
  u32 v2;
  u1 v3;
L0: ;
  v0 = v_param(((u32)0ULL));
  if (v_exc) return;
  v1 = ((u32)(v0 * ((u32)25ULL)));
  v2 = ((u32)(v1 + ((u32)23ULL)));
  v3 = (v2 < ((u32)25ULL));
  if (v3) {
    goto L1;
  } else {
    goto L2;
  }
L1: ;
  _ZL22body_string_after_needj(v2);
  if (v_exc) return;
  goto L2;
L2: ;
  return;
}

void _ZN22Case_string_after_needILj24EE3runEv(void) {
  u32 v0;
  u32 v1;
  u32 v2;
  u1 v3;
L0: ;
  v0 = v_param(((u32)0ULL));
  if (v_exc) return;
  v1 = ((u32)(v0 * ((u32)25ULL)));
  v2 = ((u32)(v1 + ((u32)24ULL)));
  v3 = (v2 < ((u32)25ULL));
  if (v3) {
    goto L1;
  } else {
    goto L2;
  }
L1: ;
  _ZL22body_string_after_needj(v2);
  if (v_exc) return;
  goto L2;
L2: ;
  return;
}

void _ZL22body_string_after_needj(u32 a0) {
  struct S4_class_OpenVolumeMesh__IO__detail__Decode* v0; struct S4_class_OpenVolumeMesh__IO__detail__Decode v0_m;
  struct S5_class_std____cxx11__basic_string* v1; struct S5_class_std____cxx11__basic_string v1_m;
  u64 v2;
  u1 v3;
  u8* v4;
  u8* v5; u8* v5_t;
  u8* v6;
  u8* v7;
  u8** v8;
  u8** v9;
  u8** v10;
  u8** v11;
  u8** v12;
  u8* v13;
  struct S18_union_anon* v14;
  struct S18_union_anon** v15;
  u64* v16;
  u8* v17;
  struct S16 v18;
  u8* v19;
  u32 v20;
  u32 v21;
  u1 v22;
  u8* v23;
  u1 v24; u1 v24_t;
  u1 v25; u1 v25_t;
  u1 v26; u1 v26_t;
  u1 v27;
  struct S16 v28;
  struct S16 v29;
  u64 v30; u64 v30_t;
  u64 v31; u64 v31_t;
  u1 v32;
  u8* v33;
  u8 v34;
  u64 v35;
  u64 v36;
  u64 v37;
  u64 v38;
  u64 v39; u64 v39_t;
  u64 v40;
  u1 v41;
  u32 v42;
  u64 v43;
  u1 v44;
  struct S16 v45;
  u64 v46;
  u1 v47;
  u1 v48;
  u8* v49;
  u8* v50;
  u64 v51;
  u64 v52;
  u64 v53;
  u64 v54;
  u1 v55;
  u1 v56; u1 v56_t;
  u32 v57;
  u1 v58;
  u64 v59;
  u1 v60;
  u8** v61;
  u8* v62;
  u8* v63;
  u8 v64;
  u32 v65;
  u64 v66;
  u8* v67;
  u8 v68;
  u1 v69;
  struct S16 v70;
  u8** v71;
  u8* v72;
  u1 v73;
  u8* v74;
  u1 v75;
  struct S16 v76; struct S16 v76_t;
  u8** v77;
  u8* v78;
  u1 v79;
  u8* v80;
  u1 v81;
L0: ;
  v0 = &v0_m;
  v1 = &v1_m;
  v2 = ((u64)(a0));
  v3 = (a0 == ((u32)0ULL));
  if (v3) {
    v5 = ((u8*)0);
    goto L2;
  } else {
    goto L1;
  }
L1: ;
  v4 = _Znwm(v2);
  if (v_exc) return;
  v5 = v4;
  goto L2;
L2: ;
  v6 = (u8*)(v5 + (s64)((s64)v2));
  if (v3) {
    goto L4;
  } else {
    goto L3;
  }
L3: ;
  v_memcpy((u8*)v5, (u8*)((u8*)(&(*(&_ZL5g_raw)).e[(s64)((s64)((u64)0ULL))])), (u64)v2);
  goto L4;
L4: ;
  v7 = (u8*)v0;
  v8 = (u8**)(&(*v0).f0.f0.f0.f0.f0);
  *v8 = v5;
  v9 = (u8**)(&(*v0).f0.f0.f0.f0.f1);
  *v9 = v6;
  v10 = (u8**)(&(*v0).f0.f0.f0.f0.f2);
  *v10 = v6;
  v11 = (u8**)(&(*v0).f1);
  *v11 = v5;
  v12 = (u8**)(&(*v0).f2);
  *v12 = v6;
  v13 = (u8*)v1;
  v14 = (struct S18_union_anon*)(&(*v1).f2);
  v15 = (struct S18_union_anon**)&(*v1).f0.f0;
  *v15 = v14;
  v16 = (u64*)(&(*v1).f1);
  *v16 = ((u64)0ULL);
  v17 = (u8*)v14;
  *v17 = ((u8)0ULL);
  _ZN14OpenVolumeMesh2IO6detail7Decoder4needEm(v0, ((u64)4ULL));
  if (v_exc) {
    goto L6;
  }
  goto L5;
L5: ;
  _ZN14OpenVolumeMesh2IO6detail7Decoder4readERNSt7__cxx1112basic_stringIcSt11char_traitsIcESaIcEEE(v0, v1);
  if (v_exc) {
    goto L6;
  }
  v24_t = ((u1)1ULL);
  v25_t = ((u1)1ULL);
  v26_t = ((u1)0ULL);
  v24 = v24_t;
  v25 = v25_t;
  v26 = v26_t;
  goto L8;
L6: ;
  v18.f0 = v_exc_obj;
  v18.f1 = 0;
  if (v18.f1 == 0 && v_exc_match((u8*)((u8*)(&_ZTIN14OpenVolumeMesh2IO6detail11parse_errorE)))) v18.f1 = 1;
  if (v18.f1 == 0) v18.f1 = 9999;
  if (v18.f1 == 0) return;
  v_exc = 0;
  v19 = v18.f0;
  v20 = v18.f1;
  v21 = 1;
  v22 = (v20 == v21);
  v23 = __cxa_begin_catch(v19);
  if (v22) {
    goto L7;
  } else {
    goto L12;
  }
L7: ;
  __cxa_end_catch();
  if (v_exc) {
    goto L14;
  }
  v24_t = ((u1)1ULL);
  v25_t = ((u1)0ULL);
  v26_t = ((u1)1ULL);
  v24 = v24_t;
  v25 = v25_t;
  v26 = v26_t;
  goto L8;
L8: ;
  __CPROVER_assert(v24, "out != OTHER @/verif/harness/C07_decoder.cpp:202 [_ZL22body_string_after_needj]");
  if (v_exc) {
    goto L13;
  }
  goto L9;
L9: ;
  v27 = (a0 < ((u32)4ULL));
  if (v27) {
    goto L10;
  } else {
    v30_t = ((u64)0ULL);
    v31_t = ((u64)0ULL);
    v30 = v30_t;
    v31 = v31_t;
    goto L15;
  }
L10: ;
  __CPROVER_assert(v26, "out == PARSE_ERROR @/verif/harness/C07_decoder.cpp:203 [_ZL22body_string_after_needj]");
  if (v_exc) {
    goto L13;
  }
  goto L11;
L11: ;
  __CPROVER_assert(0, "WITNESS:string(need 4): short -> parse_error [_ZL22body_string_after_needj]");
  if (v_exc) {
    goto L13;
  }
  goto L31;
L12: ;
  __cxa_end_catch();
  if (v_exc) {
    goto L13;
  }
  v24_t = ((u1)0ULL);
  v25_t = ((u1)0ULL);
  v26_t = ((u1)0ULL);
  v24 = v24_t;
  v25 = v25_t;
  v26 = v26_t;
  goto L8;
L13: ;
  v28.f0 = v_exc_obj;
  v28.f1 = 0;
  v_exc = 0;
  v76 = v28;
  goto L36;
L14: ;
  v29.f0 = v_exc_obj;
  v29.f1 = 0;
  v_exc = 0;
  v76 = v29;
  goto L36;
L15: ;
  v32 = (v30 < ((u64)4ULL));
  if (v32) {
    goto L16;
  } else {
    v39 = v31;
    goto L17;
  }
L16: ;
  v33 = (u8*)(&(*(&_ZL5g_raw)).e[(s64)((s64)v30)]);
  v34 = (*(&_ZL5g_raw)).e[(s64)((s64)v30)];
  v35 = ((u64)(v34));
  v36 = ((u64)(v30 << ((u64)3ULL)));
  v37 = ((u64)(v35 << v36));
  v38 = ((u64)(v37 | v31));
  v39 = v38;
  goto L17;
L17: ;
  v40 = ((u64)(v30 + ((u64)1ULL)));
  v41 = (v40 == ((u64)8ULL));
  if (v41) {
    goto L18;
  } else {
    v30_t = v40;
    v31_t = v39;
    v30 = v30_t;
    v31 = v31_t;
    goto L15;
  }
L18: ;
  v42 = ((u32)(a0 + ((u32)4294967292ULL)));
  v43 = ((u64)(v42));
  v44 = (v39 > v43);
  if (v44) {
    goto L19;
  } else {
    goto L22;
  }
L19: ;
  __CPROVER_assert(v26, "out == PARSE_ERROR @/verif/harness/C07_decoder.cpp:205 [_ZL22body_string_after_needj]");
  if (v_exc) {
    goto L21;
  }
  goto L20;
L20: ;
  __CPROVER_assert(0, "WITNESS:string(need 4): declared length beyond buffer -> parse_error [_ZL22body_string_after_needj]");
  if (v_exc) {
    goto L21;
  }
  goto L31;
L21: ;
  v45.f0 = v_exc_obj;
  v45.f1 = 0;
  v_exc = 0;
  v76 = v45;
  goto L36;
L22: ;
  v46 = *v16;
  v47 = (v46 == v39);
  v48 = (v25 ? v47 : ((u1)0ULL));
  if (v48) {
    goto L23;
  } else {
    v56 = ((u1)0ULL);
    goto L24;
  }
L23: ;
  v49 = *v11;
  v50 = *v8;
  v51 = ((u64)((u64)v49));
  v52 = ((u64)((u64)v50));
  v53 = v_pdiff((u8*)v49, (u8*)v50);
  v54 = ((u64)(v39 + ((u64)4ULL)));
  v55 = (v53 == v54);
  v56 = v55;
  goto L24;
L24: ;
  __CPROVER_assert(v56, "out == OK && s.size() == n && dec.pos() == 4 + n @/verif/harness/C07_decoder.cpp:206 [_ZL22body_string_after_needj]");
  if (v_exc) {
    goto L21;
  }
  goto L25;
L25: ;
  v57 = v_nondet_u32();
  if (v_exc) {
    goto L29;
  }
  goto L26;
L26: ;
  v58 = (v57 < ((u32)24ULL));
  __CPROVER_assume(v58);
  if (v_exc) {
    goto L29;
  }
  goto L27;
L27: ;
  v59 = ((u64)(v57));
  v60 = (v39 > v59);
  if (v60) {
    goto L28;
  } else {
    goto L30;
  }
L28: ;
  v61 = (u8**)(&(*v1).f0.f0);
  v62 = *v61;
  v63 = (u8*)(v62 + (s64)((s64)v59));
  v64 = *v63;
  v65 = ((u32)(v57 + ((u32)4ULL)));
  v66 = ((u64)(v65));
  v67 = (u8*)(&(*(&_ZL5g_raw)).e[(s64)((s64)v66)]);
  v68 = (*(&_ZL5g_raw)).e[(s64)((s64)v66)];
  v69 = (v64 == v68);
  __CPROVER_assert(v69, "(uint8_t)s[k] == bytes[4 + k] @/verif/harness/C07_decoder.cpp:208 [_ZL22body_string_after_needj]");
  if (v_exc) {
    goto L29;
  }
  goto L30;
L29: ;
  v70.f0 = v_exc_obj;
  v70.f1 = 0;
  v_exc = 0;
  v76 = v70;
  goto L36;
L30: ;
  __CPROVER_assert(0, "WITNESS:string(need 4): accepted [_ZL22body_string_after_needj]");
  if (v_exc) {
    goto L29;
  }
  goto L31;
L31: ;
  v71 = (u8**)(&(*v1).f0.f0);
  v72 = *v71;
  v73 = ((u8*)v72 == (u8*)v17);
  if (v73) {
    goto L33;
  } else {
    goto L32;
  }
L32: ;
  _ZdlPv(v72);
  goto L33;
L33: ;
  v74 = *v8;
  v75 = ((u8*)v74 == (u8*)((u8*)0));
  if (v75) {
    goto L35;
  } else {
    goto L34;
  }
L34: ;
  _ZdlPv(v74);
  goto L35;
L35: ;
  return;
L36: ;
  v77 = (u8**)(&(*v1).f0.f0);
  v78 = *v77;
  v79 = ((u8*)v78 == (u8*)v17);
  if (v79) {
    goto L38;
  } else {
    goto L37;
  }
L37: ;
  _ZdlPv(v78);
  goto L38;
L38: ;
  v80 = *v8;
  v81 = ((u8*)v80 == (u8*)((u8*)0));
  if (v81) {
    goto L40;
  } else {
    goto L39;
  }
L39: ;
  _ZdlPv(v80);
  goto L40;
L40: ;
  v_exc = 1; return;
}

void harness_property_info_short(void) {
  v_run_static_init();
  u32 v0;
  u1 v1;
  u32 v2;
  u32 v3;
  u32 v4;
  u1 v5;
  u64 v6; u64 v6_t;
  u8 v7;
  u8* v8;
  u64 v9;
  u1 v10;
L0: ;
  v6 = ((u64)0ULL);
  goto L16;
L1: ;
  v0 = v_nondet_u32();
  if (v_exc) return;
  v1 = (v0 < ((u32)13ULL));
  __CPROVER_assume(v1);
  v2 = v_param(((u32)0ULL));
  if (v_exc) return;
  v3 = ((u32)(v2 * ((u32)13ULL)));
  v4 = ((u32)(v3 + v0));
  v5 = (v4 < ((u32)13ULL));
  __CPROVER_assume(v5);
  switch (v0) {
  case ((u32)0ULL): {
    goto L2;
  }
  case ((u32)1ULL): {
    goto L3;
  }
  case ((u32)2ULL): {
    goto L4;
  }
  case ((u32)3ULL): {
    goto L5;
  }
  case ((u32)4ULL): {
    goto L6;
  }
  case ((u32)5ULL): {
    goto L7;
  }
  case ((u32)6ULL): {
    goto L8;
  }
  case ((u32)7ULL): {
    goto L9;
  }
  case ((u32)8ULL): {
    goto L10;
  }
  case ((u32)9ULL): {
    goto L11;
  }
  case ((u32)10ULL): {
    goto L12;
  }
  case ((u32)11ULL): {
    goto L13;
  }
  case ((u32)12ULL): {
    goto L14;
  }
  default: {
    goto L15;
  }
  }
L2: ;
  _ZN24Case_property_info_shortILj0EE3runEv();
  if (v_exc) return;
  goto L15;
L3: ;
  _ZN24Case_property_info_shortILj1EE3runEv();
  if (v_exc) return;
  goto L15;
L4: ;
  _ZN24Case_property_info_shortILj2EE3runEv();
  if (v_exc) return;
  goto L15;
L5: ;
  _ZN24Case_property_info_shortILj3EE3runEv();
  if (v_exc) return;
  goto L15;
L6: ;
  _ZN24Case_property_info_shortILj4EE3runEv();
  if (v_exc) return;
  goto L15;
L7: ;
  _ZN24Case_property_info_shortILj5EE3runEv();
  if (v_exc) return;
  goto L15;
L8: ;
  _ZN24Case_property_info_shortILj6EE3runEv();
  if (v_exc) return;
  goto L15;
L9: ;
  _ZN24Case_property_info_shortILj7EE3runEv();
  if (v_exc) return;
  goto L15;
L10: ;
  _ZN24Case_property_info_shortILj8EE3runEv();
  if (v_exc) return;
  goto L15;
L11: ;
  _ZN24Case_property_info_shortILj9EE3runEv();
  if (v_exc) return;
  goto L15;
L12: ;
  _ZN24Case_property_info_shortILj10EE3runEv();
  if (v_exc) return;
  goto L15;
L13: ;
  _ZN24Case_property_info_shortILj11EE3runEv();
  if (v_exc) return;
  goto L15;
L14: ;
  _ZN24Case_property_info_shortILj12EE3runEv();
  if (v_exc) return;
  goto L15;
L15: ;
  return;
L16: ;
  v7 = v_nondet_u8();
  if (v_exc) return;
  v8 = (u8*)(&(*(&_ZL5g_raw)).e[(s64)((s64)v6)]);
  (*(&_ZL5g_raw)).e[(s64)((s64)v6)] = v7;
  v9 = ((u64)(v6 + ((u64)1ULL)));
  v10 = (v9 == ((u64)12ULL));
  if (v10) {
    goto L1;
  } else {
    v6 = v9;
    goto L16;
  }
}

void _ZN24Case_property_info_shortILj0EE3runEv(void) {
  u32 v0;
  u32 v1;
  u1 v2;
L0: ;
  v0 = v_param(((u32)0ULL));
  if (v_exc) return;
  v1 = ((u32)(v0 * ((u32)13ULL)));
  v2 = (v1 < ((u32)13ULL));
  if (v2) {
    goto L1;
  } else {
    goto L2;
  }
L1: ;
  _ZL24body_property_info_shortj(v1);
  if (v_exc) return;
  goto L2;
L2: ;
  return;
}

void _ZN24Case_property_info_shortILj1EE3runEv(void) {
  u32 v0;
  u32 v1;
  u32 v2;
  u1 v3;
L0: ;
  v0 = v_param(((u32)0ULL));
  if (v_exc) return;
  v1 = ((u32)(v0 * ((u32)13ULL)));
  v2 = ((u32)(v1 + ((u32)1ULL)));
  v3 = (v2 < ((u32)13ULL));
  if (v3) {
    goto L1;
  } else {
    goto L2;
  }
L1: ;
  _ZL24body_property_info_shortj(v2);
  if (v_exc) return;
  goto L2;
L2: ;
  return;
}

void _ZN24Case_property_info_shortILj2EE3runEv(void) {
  u32 v0;
  u32 v1;
  u32 v2;
  u1 v3;
L0: ;
  v0 = v_param(((u32)0ULL));
  if (v_exc) return;
  v1 = ((u32)(v0 * ((u32)13ULL)));
  v2 = ((u32)(v1 + ((u32)2ULL)));
  v3 = (v2 < ((u32)13ULL));
  if (v3) {
    goto L1;
  } else {
    goto L2;
  }
L1: ;
  _ZL24body_property_info_shortj(v2);
  if (v_exc) return;
  goto L2;
L2: ;
  return;
}

void _ZN24Case_property_info_shortILj3EE3runEv(void) {
  u32 v0;
  u32 v1;
  u32 v2;
  u1 v3;
L0: ;
  v0 = v_param(((u32)0ULL));
  if (v_exc) return;
  v1 = ((u32)(v0 * ((u32)13ULL)));
  v2 = ((u32)(v1 + ((u32)3ULL)));
  v3 = (v2 < ((u32)13ULL));
  if (v3) {
    goto L1;
  } else {
    goto L2;
  }
L1: ;
  _ZL24body_property_info_shortj(v2);
  if (v_exc) return;
  goto L2;
L2: ;
  return;
}

void _ZN24Case_property_info_shortILj4EE3runEv(void) {
  u32 v0;
  u32 v1;
  u32 v2;
  u1 v3;
L0: ;
  v0 = v_param(((u32)0ULL));
  if (v_exc) return;
  v1 = ((u32)(v0 * ((u32)13ULL)));
  v2 = ((u32)(v1 + ((u32)4ULL)));
  v3 = (v2 < ((u32)13ULL));
  if (v3) {
    goto L1;
  } else {
    goto L2;
  }
L1: ;
  _ZL24body_property_info_shortj(v2);
  if (v_exc) return;
  goto L2;
L2: ;
  return;
}

void _ZN24Case_property_info_shortILj5EE3runEv(void) {
  u32 v0;
  u32 v1;
  u32 v2;
  u1 v3;
L0: ;
  v0 = v_param(((u32)0ULL));
  if (v_exc) return;
  v1 = ((u32)(v0 * ((u32)13ULL)));
  v2 = ((u32)(v1 + ((u32)5ULL)));
  v3 = (v2 < ((u32)13ULL));
  if (v3) {
    goto L1;
  } else {
    goto L2;
  }
L1: ;
  _ZL24body_property_info_shortj(v2);
  if (v_exc) return;
  goto L2;
L2: ;
  return;
}

void _ZN24Case_property_info_shortILj6EE3runEv(void) {
  u32 v0;
  u32 v1;
  u32 v2;
  u1 v3;
L0: ;
  v0 = v_param(((u32)0ULL));
  if (v_exc) return;
  v1 = ((u32)(v0 * ((u32)13ULL)));
  v2 = ((u32)(v1 + ((u32)6ULL)));
  v3 = (v2 < ((u32)13ULL));
  if (v3) {
    goto L1;
  } else {
    goto L2;
  }
L1: ;
  _ZL24body_property_info_shortj(v2);
  if (v_exc) return;
  goto L2;
L2: ;
  return;
}

void _ZN24Case_property_info_shortILj7EE3runEv(void) {
  u32 v0;
  u32 v1;
  u32 v2;
  u1 v3;
L0: ;
  v0 = v_param(((u32)0ULL));
  if (v_exc) return;
  v1 = ((u32)(v0 * ((u32)13ULL)));
  v2 = ((u32)(v1 + ((u32)7ULL)));
  v3 = (v2 < ((u32)13ULL));
  if (v3) {
    goto L1;
  } else {
    goto L2;
  }
L1: ;
  _ZL24body_property_info_shortj(v2);
  if (v_exc) return;
  goto L2;
L2: ;
  return;
}

void _ZN24Case_property_info_shortILj8EE3runEv(void) {
  u32 v0;
  u32 v1;
  u32 v2;
  u1 v3;
L0: ;
  v0 = v_param(((u32)0ULL));
  if (v_exc) return;
  v1 = ((u32)(v0 * ((u32)13ULL)));
  v2 = ((u32)(v1 + ((u32)8ULL)));
  v3 = (v2 < ((u32)13ULL));
  if (v3) {
    goto L1;
  } else {
    goto L2;
  }
L1: ;
  _ZL24body_property_info_shortj(v2);
  if (v_exc) return;
  goto L2;
L2: ;
  return;
}

void _ZN24Case_property_info_shortILj9EE3runEv(void) {
  u32 v0;
  u32 v1;
  u32 v2;
  u1 v3;
L0: ;
  v0 = v_param(((u32)0ULL));
  if (v_exc) return;
  v1 = ((u32)(v0 * ((u32)13ULL)));
  v2 = ((u32)(v1 + ((u32)9ULL)));
  v3 = (v2 < ((u32)13ULL));
  if (v3) {
    goto L1;
  } else {
    goto L2;
  }
L1: ;
  _ZL24body_property_info_shortj(v2);
  if (v_exc) return;
  goto L2;
L2: ;
  return;
}

void _ZN24Case_property_info_shortILj10EE3runEv(void) {
  u32 v0;
  u32 v1;
  u32 v2;
  u1 v3;
L0: ;
  v0 = v_param(((u32)0ULL));
  if (v_exc) return;
  v1 = ((u32)(v0 * ((u32)13ULL)));
  v2 = ((u32)(v1 + ((u32)10ULL)));
  v3 = (v2 < ((u32)13ULL));
  if (v3) {
    goto L1;
  } else {
    goto L2;
  }
L1: ;
  _ZL24body_property_info_shortj(v2);
  if (v_exc) return;
  goto L2;
L2: ;
  return;
}

void _ZN24Case_property_info_shortILj11EE3runEv(void) {
  u32 v0;
  u32 v1;
  u32 v2;
  u1 v3;
L0: ;
  v0 = v_param(((u32)0ULL));
  if (v_exc) return;
  v1 = ((u32)(v0 * ((u32)13ULL)));
  v2 = ((u32)(v1 + ((u32)11ULL)));
  v3 = (v2 < ((u32)13ULL));
  if (v3) {
    goto L1;
  } else {
    goto L2;
  }
L1: ;
  _ZL24body_property_info_shortj(v2);
  if (v_exc) return;
  goto L2;
L2: ;
  return;
}

void _ZN24Case_property_info_shortILj12EE3runEv(void) {
  u32 v0;
  u32 v1;
  u32 v2;
  u1 v3;
L0: ;
  v0 = v_param(((u32)0ULL));
  if (v_exc) return;
  v1 = ((u32)(v0 * ((u32)13ULL)));
  v2 = ((u32)(v1 + ((u32)12ULL)));
  v3 = (v2 < ((u32)13ULL));
  if (v3) {
    goto L1;
  } else {
    goto L2;
  }
L1: ;
  _ZL24body_property_info_shortj(v2);
  if (v_exc) return;
  goto L2;
L2: ;
  return;
}

void _ZL24body_property_info_shortj(u32 a0) {
  struct S4_class_OpenVolumeMesh__IO__detail__Decode* v0; struct S4_class_OpenVolumeMesh__IO__detail__Decode v0_m;
  struct S15_struct_OpenVolumeMesh__IO__detail__Prope* v1; struct S15_struct_OpenVolumeMesh__IO__detail__Prope v1_m;
  u64 v2;
  u1 v3;
  u8* v4;
  u8* v5; u8* v5_t;
  u8* v6;
  u8* v7;
  u8** v8;
  u8** v9;
  u8** v10;
  u8** v11;
  u8** v12;
  u8* v13;
  struct S5_class_std____cxx11__basic_string* v14;
  struct S18_union_anon* v15;
  struct S18_union_anon** v16;
  u64* v17;
  u8* v18;
  struct S5_class_std____cxx11__basic_string* v19;
  struct S18_union_anon* v20;
  struct S18_union_anon** v21;
  u64* v22;
  u8* v23;
  struct S8_class_std__vector* v24;
  u8* v25;
  struct S16 v26;
  u8* v27;
  u32 v28;
  u32 v29;
  u1 v30;
  u8* v31;
  u1 v32; u1 v32_t;
  u1 v33; u1 v33_t;
  struct S16 v34;
  struct S16 v35;
  struct S16 v36;
  u8** v37;
  u8* v38;
  u1 v39;
  u8** v40;
  u8* v41;
  u1 v42;
  u8** v43;
  u8* v44;
  u1 v45;
  u8* v46;
  u1 v47;
  struct S16 v48; struct S16 v48_t;
  u8** v49;
  u8* v50;
  u1 v51;
  u8** v52;
  u8* v53;
  u1 v54;
  u8** v55;
  u8* v56;
  u1 v57;
  u8* v58;
  u1 v59;
L0: ;
  v0 = &v0_m;
  v1 = &v1_m;
  v2 = ((u64)(a0));
  v3 = (a0 == ((u32)0ULL));
  if (v3) {
    v5 = ((u8*)0);
    goto L2;
  } else {
    goto L1;
  }
L1: ;
  v4 = _Znwm(v2);
  if (v_exc) return;
  v5 = v4;
  goto L2;
L2: ;
  v6 = (u8*)(v5 + (s64)((s64)v2));
  if (v3) {
    goto L4;
  } else {
    goto L3;
  }
L3: ;
  v_memcpy((u8*)v5, (u8*)((u8*)(&(*(&_ZL5g_raw)).e[(s64)((s64)((u64)0ULL))])), (u64)v2);
  goto L4;
L4: ;
  v7 = (u8*)v0;
  v8 = (u8**)(&(*v0).f0.f0.f0.f0.f0);
  *v8 = v5;
  v9 = (u8**)(&(*v0).f0.f0.f0.f0.f1);
  *v9 = v6;
  v10 = (u8**)(&(*v0).f0.f0.f0.f0.f2);
  *v10 = v6;
  v11 = (u8**)(&(*v0).f1);
  *v11 = v5;
  v12 = (u8**)(&(*v0).f2);
  *v12 = v6;
  v13 = (u8*)(&(*v1).f0);
  v14 = (struct S5_class_std____cxx11__basic_string*)(&(*v1).f1);
  v15 = (struct S18_union_anon*)(&(*v1).f1.f2);
  v16 = (struct S18_union_anon**)&(*v1).f1.f0.f0;
  *v16 = v15;
  v17 = (u64*)(&(*v1).f1.f1);
  *v17 = ((u64)0ULL);
  v18 = (u8*)v15;
  *v18 = ((u8)0ULL);
  v19 = (struct S5_class_std____cxx11__basic_string*)(&(*v1).f2);
  v20 = (struct S18_union_anon*)(&(*v1).f2.f2);
  v21 = (struct S18_union_anon**)&(*v1).f2.f0.f0;
  *v21 = v20;
  v22 = (u64*)(&(*v1).f2.f1);
  *v22 = ((u64)0ULL);
  v23 = (u8*)v20;
  *v23 = ((u8)0ULL);
  v24 = (struct S8_class_std__vector*)(&(*v1).f3);
  v25 = (u8*)v24;
  (*v1).f3.f0.f0.f0.f0 = (u8*)0;
  (*v1).f3.f0.f0.f0.f1 = (u8*)0;
  (*v1).f3.f0.f0.f0.f2 = (u8*)0;
  _ZN14OpenVolumeMesh2IO6detail4readERNS1_7DecoderERNS1_12PropertyInfoE(v0, v1);
  if (v_exc) {
    goto L5;
  }
  v32_t = ((u1)1ULL);
  v33_t = ((u1)0ULL);
  v32 = v32_t;
  v33 = v33_t;
  goto L7;
L5: ;
  v26.f0 = v_exc_obj;
  v26.f1 = 0;
  if (v26.f1 == 0 && v_exc_match((u8*)((u8*)(&_ZTIN14OpenVolumeMesh2IO6detail11parse_errorE)))) v26.f1 = 1;
  if (v26.f1 == 0) v26.f1 = 9999;
  if (v26.f1 == 0) return;
  v_exc = 0;
  v27 = v26.f0;
  v28 = v26.f1;
  v29 = 1;
  v30 = (v28 == v29);
  v31 = __cxa_begin_catch(v27);
  if (v30) {
    goto L6;
  } else {
    goto L8;
  }
L6: ;
  __cxa_end_catch();
  if (v_exc) {
    goto L10;
  }
  v32_t = ((u1)1ULL);
  v33_t = ((u1)1ULL);
  v32 = v32_t;
  v33 = v33_t;
  goto L7;
L7: ;
  __CPROVER_assert(v32, "out != OTHER @/verif/harness/C07_decoder.cpp:243 [_ZL24body_property_info_shortj]");
  if (v_exc) {
    goto L9;
  }
  goto L11;
L8: ;
  __cxa_end_catch();
  if (v_exc) {
    goto L9;
  }
  v32_t = ((u1)0ULL);
  v33_t = ((u1)0ULL);
  v32 = v32_t;
  v33 = v33_t;
  goto L7;
L9: ;
  v34.f0 = v_exc_obj;
  v34.f1 = 0;
  v_exc = 0;
  v48 = v34;
  goto L22;
L10: ;
  v35.f0 = v_exc_obj;
  v35.f1 = 0;
  v_exc = 0;
  v48 = v35;
  goto L22;
L11: ;
  __CPROVER_assert(v33, "out == PARSE_ERROR @/verif/harness/C07_decoder.cpp:250 [_ZL24body_property_info_shortj]");
  if (v_exc) {
    goto L13;
  }
  goto L12;
L12: ;
  __CPROVER_assert(0, "WITNESS:property info: malformed -> parse_error [_ZL24body_property_info_shortj]");
  if (v_exc) {
    goto L13;
  }
  goto L14;
L13: ;
  v36.f0 = v_exc_obj;
  v36.f1 = 0;
  v_exc = 0;
  v48 = v36;
  goto L22;
L14: ;
  v37 = (u8**)(&(*v1).f3.f0.f0.f0.f0);
  v38 = *v37;
  v39 = ((u8*)v38 == (u8*)((u8*)0));
  if (v39) {
    goto L16;
  } else {
    goto L15;
  }
L15: ;
  _ZdlPv(v38);
  goto L16;
L16: ;
  v40 = (u8**)(&(*v1).f2.f0.f0);
  v41 = *v40;
  v42 = ((u8*)v41 == (u8*)v23);
  if (v42) {
    goto L18;
  } else {
    goto L17;
  }
L17: ;
  _ZdlPv(v41);
  goto L18;
L18: ;
  v43 = (u8**)(&(*v1).f1.f0.f0);
  v44 = *v43;
  v45 = ((u8*)v44 == (u8*)v18);
  if (v45) {
    goto L20;
  } else {
    goto L19;
  }
L19: ;
  _ZdlPv(v44);
  goto L20;
L20: ;
  v46 = *v8;
  v47 = ((u8*)v46 == (u8*)((u8*)0));
  if (v47) {
    goto L31;
  } else {
    goto L21;
  }
L21: ;
  _ZdlPv(v46);
  goto L31;
L22: ;
  v49 = (u8**)(&(*v1).f3.f0.f0.f0.f0);
  v50 = *v49;
  v51 = ((u8*)v50 == (u8*)((u8*)0));
  if (v51) {
    goto L24;
  } else {
    goto L23;
  }
L23: ;
  _ZdlPv(v50);
  goto L24;
L24: ;
  v52 = (u8**)(&(*v1).f2.f0.f0);
  v53 = *v52;
  v54 = ((u8*)v53 == (u8*)v23);
  if (v54) {
    goto L26;
  } else {
    goto L25;
  }
L25: ;
  _ZdlPv(v53);
  goto L26;
L26: ;
  v55 = (u8**)(&(*v1).f1.f0.f0);
  v56 = *v55;
  v57 = ((u8*)v56 == (u8*)v18);
  if (v57) {
    goto L28;
  } else {
    goto L27;
  }
L27: ;
  _ZdlPv(v56);
  goto L28;
L28: ;
  v58 = *v8;
  v59 = ((u8*)v58 == (u8*)((u8*)0));
  if (v59) {
    goto L30;
  } else {
    goto L29;
  }
L29: ;
  _ZdlPv(v58);
  goto L30;
L30: ;
  v_exc = 1; return;
L31: ;
  return;
}

void harness_property_info_13(void) {
  v_run_static_init();
  u32 v0;
  u1 v1;
  u32 v2;
  u32 v3;
  u32 v4;
  u1 v5;
  u1 v6;
  u64 v7; u64 v7_t;
  u8 v8;
  u8* v9;
  u64 v10;
  u1 v11;
L0: ;
  v7 = ((u64)0ULL);
  goto L4;
L1: ;
  v0 = v_nondet_u32();
  if (v_exc) return;
  v1 = (v0 == ((u32)0ULL));
  __CPROVER_assume(v1);
  v2 = v_param(((u32)0ULL));
  if (v_exc) return;
  v3 = ((u32)(v0 + ((u32)13ULL)));
  v4 = ((u32)(v3 + v2));
  v5 = (v4 < ((u32)14ULL));
  __CPROVER_assume(v5);
  v6 = (v0 == ((u32)0ULL));
  if (v6) {
    goto L2;
  } else {
    goto L3;
  }
L2: ;
  _ZN21Case_property_info_13ILj0EE3runEv();
  if (v_exc) return;
  goto L3;
L3: ;
  return;
L4: ;
  v8 = v_nondet_u8();
  if (v_exc) return;
  v9 = (u8*)(&(*(&_ZL5g_raw)).e[(s64)((s64)v7)]);
  (*(&_ZL5g_raw)).e[(s64)((s64)v7)] = v8;
  v10 = ((u64)(v7 + ((u64)1ULL)));
  v11 = (v10 == ((u64)13ULL));
  if (v11) {
    goto L1;
  } else {
    v7 = v10;
    goto L4;
  }
}

void _ZN21Case_property_info_13ILj0EE3runEv(void) {
  struct S4_class_OpenVolumeMesh__IO__detail__Decode* v0; struct S4_class_OpenVolumeMesh__IO__detail__Decode v0_m;
  struct S15_struct_OpenVolumeMesh__IO__detail__Prope* v1; struct S15_struct_OpenVolumeMesh__IO__detail__Prope v1_m;
  u32 v2;
  u32 v3;
  u1 v4;
  u64 v5;
  u1 v6;
  u8* v7;
  u8* v8; u8* v8_t;
  u8* v9;
  u8* v10;
  u8** v11;
  u8** v12;
  u8** v13;
  u8** v14;
  u8** v15;
  u8* v16;
  struct S5_class_std____cxx11__basic_string* v17;
  struct S18_union_anon* v18;
  struct S18_union_anon** v19;
  u64* v20;
  u8* v21;
  struct S5_class_std____cxx11__basic_string* v22;
  struct S18_union_anon* v23;
  struct S18_union_anon** v24;
  u64* v25;
  u8* v26;
  struct S8_class_std__vector* v27;
  u8* v28;
  struct S16 v29;
  u8* v30;
  u32 v31;
  u32 v32;
  u1 v33;
  u8* v34;
  u1 v35; u1 v35_t;
  u1 v36; u1 v36_t;
  u1 v37;
  u8 v38;
  u1 v39;
  u1 v40;
  u64 v41; u64 v41_t;
  u64 v42; u64 v42_t;
  u1 v43;
  u64 v44;
  u8* v45;
  u8 v46;
  u64 v47;
  u64 v48;
  u64 v49;
  u64 v50;
  u64 v51; u64 v51_t;
  u64 v52;
  u1 v53;
  u64 v54;
  u1 v55;
  u64 v56;
  u64 v57;
  struct S16 v58;
  struct S16 v59;
  u1 v60; u1 v60_t;
  u64 v61; u64 v61_t;
  u64 v62;
  u1 v63;
  u64 v64; u64 v64_t;
  u64 v65; u64 v65_t;
  u1 v66;
  u64 v67;
  u64 v68;
  u8* v69;
  u8 v70;
  u64 v71;
  u64 v72;
  u64 v73;
  u64 v74;
  u64 v75; u64 v75_t;
  u64 v76;
  u1 v77;
  u64 v78;
  u64 v79;
  u1 v80;
  u64 v81;
  u64 v82;
  u1 v83; u1 v83_t;
  u64 v84; u64 v84_t;
  u64 v85;
  u1 v86;
  u64 v87; u64 v87_t;
  u64 v88; u64 v88_t;
  u1 v89;
  u64 v90;
  u64 v91;
  u8* v92;
  u8 v93;
  u64 v94;
  u64 v95;
  u64 v96;
  u64 v97;
  u64 v98; u64 v98_t;
  u64 v99;
  u1 v100;
  u64 v101;
  u64 v102;
  u1 v103;
  u1 v104; u1 v104_t;
  struct S16 v105;
  u8** v106;
  u8* v107;
  u1 v108;
  u8** v109;
  u8* v110;
  u1 v111;
  u8** v112;
  u8* v113;
  u1 v114;
  u8* v115;
  u1 v116;
  struct S16 v117; struct S16 v117_t;
  u8** v118;
  u8* v119;
  u1 v120;
  u8** v121;
  u8* v122;
  u1 v123;
  u8** v124;
  u8* v125;
  u1 v126;
  u8* v127;
  u1 v128;
L0: ;
  v0 = &v0_m;
  v1 = &v1_m;
  v2 = v_param(((u32)0ULL));
  if (v_exc) return;
  v3 = ((u32)(v2 + ((u32)13ULL)));
  v4 = (v3 < ((u32)14ULL));
  if (v4) {
    goto L1;
  } else {
    goto L53;
  }
L1: ;
  v5 = ((u64)(v3));
  v6 = (v3 == ((u32)0ULL));
  if (v6) {
    v8 = ((u8*)0);
    goto L3;
  } else {
    goto L2;
  }
L2: ;
  v7 = _Znwm(v5);
  if (v_exc) return;
  v8 = v7;
  goto L3;
L3: ;
  v9 = (u8*)(v8 + (s64)((s64)v5));
  if (v6) {
    goto L5;
  } else {
    goto L4;
  }
L4: ;
  v_memcpy((u8*)v8, (u8*)((u8*)(&(*(&_ZL5g_raw)).e[(s64)((s64)((u64)0ULL))])), (u64)v5);
  goto L5;
L5: ;
  v10 = (u8*)v0;
  v11 = (u8**)(&(*v0).f0.f0.f0.f0.f0);
  *v11 = v8;
  v12 = (u8**)(&(*v0).f0.f0.f0.f0.f1);
  *v12 = v9;
  v13 = (u8**)(&(*v0).f0.f0.f0.f0.f2);
  *v13 = v9;
  v14 = (u8**)(&(*v0).f1);
  *v14 = v8;
  v15 = (u8**)(&(*v0).f2);
  *v15 = v9;
  v16 = (u8*)(&(*v1).f0);
  v17 = (struct S5_class_std____cxx11__basic_string*)(&(*v1).f1);
  v18 = (struct S18_union_anon*)(&(*v1).f1.f2);
  v19 = (struct S18_union_anon**)&(*v1).f1.f0.f0;
  *v19 = v18;
  v20 = (u64*)(&(*v1).f1.f1);
  *v20 = ((u64)0ULL);
  v21 = (u8*)v18;
  *v21 = ((u8)0ULL);
  v22 = (struct S5_class_std____cxx11__basic_string*)(&(*v1).f2);
  v23 = (struct S18_union_anon*)(&(*v1).f2.f2);
  v24 = (struct S18_union_anon**)&(*v1).f2.f0.f0;
  *v24 = v23;
  v25 = (u64*)(&(*v1).f2.f1);
  *v25 = ((u64)0ULL);
  v26 = (u8*)v23;
  *v26 = ((u8)0ULL);
  v27 = (struct S8_class_std__vector*)(&(*v1).f3);
  v28 = (u8*)v27;
  (*v1).f3.f0.f0.f0.f0 = (u8*)0;
  (*v1).f3.f0.f0.f0.f1 = (u8*)0;
  (*v1).f3.f0.f0.f0.f2 = (u8*)0;
  _ZN14OpenVolumeMesh2IO6detail4readERNS1_7DecoderERNS1_12PropertyInfoE(v0, v1);
  if (v_exc) {
    goto L6;
  }
  v35_t = ((u1)1ULL);
  v36_t = ((u1)0ULL);
  v35 = v35_t;
  v36 = v36_t;
  goto L8;
L6: ;
  v29.f0 = v_exc_obj;
  v29.f1 = 0;
  if (v29.f1 == 0 && v_exc_match((u8*)((u8*)(&_ZTIN14OpenVolumeMesh2IO6detail11parse_errorE)))) v29.f1 = 1;
  if (v29.f1 == 0) v29.f1 = 9999;
  if (v29.f1 == 0) return;
  v_exc = 0;
  v30 = v29.f0;
  v31 = v29.f1;
  v32 = 1;
  v33 = (v31 == v32);
  v34 = __cxa_begin_catch(v30);
  if (v33) {
    goto L7;
  } else {
    goto L14;
  }
L7: ;
  __cxa_end_catch();
  if (v_exc) {
    goto L16;
  }
  v35_t = ((u1)1ULL);
  v36_t = ((u1)1ULL);
  v35 = v35_t;
  v36 = v36_t;
  goto L8;
L8: ;
  __CPROVER_assert(v35, "out != OTHER @/verif/harness/C07_decoder.cpp:243 [_ZN21Case_property_info_13ILj0EE3runEv]");
  if (v_exc) {
    goto L15;
  }
  goto L9;
L9: ;
  v37 = (v2 < ((u32)4294967283ULL));
  v38 = *((u8*)(&(*(&_ZL5g_raw)).e[(s64)((s64)((u64)0ULL))]));
  v39 = (v38 < ((u8)7ULL));
  v40 = (v37 ? v39 : ((u1)0ULL));
  if (v40) {
    v41_t = ((u64)0ULL);
    v42_t = ((u64)0ULL);
    v41 = v41_t;
    v42 = v42_t;
    goto L10;
  } else {
    v60_t = v40;
    v61_t = ((u64)1ULL);
    v60 = v60_t;
    v61 = v61_t;
    goto L17;
  }
L10: ;
  v43 = (v41 < ((u64)4ULL));
  if (v43) {
    goto L11;
  } else {
    v51 = v42;
    goto L12;
  }
L11: ;
  v44 = ((u64)(v41 + ((u64)1ULL)));
  v45 = (u8*)(&(*(&_ZL5g_raw)).e[(s64)((s64)v44)]);
  v46 = (*(&_ZL5g_raw)).e[(s64)((s64)v44)];
  v47 = ((u64)(v46));
  v48 = ((u64)(v41 << ((u64)3ULL)));
  v49 = ((u64)(v47 << v48));
  v50 = ((u64)(v49 | v42));
  v51 = v50;
  goto L12;
L12: ;
  v52 = ((u64)(v41 + ((u64)1ULL)));
  v53 = (v52 == ((u64)8ULL));
  if (v53) {
    goto L13;
  } else {
    v41_t = v52;
    v42_t = v51;
    v41 = v41_t;
    v42 = v42_t;
    goto L10;
  }
L13: ;
  v54 = ((u64)(v5 + ((u64)18446744073709551611ULL)));
  v55 = (v51 <= v54);
  v56 = ((u64)(v51 + ((u64)5ULL)));
  v57 = (v55 ? v56 : ((u64)5ULL));
  v60_t = v55;
  v61_t = v57;
  v60 = v60_t;
  v61 = v61_t;
  goto L17;
L14: ;
  __cxa_end_catch();
  if (v_exc) {
    goto L15;
  }
  v35_t = ((u1)0ULL);
  v36_t = ((u1)0ULL);
  v35 = v35_t;
  v36 = v36_t;
  goto L8;
L15: ;
  v58.f0 = v_exc_obj;
  v58.f1 = 0;
  v_exc = 0;
  v117 = v58;
  goto L43;
L16: ;
  v59.f0 = v_exc_obj;
  v59.f1 = 0;
  v_exc = 0;
  v117 = v59;
  goto L43;
L17: ;
  if (v60) {
    goto L18;
  } else {
    v83_t = v60;
    v84_t = v61;
    v83 = v83_t;
    v84 = v84_t;
    goto L23;
  }
L18: ;
  v62 = ((u64)(v5 - v61));
  v63 = (v62 > ((u64)3ULL));
  if (v63) {
    v64_t = ((u64)0ULL);
    v65_t = ((u64)0ULL);
    v64 = v64_t;
    v65 = v65_t;
    goto L19;
  } else {
    v83_t = v63;
    v84_t = v61;
    v83 = v83_t;
    v84 = v84_t;
    goto L23;
  }
L19: ;
  v66 = (v64 < ((u64)4ULL));
  if (v66) {
    goto L20;
  } else {
    v75 = v65;
    goto L21;
  }
L20: ;
  v67 = ((u64)(v64 + v61));
  v68 = ((u64)(v67 & ((u64)4294967295ULL)));
  v69 = (u8*)(&(*(&_ZL5g_raw)).e[(s64)((s64)v68)]);
  v70 = (*(&_ZL5g_raw)).e[(s64)((s64)v68)];
  v71 = ((u64)(v70));
  v72 = ((u64)(v64 << ((u64)3ULL)));
  v73 = ((u64)(v71 << v72));
  v74 = ((u64)(v73 | v65));
  v75 = v74;
  goto L21;
L21: ;
  v76 = ((u64)(v64 + ((u64)1ULL)));
  v77 = (v76 == ((u64)8ULL));
  if (v77) {
    goto L22;
  } else {
    v64_t = v76;
    v65_t = v75;
    v64 = v64_t;
    v65 = v65_t;
    goto L19;
  }
L22: ;
  v78 = ((u64)(v61 + ((u64)4ULL)));
  v79 = ((u64)(v5 - v78));
  v80 = (v75 <= v79);
  v81 = (v80 ? v75 : ((u64)0ULL));
  v82 = ((u64)(v81 + v78));
  v83_t = v80;
  v84_t = v82;
  v83 = v83_t;
  v84 = v84_t;
  goto L23;
L23: ;
  if (v83) {
    goto L24;
  } else {
    v104 = v83;
    goto L29;
  }
L24: ;
  v85 = ((u64)(v5 - v84));
  v86 = (v85 > ((u64)3ULL));
  if (v86) {
    v87_t = ((u64)0ULL);
    v88_t = ((u64)0ULL);
    v87 = v87_t;
    v88 = v88_t;
    goto L25;
  } else {
    v104 = v86;
    goto L29;
  }
L25: ;
  v89 = (v87 < ((u64)4ULL));
  if (v89) {
    goto L26;
  } else {
    v98 = v88;
    goto L27;
  }
L26: ;
  v90 = ((u64)(v87 + v84));
  v91 = ((u64)(v90 & ((u64)4294967295ULL)));
  v92 = (u8*)(&(*(&_ZL5g_raw)).e[(s64)((s64)v91)]);
  v93 = (*(&_ZL5g_raw)).e[(s64)((s64)v91)];
  v94 = ((u64)(v93));
  v95 = ((u64)(v87 << ((u64)3ULL)));
  v96 = ((u64)(v94 << v95));
  v97 = ((u64)(v96 | v88));
  v98 = v97;
  goto L27;
L27: ;
  v99 = ((u64)(v87 + ((u64)1ULL)));
  v100 = (v99 == ((u64)8ULL));
  if (v100) {
    goto L28;
  } else {
    v87_t = v99;
    v88_t = v98;
    v87 = v87_t;
    v88 = v88_t;
    goto L25;
  }
L28: ;
  v101 = ((u64)(v5 + ((u64)18446744073709551612ULL)));
  v102 = ((u64)(v101 - v84));
  v103 = (v98 <= v102);
  v104 = v103;
  goto L29;
L29: ;
  if (v104) {
    goto L33;
  } else {
    goto L30;
  }
L30: ;
  __CPROVER_assert(v36, "out == PARSE_ERROR @/verif/harness/C07_decoder.cpp:250 [_ZN21Case_property_info_13ILj0EE3runEv]");
  if (v_exc) {
    goto L32;
  }
  goto L31;
L31: ;
  __CPROVER_assert(0, "WITNESS:property info: malformed -> parse_error [_ZN21Case_property_info_13ILj0EE3runEv]");
  if (v_exc) {
    goto L32;
  }
  goto L35;
L32: ;
  v105.f0 = v_exc_obj;
  v105.f1 = 0;
  v_exc = 0;
  v117 = v105;
  goto L43;
L33: ;
  __CPROVER_assert(v36, "out == PARSE_ERROR @/verif/harness/C07_decoder.cpp:253 [_ZN21Case_property_info_13ILj0EE3runEv]");
  if (v_exc) {
    goto L32;
  }
  goto L34;
L34: ;
  __CPROVER_assert(0, "WITNESS:property info: 13-byte entry refused (code asks for 14) [_ZN21Case_property_info_13ILj0EE3runEv]");
  if (v_exc) {
    goto L32;
  }
  goto L35;
L35: ;
  v106 = (u8**)(&(*v1).f3.f0.f0.f0.f0);
  v107 = *v106;
  v108 = ((u8*)v107 == (u8*)((u8*)0));
  if (v108) {
    goto L37;
  } else {
    goto L36;
  }
L36: ;
  _ZdlPv(v107);
  goto L37;
L37: ;
  v109 = (u8**)(&(*v1).f2.f0.f0);
  v110 = *v109;
  v111 = ((u8*)v110 == (u8*)v26);
  if (v111) {
    goto L39;
  } else {
    goto L38;
  }
L38: ;
  _ZdlPv(v110);
  goto L39;
L39: ;
  v112 = (u8**)(&(*v1).f1.f0.f0);
  v113 = *v112;
  v114 = ((u8*)v113 == (u8*)v21);
  if (v114) {
    goto L41;
  } else {
    goto L40;
  }
L40: ;
  _ZdlPv(v113);
  goto L41;
L41: ;
  v115 = *v11;
  v116 = ((u8*)v115 == (u8*)((u8*)0));
  if (v116) {
    goto L52;
  } else {
    goto L42;
  }
L42: ;
  _ZdlPv(v115);
  goto L52;
L43: ;
  v118 = (u8**)(&(*v1).f3.f0.f0.f0.f0);
  v119 = *v118;
  v120 = ((u8*)v119 == (u8*)((u8*)0));
  if (v120) {
    goto L45;
  } else {
    goto L44;
  }
L44: ;
  _ZdlPv(v119);
  goto L45;
L45: ;
  v121 = (u8**)(&(*v1).f2.f0.f0);
  v122 = *v121;
  v123 = ((u8*)v122 == (u8*)v26);
  if (v123) {
    goto L47;
  } else {
    goto L46;
  }
L46: ;
  _ZdlPv(v122);
  goto L47;
L47: ;
  v124 = (u8**)(&(*v1).f1.f0.f0);
  v125 = *v124;
  v126 = ((u8*)v125 == (u8*)v21);
  if (v126) {
    goto L49;
  } else {
    goto L48;
  }
L48: ;
  _ZdlPv(v125);
  goto L49;
L49: ;
  v127 = *v11;
  v128 = ((u8*)v127 == (u8*)((u8*)0));
  if (v128) {
    goto L51;
  } else {
    goto L50;
  }
L50: ;
  _ZdlPv(v127);
  goto L51;
L51: ;
  v_exc = 1; return;
L52: ;
  goto L53;
L53: ;
  return;
}

void _GLOBAL__sub_I_Decoder_cc(void) {
  u32 v0;
L0: ;
  _ZNSt8ios_base4InitC1Ev((&_ZStL8__ioinit));
  if (v_exc) return;
  v0 = __cxa_atexit(((fnptr_t)((fnptr_t)_ZNSt8ios_base4InitD1Ev)), ((u8*)(&(*(&_ZStL8__ioinit)).f0)), (&__dso_handle));
  return;
}

u8 _ZN14OpenVolumeMesh2IO6detail7Decoder2u8Ev(struct S4_class_OpenVolumeMesh__IO__detail__Decode* a0) {
  u8** v0;
  u8* v1;
  u8* v2;
  u8 v3;
L0: ;
  v0 = (u8**)(&(*a0).f1);
  v1 = *v0;
  v2 = (u8*)(v1 + (s64)((s64)((u64)1ULL)));
  *v0 = v2;
  v3 = *v1;
  return v3;
}

u32 _ZN14OpenVolumeMesh2IO6detail7Decoder3u32Ev(struct S4_class_OpenVolumeMesh__IO__detail__Decode* a0) {
  u8** v0;
  u8* v1;
  u8 v2;
  u32 v3;
  u8* v4;
  u8 v5;
  u32 v6;
  u32 v7;
  u32 v8;
  u8* v9;
  u8 v10;
  u32 v11;
  u32 v12;
  u32 v13;
  u8* v14;
  u8 v15;
  u32 v16;
  u32 v17;
  u32 v18;
  u8* v19;
L0: ;
  v0 = (u8**)(&(*a0).f1);
  v1 = *v0;
  v2 = *v1;
  v3 = ((u32)(v2));
  v4 = (u8*)(v1 + (s64)((s64)((u64)1ULL)));
  v5 = *v4;
  v6 = ((u32)(v5));
  v7 = ((u32)(v6 << ((u32)8ULL)));
  v8 = ((u32)(v7 | v3));
  v9 = (u8*)(v1 + (s64)((s64)((u64)2ULL)));
  v10 = *v9;
  v11 = ((u32)(v10));
  v12 = ((u32)(v11 << ((u32)16ULL)));
  v13 = ((u32)(v8 | v12));
  v14 = (u8*)(v1 + (s64)((s64)((u64)3ULL)));
  v15 = *v14;
  v16 = ((u32)(v15));
  v17 = ((u32)(v16 << ((u32)24ULL)));
  v18 = ((u32)(v13 | v17));
  v19 = (u8*)(v1 + (s64)((s64)((u64)4ULL)));
  *v0 = v19;
  return v18;
}

u64 _ZN14OpenVolumeMesh2IO6detail7Decoder3u64Ev(struct S4_class_OpenVolumeMesh__IO__detail__Decode* a0) {
  u8** v0;
  u8* v1;
  u8 v2;
  u64 v3;
  u8* v4;
  u8 v5;
  u64 v6;
  u64 v7;
  u64 v8;
  u8* v9;
  u8 v10;
  u64 v11;
  u64 v12;
  u64 v13;
  u8* v14;
  u8 v15;
  u64 v16;
  u64 v17;
  u64 v18;
  u8* v19;
  u8 v20;
  u64 v21;
  u64 v22;
  u64 v23;
  u8* v24;
  u8 v25;
  u64 v26;
  u64 v27;
  u64 v28;
  u8* v29;
  u8 v30;
  u64 v31;
  u64 v32;
  u64 v33;
  u8* v34;
  u8 v35;
  u64 v36;
  u64 v37;
  u64 v38;
  u8* v39;
L0: ;
  v0 = (u8**)(&(*a0).f1);
  v1 = *v0;
  v2 = *v1;
  v3 = ((u64)(v2));
  v4 = (u8*)(v1 + (s64)((s64)((u64)1ULL)));
  v5 = *v4;
  v6 = ((u64)(v5));
  v7 = ((u64)(v6 << ((u64)8ULL)));
  v8 = ((u64)(v7 | v3));
  v9 = (u8*)(v1 + (s64)((s64)((u64)2ULL)));
  v10 = *v9;
  v11 = ((u64)(v10));
  v12 = ((u64)(v11 << ((u64)16ULL)));
  v13 = ((u64)(v8 | v12));
  v14 = (u8*)(v1 + (s64)((s64)((u64)3ULL)));
  v15 = *v14;
  v16 = ((u64)(v15));
  v17 = ((u64)(v16 << ((u64)24ULL)));
  v18 = ((u64)(v13 | v17));
  v19 = (u8*)(v1 + (s64)((s64)((u64)4ULL)));
  v20 = *v19;
  v21 = ((u64)(v20));
  v22 = ((u64)(v21 << ((u64)32ULL)));
  v23 = ((u64)(v18 | v22));
  v24 = (u8*)(v1 + (s64)((s64)((u64)5ULL)));
  v25 = *v24;
  v26 = ((u64)(v25));
  v27 = ((u64)(v26 << ((u64)40ULL)));
  v28 = ((u64)(v23 | v27));
  v29 = (u8*)(v1 + (s64)((s64)((u64)6ULL)));
  v30 = *v29;
  v31 = ((u64)(v30));
  v32 = ((u64)(v31 << ((u64)48ULL)));
  v33 = ((u64)(v28 + v32));
  v34 = (u8*)(v1 + (s64)((s64)((u64)7ULL)));
  v35 = *v34;
  v36 = ((u64)(v35));
  v37 = ((u64)(v36 << ((u64)56ULL)));
  v38 = ((u64)(v33 + v37));
  v39 = (u8*)(v1 + (s64)((s64)((u64)8ULL)));
  *v0 = v39;
  return v38;
}

void _ZN14OpenVolumeMesh2IO6detail7Decoder4readERNSt7__cxx1112basic_stringIcSt11char_traitsIcESaIcEEE(struct S4_class_OpenVolumeMesh__IO__detail__Decode* a0, struct S5_class_std____cxx11__basic_string* a1) {
  u8** v0;
  u8* v1;
  u8 v2;
  u64 v3;
  u8* v4;
  u8 v5;
  u64 v6;
  u64 v7;
  u64 v8;
  u8* v9;
  u8 v10;
  u64 v11;
  u64 v12;
  u64 v13;
  u8* v14;
  u8 v15;
  u64 v16;
  u64 v17;
  u64 v18;
  u8* v19;
  u8** v20;
  u8* v21;
  u64 v22;
  u64 v23;
  u64 v24;
  u1 v25;
  u8* v26;
  struct S7_class_OpenVolumeMesh__IO__detail__parse_* v27;
  struct S16 v28;
  u8** v29;
  u8* v30;
  u8* v31;
  u8* v32;
  u8* v33;
L0: ;
  v0 = (u8**)(&(*a0).f1);
  v1 = *v0;
  v2 = *v1;
  v3 = ((u64)(v2));
  v4 = (u8*)(v1 + (s64)((s64)((u64)1ULL)));
  v5 = *v4;
  v6 = ((u64)(v5));
  v7 = ((u64)(v6 << ((u64)8ULL)));
  v8 = ((u64)(v7 | v3));
  v9 = (u8*)(v1 + (s64)((s64)((u64)2ULL)));
  v10 = *v9;
  v11 = ((u64)(v10));
  v12 = ((u64)(v11 << ((u64)16ULL)));
  v13 = ((u64)(v8 | v12));
  v14 = (u8*)(v1 + (s64)((s64)((u64)3ULL)));
  v15 = *v14;
  v16 = ((u64)(v15));
  v17 = ((u64)(v16 << ((u64)24ULL)));
  v18 = ((u64)(v13 | v17));
  v19 = (u8*)(v1 + (s64)((s64)((u64)4ULL)));
  *v0 = v19;
  v20 = (u8**)(&(*a0).f2);
  v21 = *v20;
  v22 = ((u64)((u64)v21));
  v23 = ((u64)((u64)v19));
  v24 = v_pdiff((u8*)v21, (u8*)v19);
  v25 = (v24 < v18);
  if (v25) {
    goto L1;
  } else {
    goto L4;
  }
L1: ;
  v26 = __cxa_allocate_exception(((u64)16ULL));
  v27 = (struct S7_class_OpenVolumeMesh__IO__detail__parse_*)v26;
  _ZN14OpenVolumeMesh2IO6detail11parse_errorCI2St13runtime_errorEPKc(v27, ((u8*)(&(*(&_str_5)).e[(s64)((s64)((u64)0ULL))])));
  if (v_exc) {
    goto L3;
  }
  goto L2;
L2: ;
  __cxa_throw(v26, ((u8*)(&_ZTIN14OpenVolumeMesh2IO6detail11parse_errorE)), ((u8*)((fnptr_t)_ZNSt13runtime_errorD2Ev)));
  if (v_exc) return;
  __CPROVER_assume(0);
L3: ;
  v28.f0 = v_exc_obj;
  v28.f1 = 0;
  v_exc = 0;
  __cxa_free_exception(v26);
  v_exc = 1; return;
L4: ;
  _ZNSt7__cxx1112basic_stringIcSt11char_traitsIcESaIcEE6resizeEmc(a1, v18, ((u8)0ULL));
  if (v_exc) return;
  v29 = (u8**)(&(*a1).f0.f0);
  v30 = *v29;
  v31 = *v0;
  v_memcpy((u8*)v30, (u8*)v31, (u64)v18);
  v32 = *v0;
  v33 = (u8*)(v32 + (s64)((s64)v18));
  *v0 = v33;
  return;
}

void _ZN14OpenVolumeMesh2IO6detail11parse_errorCI2St13runtime_errorEPKc(struct S7_class_OpenVolumeMesh__IO__detail__parse_* a0, u8* a1) {
  struct S6_class_std__runtime_error* v0;
  fnptr_t** v1;
L0: ;
  v0 = (struct S6_class_std__runtime_error*)(&(*a0).f0.f0);
  _ZNSt13runtime_errorC2EPKc(v0, a1);
  if (v_exc) return;
  v1 = (fnptr_t**)(&(*a0).f0.f0.f0.f0);
  *v1 = ((fnptr_t*)((u8**)(&(*(&_ZTVN14OpenVolumeMesh2IO6detail11parse_errorE)).f0.e[(s64)((s64)((u64)2ULL))])));
  return;
}

void _ZN14OpenVolumeMesh2IO6detail7Decoder4needEm(struct S4_class_OpenVolumeMesh__IO__detail__Decode* a0, u64 a1) {
  u8** v0;
  u8* v1;
  u8** v2;
  u8* v3;
  u64 v4;
  u64 v5;
  u64 v6;
  u1 v7;
  u8* v8;
  struct S7_class_OpenVolumeMesh__IO__detail__parse_* v9;
  struct S16 v10;
L0: ;
  v0 = (u8**)(&(*a0).f2);
  v1 = *v0;
  v2 = (u8**)(&(*a0).f1);
  v3 = *v2;
  v4 = ((u64)((u64)v1));
  v5 = ((u64)((u64)v3));
  v6 = v_pdiff((u8*)v1, (u8*)v3);
  v7 = (v6 < a1);
  if (v7) {
    goto L1;
  } else {
    goto L4;
  }
L1: ;
  v8 = __cxa_allocate_exception(((u64)16ULL));
  v9 = (struct S7_class_OpenVolumeMesh__IO__detail__parse_*)v8;
  _ZN14OpenVolumeMesh2IO6detail11parse_errorCI2St13runtime_errorEPKc(v9, ((u8*)(&(*(&_str_5)).e[(s64)((s64)((u64)0ULL))])));
  if (v_exc) {
    goto L3;
  }
  goto L2;
L2: ;
  __cxa_throw(v8, ((u8*)(&_ZTIN14OpenVolumeMesh2IO6detail11parse_errorE)), ((u8*)((fnptr_t)_ZNSt13runtime_errorD2Ev)));
  if (v_exc) return;
  __CPROVER_assume(0);
L3: ;
  v10.f0 = v_exc_obj;
  v10.f1 = 0;
  v_exc = 0;
  __cxa_free_exception(v8);
  v_exc = 1; return;
L4: ;
  return;
}

void _ZN14OpenVolumeMesh2IO6detail7Decoder4readEPcm(struct S4_class_OpenVolumeMesh__IO__detail__Decode* a0, u8* a1, u64 a2) {
  u8** v0;
  u8* v1;
  u8* v2;
  u8* v3;
L0: ;
  v0 = (u8**)(&(*a0).f1);
  v1 = *v0;
  v_memcpy((u8*)a1, (u8*)v1, (u64)a2);
  v2 = *v0;
  v3 = (u8*)(v2 + (s64)((s64)a2));
  *v0 = v3;
  return;
}

void _ZN14OpenVolumeMesh2IO6detail7Decoder4readEPhm(struct S4_class_OpenVolumeMesh__IO__detail__Decode* a0, u8* a1, u64 a2) {
  u8** v0;
  u8* v1;
  u8* v2;
  u8* v3;
L0: ;
  v0 = (u8**)(&(*a0).f1);
  v1 = *v0;
  v_memcpy((u8*)a1, (u8*)v1, (u64)a2);
  v2 = *v0;
  v3 = (u8*)(v2 + (s64)((s64)a2));
  *v0 = v3;
  return;
}

void _ZN14OpenVolumeMesh2IO6detail7Decoder7paddingEh(struct S4_class_OpenVolumeMesh__IO__detail__Decode* a0, u8 a1) {
  u1 v0;
  u8** v1;
  u8* v2;
  u64 v3;
  u1 v4;
  u8** v5;
  u8* v6;
  u64 v7;
  u8* v8;
  u64 v9; u64 v9_t;
  u8* v10;
  u8 v11;
  u1 v12;
  u64 v13;
  u8* v14;
  struct S7_class_OpenVolumeMesh__IO__detail__parse_* v15;
  struct S16 v16;
L0: ;
  v0 = (a1 == ((u8)0ULL));
  if (v0) {
    goto L3;
  } else {
    goto L1;
  }
L1: ;
  v1 = (u8**)(&(*a0).f1);
  v2 = *v1;
  v3 = ((u64)(a1));
  v9 = ((u64)0ULL);
  goto L4;
L2: ;
  v4 = (v13 == v3);
  if (v4) {
    goto L3;
  } else {
    v9 = v13;
    goto L4;
  }
L3: ;
  v5 = (u8**)(&(*a0).f1);
  v6 = *v5;
  v7 = ((u64)(a1));
  v8 = (u8*)(v6 + (s64)((s64)v7));
  *v5 = v8;
  return;
L4: ;
  v10 = (u8*)(v2 + (s64)((s64)v9));
  v11 = *v10;
  v12 = (v11 == ((u8)0ULL));
  v13 = ((u64)(v9 + ((u64)1ULL)));
  if (v12) {
    goto L2;
  } else {
    goto L5;
  }
L5: ;
  v14 = __cxa_allocate_exception(((u64)16ULL));
  v15 = (struct S7_class_OpenVolumeMesh__IO__detail__parse_*)v14;
  _ZN14OpenVolumeMesh2IO6detail11parse_errorCI2St13runtime_errorEPKc(v15, ((u8*)(&(*(&_str_1_12)).e[(s64)((s64)((u64)0ULL))])));
  if (v_exc) {
    goto L7;
  }
  goto L6;
L6: ;
  __cxa_throw(v14, ((u8*)(&_ZTIN14OpenVolumeMesh2IO6detail11parse_errorE)), ((u8*)((fnptr_t)_ZNSt13runtime_errorD2Ev)));
  if (v_exc) return;
  __CPROVER_assume(0);
L7: ;
  v16.f0 = v_exc_obj;
  v16.f1 = 0;
  v_exc = 0;
  __cxa_free_exception(v14);
  v_exc = 1; return;
}

void __cxx_global_var_init(void) {
  u8 v0;
  u1 v1;
  u32 v2;
  u1 v3;
  u64 v4;
  u64 v5;
L0: ;
  v0 = *((u8*)(&_ZGVN14OpenVolumeMesh2IO6detail9ovmb_sizeINS1_10FileHeaderEEE));
  v1 = (v0 == ((u8)0ULL));
  if (v1) {
    goto L1;
  } else {
    goto L3;
  }
L1: ;
  v2 = __cxa_guard_acquire((&_ZGVN14OpenVolumeMesh2IO6detail9ovmb_sizeINS1_10FileHeaderEEE));
  v3 = (v2 == ((u32)0ULL));
  if (v3) {
    goto L3;
  } else {
    goto L2;
  }
L2: ;
  v4 = *(&_ZN14OpenVolumeMesh2IO6detail9ovmb_sizeINS1_8TopoTypeEEE);
  v5 = ((u64)(v4 + ((u64)47ULL)));
  *(&_ZN14OpenVolumeMesh2IO6detail9ovmb_sizeINS1_10FileHeaderEEE) = v5;
  __cxa_guard_release((&_ZGVN14OpenVolumeMesh2IO6detail9ovmb_sizeINS1_10FileHeaderEEE));
  goto L3;
L3: ;
  return;
}

void __cxx_global_var_init_2(void) {
  u8 v0;
  u1 v1;
  u32 v2;
  u1 v3;
  u64 v4;
  u64 v5;
  u64 v6;
  u64 v7;
L0: ;
  v0 = *((u8*)(&_ZGVN14OpenVolumeMesh2IO6detail9ovmb_sizeINS1_11ChunkHeaderEEE));
  v1 = (v0 == ((u8)0ULL));
  if (v1) {
    goto L1;
  } else {
    goto L3;
  }
L1: ;
  v2 = __cxa_guard_acquire((&_ZGVN14OpenVolumeMesh2IO6detail9ovmb_sizeINS1_11ChunkHeaderEEE));
  v3 = (v2 == ((u32)0ULL));
  if (v3) {
    goto L3;
  } else {
    goto L2;
  }
L2: ;
  v4 = *(&_ZN14OpenVolumeMesh2IO6detail9ovmb_sizeINS1_9ChunkTypeEEE);
  v5 = *(&_ZN14OpenVolumeMesh2IO6detail9ovmb_sizeINS1_10ChunkFlagsEEE);
  v6 = ((u64)(v4 + ((u64)11ULL)));
  v7 = ((u64)(v6 + v5));
  *(&_ZN14OpenVolumeMesh2IO6detail9ovmb_sizeINS1_11ChunkHeaderEEE) = v7;
  __cxa_guard_release((&_ZGVN14OpenVolumeMesh2IO6detail9ovmb_sizeINS1_11ChunkHeaderEEE));
  goto L3;
L3: ;
  return;
}

void __cxx_global_var_init_3(void) {
  u8 v0;
  u1 v1;
  u32 v2;
  u1 v3;
  u64 v4;
  u64 v5;
L0: ;
  v0 = *((u8*)(&_ZGVN14OpenVolumeMesh2IO6detail9ovmb_sizeINS1_15PropChunkHeaderEEE));
  v1 = (v0 == ((u8)0ULL));
  if (v1) {
    goto L1;
  } else {
    goto L3;
  }
L1: ;
  v2 = __cxa_guard_acquire((&_ZGVN14OpenVolumeMesh2IO6detail9ovmb_sizeINS1_15PropChunkHeaderEEE));
  v3 = (v2 == ((u32)0ULL));
  if (v3) {
    goto L3;
  } else {
    goto L2;
  }
L2: ;
  v4 = *(&_ZN14OpenVolumeMesh2IO6detail9ovmb_sizeINS1_9ArraySpanEEE);
  v5 = ((u64)(v4 + ((u64)4ULL)));
  *(&_ZN14OpenVolumeMesh2IO6detail9ovmb_sizeINS1_15PropChunkHeaderEEE) = v5;
  __cxa_guard_release((&_ZGVN14OpenVolumeMesh2IO6detail9ovmb_sizeINS1_15PropChunkHeaderEEE));
  goto L3;
L3: ;
  return;
}

void __cxx_global_var_init_4(void) {
  u8 v0;
  u1 v1;
  u32 v2;
  u1 v3;
  u64 v4;
  u64 v5;
L0: ;
  v0 = *((u8*)(&_ZGVN14OpenVolumeMesh2IO6detail9ovmb_sizeINS1_17VertexChunkHeaderEEE));
  v1 = (v0 == ((u8)0ULL));
  if (v1) {
    goto L1;
  } else {
    goto L3;
  }
L1: ;
  v2 = __cxa_guard_acquire((&_ZGVN14OpenVolumeMesh2IO6detail9ovmb_sizeINS1_17VertexChunkHeaderEEE));
  v3 = (v2 == ((u32)0ULL));
  if (v3) {
    goto L3;
  } else {
    goto L2;
  }
L2: ;
  v4 = *(&_ZN14OpenVolumeMesh2IO6detail9ovmb_sizeINS1_9ArraySpanEEE);
  v5 = ((u64)(v4 + ((u64)4ULL)));
  *(&_ZN14OpenVolumeMesh2IO6detail9ovmb_sizeINS1_17VertexChunkHeaderEEE) = v5;
  __cxa_guard_release((&_ZGVN14OpenVolumeMesh2IO6detail9ovmb_sizeINS1_17VertexChunkHeaderEEE));
  goto L3;
L3: ;
  return;
}

void __cxx_global_var_init_5(void) {
  u8 v0;
  u1 v1;
  u32 v2;
  u1 v3;
  u64 v4;
  u64 v5;
  u64 v6;
  u64 v7;
  u64 v8;
  u64 v9;
  u64 v10;
L0: ;
  v0 = *((u8*)(&_ZGVN14OpenVolumeMesh2IO6detail9ovmb_sizeINS1_15TopoChunkHeaderEEE));
  v1 = (v0 == ((u8)0ULL));
  if (v1) {
    goto L1;
  } else {
    goto L3;
  }
L1: ;
  v2 = __cxa_guard_acquire((&_ZGVN14OpenVolumeMesh2IO6detail9ovmb_sizeINS1_15TopoChunkHeaderEEE));
  v3 = (v2 == ((u32)0ULL));
  if (v3) {
    goto L3;
  } else {
    goto L2;
  }
L2: ;
  v4 = *(&_ZN14OpenVolumeMesh2IO6detail9ovmb_sizeINS1_9ArraySpanEEE);
  v5 = *(&_ZN14OpenVolumeMesh2IO6detail9ovmb_sizeINS1_10TopoEntityEEE);
  v6 = *(&_ZN14OpenVolumeMesh2IO6detail9ovmb_sizeINS1_11IntEncodingEEE);
  v7 = ((u64)(v6 << ((u64)1ULL)));
  v8 = ((u64)(v4 + ((u64)9ULL)));
  v9 = ((u64)(v8 + v5));
  v10 = ((u64)(v9 + v7));
  *(&_ZN14OpenVolumeMesh2IO6detail9ovmb_sizeINS1_15TopoChunkHeaderEEE) = v10;
  __cxa_guard_release((&_ZGVN14OpenVolumeMesh2IO6detail9ovmb_sizeINS1_15TopoChunkHeaderEEE));
  goto L3;
L3: ;
  return;
}

u1 _ZN14OpenVolumeMesh2IO6detail4readERNS1_7DecoderERNS1_10FileHeaderE(struct S4_class_OpenVolumeMesh__IO__detail__Decode* a0, struct S9_struct_OpenVolumeMesh__IO__detail__FileH* a1) {
  struct S3_struct_std__array_13* v0; struct S3_struct_std__array_13 v0_m;
  u64 v1;
  u8* v2;
  u32 v3;
  u1 v4;
  u8 v5;
  u8* v6;
  u8 v7;
  u8* v8;
  u1 v9;
  u8 v10;
  u8* v11;
  u8* v12;
  u8 v13;
  u1 v14;
  u8* v15;
  struct S7_class_OpenVolumeMesh__IO__detail__parse_* v16;
  struct S16 v17;
  u64 v18;
  u64* v19;
  u64 v20;
  u64* v21;
  u64 v22;
  u64* v23;
  u64 v24;
  u64* v25;
  u1 v26; u1 v26_t;
L0: ;
  v0 = &v0_m;
  v1 = *(&_ZN14OpenVolumeMesh2IO6detail9ovmb_sizeINS1_10FileHeaderEEE);
  _ZN14OpenVolumeMesh2IO6detail7Decoder4needEm(a0, v1);
  if (v_exc) return (u1)0;
  v2 = (u8*)(&(*v0).f0.e[(s64)((s64)((u64)0ULL))]);
  _ZN14OpenVolumeMesh2IO6detail7Decoder4readEPhm(a0, v2, ((u64)8ULL));
  v3 = bcmp(v2, ((u8*)(&(*(&_ZN14OpenVolumeMesh2IO6detail10ovmb_magicE)).f0.e[(s64)((s64)((u64)0ULL))])), ((u64)8ULL));
  v4 = (v3 == ((u32)0ULL));
  if (v4) {
    goto L1;
  } else {
    v26 = ((u1)0ULL);
    goto L7;
  }
L1: ;
  v5 = _ZN14OpenVolumeMesh2IO6detail7Decoder2u8Ev(a0);
  v6 = (u8*)(&(*a1).f0);
  *v6 = v5;
  v7 = _ZN14OpenVolumeMesh2IO6detail7Decoder2u8Ev(a0);
  v8 = (u8*)(&(*a1).f1);
  *v8 = v7;
  v9 = (v7 == ((u8)1ULL));
  if (v9) {
    goto L2;
  } else {
    v26 = ((u1)0ULL);
    goto L7;
  }
L2: ;
  v10 = _ZN14OpenVolumeMesh2IO6detail7Decoder2u8Ev(a0);
  v11 = (u8*)(&(*a1).f2);
  *v11 = v10;
  v12 = (u8*)(&(*a1).f3);
  v13 = _ZN14OpenVolumeMesh2IO6detail7Decoder2u8Ev(a0);
  *v12 = v13;
  v14 = (v13 < ((u8)3ULL));
  if (v14) {
    goto L6;
  } else {
    goto L3;
  }
L3: ;
  v15 = __cxa_allocate_exception(((u64)16ULL));
  v16 = (struct S7_class_OpenVolumeMesh__IO__detail__parse_*)v15;
  _ZN14OpenVolumeMesh2IO6detail11parse_errorCI2St13runtime_errorEPKc(v16, ((u8*)(&(*(&_str_59)).e[(s64)((s64)((u64)0ULL))])));
  if (v_exc) {
    goto L5;
  }
  goto L4;
L4: ;
  __cxa_throw(v15, ((u8*)(&_ZTIN14OpenVolumeMesh2IO6detail11parse_errorE)), ((u8*)((fnptr_t)_ZNSt13runtime_errorD2Ev)));
  if (v_exc) return (u1)0;
  __CPROVER_assume(0);
L5: ;
  v17.f0 = v_exc_obj;
  v17.f1 = 0;
  v_exc = 0;
  __cxa_free_exception(v15);
  v_exc = 1; return (u1)0;
L6: ;
  _ZN14OpenVolumeMesh2IO6detail7Decoder8reservedILh4EEEvv(a0);
  if (v_exc) return (u1)0;
  v18 = _ZN14OpenVolumeMesh2IO6detail7Decoder3u64Ev(a0);
  v19 = (u64*)(&(*a1).f4);
  *v19 = v18;
  v20 = _ZN14OpenVolumeMesh2IO6detail7Decoder3u64Ev(a0);
  v21 = (u64*)(&(*a1).f5);
  *v21 = v20;
  v22 = _ZN14OpenVolumeMesh2IO6detail7Decoder3u64Ev(a0);
  v23 = (u64*)(&(*a1).f6);
  *v23 = v22;
  v24 = _ZN14OpenVolumeMesh2IO6detail7Decoder3u64Ev(a0);
  v25 = (u64*)(&(*a1).f7);
  *v25 = v24;
  v26 = ((u1)1ULL);
  goto L7;
L7: ;
  return v26;
}

void _ZN14OpenVolumeMesh2IO6detail4readERNS1_7DecoderERNS1_9ArraySpanE(struct S4_class_OpenVolumeMesh__IO__detail__Decode* a0, struct S10_struct_OpenVolumeMesh__IO__detail__Array* a1) {
  u64 v0;
  u64 v1;
  u64* v2;
  u32 v3;
  u32* v4;
L0: ;
  v0 = *(&_ZN14OpenVolumeMesh2IO6detail9ovmb_sizeINS1_9ArraySpanEEE);
  _ZN14OpenVolumeMesh2IO6detail7Decoder4needEm(a0, v0);
  if (v_exc) return;
  v1 = _ZN14OpenVolumeMesh2IO6detail7Decoder3u64Ev(a0);
  v2 = (u64*)(&(*a1).f0);
  *v2 = v1;
  v3 = _ZN14OpenVolumeMesh2IO6detail7Decoder3u32Ev(a0);
  v4 = (u32*)(&(*a1).f1);
  *v4 = v3;
  return;
}

void _ZN14OpenVolumeMesh2IO6detail4readERNS1_7DecoderERNS1_11ChunkHeaderE(struct S4_class_OpenVolumeMesh__IO__detail__Decode* a0, struct S11_struct_OpenVolumeMesh__IO__detail__Chunk* a1) {
  u64 v0;
  u32* v1;
  u32 v2;
  u8 v3;
  u8* v4;
  u8 v5;
  u8* v6;
  u8 v7;
  u8* v8;
  u8* v9;
  u8 v10;
  u1 v11;
  u8* v12;
  struct S7_class_OpenVolumeMesh__IO__detail__parse_* v13;
  u8* v14; u8* v14_t;
  struct S16 v15; struct S16 v15_t;
  struct S16 v16;
  u64 v17;
  u64* v18;
  u8 v19;
  u64 v20;
  u1 v21;
  u8* v22;
  struct S7_class_OpenVolumeMesh__IO__detail__parse_* v23;
  struct S16 v24;
  u64 v25;
  u64* v26;
L0: ;
  v0 = *(&_ZN14OpenVolumeMesh2IO6detail9ovmb_sizeINS1_11ChunkHeaderEEE);
  _ZN14OpenVolumeMesh2IO6detail7Decoder4needEm(a0, v0);
  if (v_exc) return;
  v1 = (u32*)(&(*a1).f0);
  v2 = _ZN14OpenVolumeMesh2IO6detail7Decoder3u32Ev(a0);
  *v1 = v2;
  v3 = _ZN14OpenVolumeMesh2IO6detail7Decoder2u8Ev(a0);
  v4 = (u8*)(&(*a1).f1);
  *v4 = v3;
  v5 = _ZN14OpenVolumeMesh2IO6detail7Decoder2u8Ev(a0);
  v6 = (u8*)(&(*a1).f2);
  *v6 = v5;
  v7 = _ZN14OpenVolumeMesh2IO6detail7Decoder2u8Ev(a0);
  v8 = (u8*)(&(*a1).f3);
  *v8 = v7;
  v9 = (u8*)(&(*a1).f4);
  v10 = _ZN14OpenVolumeMesh2IO6detail7Decoder2u8Ev(a0);
  *v9 = v10;
  v11 = (v10 < ((u8)2ULL));
  if (v11) {
    goto L5;
  } else {
    goto L1;
  }
L1: ;
  v12 = __cxa_allocate_exception(((u64)16ULL));
  v13 = (struct S7_class_OpenVolumeMesh__IO__detail__parse_*)v12;
  _ZN14OpenVolumeMesh2IO6detail11parse_errorCI2St13runtime_errorEPKc(v13, ((u8*)(&(*(&_str_59)).e[(s64)((s64)((u64)0ULL))])));
  if (v_exc) {
    goto L4;
  }
  goto L2;
L2: ;
  __cxa_throw(v12, ((u8*)(&_ZTIN14OpenVolumeMesh2IO6detail11parse_errorE)), ((u8*)((fnptr_t)_ZNSt13runtime_errorD2Ev)));
  if (v_exc) return;
  __CPROVER_assume(0);
L3: ;
  __cxa_free_exception(v14);
  v_exc = 1; return;
L4: ;
  v16.f0 = v_exc_obj;
  v16.f1 = 0;
  v_exc = 0;
  v14_t = v12;
  v15_t = v16;
  v14 = v14_t;
  v15 = v15_t;
  goto L3;
L5: ;
  v17 = _ZN14OpenVolumeMesh2IO6detail7Decoder3u64Ev(a0);
  v18 = (u64*)(&(*a1).f5);
  *v18 = v17;
  v19 = *v6;
  v20 = ((u64)(v19));
  v21 = (v17 < v20);
  if (v21) {
    goto L6;
  } else {
    goto L9;
  }
L6: ;
  v22 = __cxa_allocate_exception(((u64)16ULL));
  v23 = (struct S7_class_OpenVolumeMesh__IO__detail__parse_*)v22;
  _ZN14OpenVolumeMesh2IO6detail11parse_errorCI2St13runtime_errorEPKc(v23, ((u8*)(&(*(&_str_1_66)).e[(s64)((s64)((u64)0ULL))])));
  if (v_exc) {
    goto L8;
  }
  goto L7;
L7: ;
  __cxa_throw(v22, ((u8*)(&_ZTIN14OpenVolumeMesh2IO6detail11parse_errorE)), ((u8*)((fnptr_t)_ZNSt13runtime_errorD2Ev)));
  if (v_exc) return;
  __CPROVER_assume(0);
L8: ;
  v24.f0 = v_exc_obj;
  v24.f1 = 0;
  v_exc = 0;
  v14_t = v22;
  v15_t = v24;
  v14 = v14_t;
  v15 = v15_t;
  goto L3;
L9: ;
  v25 = ((u64)(v17 - v20));
  v26 = (u64*)(&(*a1).f6);
  *v26 = v25;
  return;
}

void _ZN14OpenVolumeMesh2IO6detail4readERNS1_7DecoderERNS1_15PropChunkHeaderE(struct S4_class_OpenVolumeMesh__IO__detail__Decode* a0, struct S12_struct_OpenVolumeMesh__IO__detail__PropC* a1) {
  u64 v0;
  u64 v1;
  u64 v2;
  u64* v3;
  u32 v4;
  u32* v5;
  u32 v6;
  u32* v7;
L0: ;
  v0 = *(&_ZN14OpenVolumeMesh2IO6detail9ovmb_sizeINS1_15PropChunkHeaderEEE);
  _ZN14OpenVolumeMesh2IO6detail7Decoder4needEm(a0, v0);
  if (v_exc) return;
  v1 = *(&_ZN14OpenVolumeMesh2IO6detail9ovmb_sizeINS1_9ArraySpanEEE);
  _ZN14OpenVolumeMesh2IO6detail7Decoder4needEm(a0, v1);
  if (v_exc) return;
  v2 = _ZN14OpenVolumeMesh2IO6detail7Decoder3u64Ev(a0);
  v3 = (u64*)(&(*a1).f0.f0);
  *v3 = v2;
  v4 = _ZN14OpenVolumeMesh2IO6detail7Decoder3u32Ev(a0);
  v5 = (u32*)(&(*a1).f0.f1);
  *v5 = v4;
  v6 = _ZN14OpenVolumeMesh2IO6detail7Decoder3u32Ev(a0);
  v7 = (u32*)(&(*a1).f1);
  *v7 = v6;
  return;
}

void _ZN14OpenVolumeMesh2IO6detail4readERNS1_7DecoderERNS1_17VertexChunkHeaderE(struct S4_class_OpenVolumeMesh__IO__detail__Decode* a0, struct S13_struct_OpenVolumeMesh__IO__detail__Verte* a1) {
  u64 v0;
  u64 v1;
  u64 v2;
  u64* v3;
  u32 v4;
  u32* v5;
  u8* v6;
  u8 v7;
  u1 v8;
  u8* v9;
  struct S7_class_OpenVolumeMesh__IO__detail__parse_* v10;
  struct S16 v11;
L0: ;
  v0 = *(&_ZN14OpenVolumeMesh2IO6detail9ovmb_sizeINS1_17VertexChunkHeaderEEE);
  _ZN14OpenVolumeMesh2IO6detail7Decoder4needEm(a0, v0);
  if (v_exc) return;
  v1 = *(&_ZN14OpenVolumeMesh2IO6detail9ovmb_sizeINS1_9ArraySpanEEE);
  _ZN14OpenVolumeMesh2IO6detail7Decoder4needEm(a0, v1);
  if (v_exc) return;
  v2 = _ZN14OpenVolumeMesh2IO6detail7Decoder3u64Ev(a0);
  v3 = (u64*)(&(*a1).f0.f0);
  *v3 = v2;
  v4 = _ZN14OpenVolumeMesh2IO6detail7Decoder3u32Ev(a0);
  v5 = (u32*)(&(*a1).f0.f1);
  *v5 = v4;
  v6 = (u8*)(&(*a1).f1);
  v7 = _ZN14OpenVolumeMesh2IO6detail7Decoder2u8Ev(a0);
  *v6 = v7;
  v8 = (v7 < ((u8)3ULL));
  if (v8) {
    goto L4;
  } else {
    goto L1;
  }
L1: ;
  v9 = __cxa_allocate_exception(((u64)16ULL));
  v10 = (struct S7_class_OpenVolumeMesh__IO__detail__parse_*)v9;
  _ZN14OpenVolumeMesh2IO6detail11parse_errorCI2St13runtime_errorEPKc(v10, ((u8*)(&(*(&_str_59)).e[(s64)((s64)((u64)0ULL))])));
  if (v_exc) {
    goto L3;
  }
  goto L2;
L2: ;
  __cxa_throw(v9, ((u8*)(&_ZTIN14OpenVolumeMesh2IO6detail11parse_errorE)), ((u8*)((fnptr_t)_ZNSt13runtime_errorD2Ev)));
  if (v_exc) return;
  __CPROVER_assume(0);
L3: ;
  v11.f0 = v_exc_obj;
  v11.f1 = 0;
  v_exc = 0;
  __cxa_free_exception(v9);
  v_exc = 1; return;
L4: ;
  _ZN14OpenVolumeMesh2IO6detail7Decoder8reservedILh3EEEvv(a0);
  if (v_exc) return;
  return;
}

void _ZN14OpenVolumeMesh2IO6detail4readERNS1_7DecoderERNS1_15TopoChunkHeaderE(struct S4_class_OpenVolumeMesh__IO__detail__Decode* a0, struct S14_struct_OpenVolumeMesh__IO__detail__TopoC* a1) {
  u64 v0;
  u64 v1;
  u64 v2;
  u64* v3;
  u32 v4;
  u32* v5;
  u8* v6;
  u8 v7;
  u8 v8;
  u1 v9;
  u8* v10;
  struct S7_class_OpenVolumeMesh__IO__detail__parse_* v11;
  u8* v12; u8* v12_t;
  struct S16 v13; struct S16 v13_t;
  struct S16 v14;
  u8 v15;
  u8* v16;
  u8* v17;
  u8 v18;
  u8* v19;
  struct S7_class_OpenVolumeMesh__IO__detail__parse_* v20;
  struct S16 v21;
  u8* v22;
  u8 v23;
  u8* v24;
  struct S7_class_OpenVolumeMesh__IO__detail__parse_* v25;
  struct S16 v26;
  u64 v27;
  u64* v28;
L0: ;
  v0 = *(&_ZN14OpenVolumeMesh2IO6detail9ovmb_sizeINS1_15TopoChunkHeaderEEE);
  _ZN14OpenVolumeMesh2IO6detail7Decoder4needEm(a0, v0);
  if (v_exc) return;
  v1 = *(&_ZN14OpenVolumeMesh2IO6detail9ovmb_sizeINS1_9ArraySpanEEE);
  _ZN14OpenVolumeMesh2IO6detail7Decoder4needEm(a0, v1);
  if (v_exc) return;
  v2 = _ZN14OpenVolumeMesh2IO6detail7Decoder3u64Ev(a0);
  v3 = (u64*)(&(*a1).f0.f0);
  *v3 = v2;
  v4 = _ZN14OpenVolumeMesh2IO6detail7Decoder3u32Ev(a0);
  v5 = (u32*)(&(*a1).f0.f1);
  *v5 = v4;
  v6 = (u8*)(&(*a1).f1);
  v7 = _ZN14OpenVolumeMesh2IO6detail7Decoder2u8Ev(a0);
  *v6 = v7;
  v8 = ((u8)(v7 + ((u8)255ULL)));
  v9 = (v8 < ((u8)3ULL));
  if (v9) {
    goto L5;
  } else {
    goto L1;
  }
L1: ;
  v10 = __cxa_allocate_exception(((u64)16ULL));
  v11 = (struct S7_class_OpenVolumeMesh__IO__detail__parse_*)v10;
  _ZN14OpenVolumeMesh2IO6detail11parse_errorCI2St13runtime_errorEPKc(v11, ((u8*)(&(*(&_str_59)).e[(s64)((s64)((u64)0ULL))])));
  if (v_exc) {
    goto L4;
  }
  goto L2;
L2: ;
  __cxa_throw(v10, ((u8*)(&_ZTIN14OpenVolumeMesh2IO6detail11parse_errorE)), ((u8*)((fnptr_t)_ZNSt13runtime_errorD2Ev)));
  if (v_exc) return;
  __CPROVER_assume(0);
L3: ;
  __cxa_free_exception(v12);
  v_exc = 1; return;
L4: ;
  v14.f0 = v_exc_obj;
  v14.f1 = 0;
  v_exc = 0;
  v12_t = v10;
  v13_t = v14;
  v12 = v12_t;
  v13 = v13_t;
  goto L3;
L5: ;
  v15 = _ZN14OpenVolumeMesh2IO6detail7Decoder2u8Ev(a0);
  v16 = (u8*)(&(*a1).f2);
  *v16 = v15;
  v17 = (u8*)(&(*a1).f3);
  v18 = _ZN14OpenVolumeMesh2IO6detail7Decoder2u8Ev(a0);
  *v17 = v18;
  switch (v18) {
  case ((u8)4ULL): {
    goto L9;
  }
  case ((u8)2ULL): {
    goto L9;
  }
  case ((u8)1ULL): {
    goto L9;
  }
  case ((u8)0ULL): {
    goto L9;
  }
  default: {
    goto L6;
  }
  }
L6: ;
  v19 = __cxa_allocate_exception(((u64)16ULL));
  v20 = (struct S7_class_OpenVolumeMesh__IO__detail__parse_*)v19;
  _ZN14OpenVolumeMesh2IO6detail11parse_errorCI2St13runtime_errorEPKc(v20, ((u8*)(&(*(&_str_59)).e[(s64)((s64)((u64)0ULL))])));
  if (v_exc) {
    goto L8;
  }
  goto L7;
L7: ;
  __cxa_throw(v19, ((u8*)(&_ZTIN14OpenVolumeMesh2IO6detail11parse_errorE)), ((u8*)((fnptr_t)_ZNSt13runtime_errorD2Ev)));
  if (v_exc) return;
  __CPROVER_assume(0);
L8: ;
  v21.f0 = v_exc_obj;
  v21.f1 = 0;
  v_exc = 0;
  v12_t = v19;
  v13_t = v21;
  v12 = v12_t;
  v13 = v13_t;
  goto L3;
L9: ;
  v22 = (u8*)(&(*a1).f4);
  v23 = _ZN14OpenVolumeMesh2IO6detail7Decoder2u8Ev(a0);
  *v22 = v23;
  switch (v23) {
  case ((u8)4ULL): {
    goto L13;
  }
  case ((u8)2ULL): {
    goto L13;
  }
  case ((u8)1ULL): {
    goto L13;
  }
  case ((u8)0ULL): {
    goto L13;
  }
  default: {
    goto L10;
  }
  }
L10: ;
  v24 = __cxa_allocate_exception(((u64)16ULL));
  v25 = (struct S7_class_OpenVolumeMesh__IO__detail__parse_*)v24;
  _ZN14OpenVolumeMesh2IO6detail11parse_errorCI2St13runtime_errorEPKc(v25, ((u8*)(&(*(&_str_59)).e[(s64)((s64)((u64)0ULL))])));
  if (v_exc) {
    goto L12;
  }
  goto L11;
L11: ;
  __cxa_throw(v24, ((u8*)(&_ZTIN14OpenVolumeMesh2IO6detail11parse_errorE)), ((u8*)((fnptr_t)_ZNSt13runtime_errorD2Ev)));
  if (v_exc) return;
  __CPROVER_assume(0);
L12: ;
  v26.f0 = v_exc_obj;
  v26.f1 = 0;
  v_exc = 0;
  v12_t = v24;
  v13_t = v26;
  v12 = v12_t;
  v13 = v13_t;
  goto L3;
L13: ;
  v27 = _ZN14OpenVolumeMesh2IO6detail7Decoder3u64Ev(a0);
  v28 = (u64*)(&(*a1).f5);
  *v28 = v27;
  return;
}

void _ZN14OpenVolumeMesh2IO6detail4readERNS1_7DecoderERNS1_12PropertyInfoE(struct S4_class_OpenVolumeMesh__IO__detail__Decode* a0, struct S15_struct_OpenVolumeMesh__IO__detail__Prope* a1) {
  u8* v0;
  u8 v1;
  u1 v2;
  u8* v3;
  struct S7_class_OpenVolumeMesh__IO__detail__parse_* v4;
  struct S16 v5;
  struct S5_class_std____cxx11__basic_string* v6;
  u32 v7;
  u64 v8;
  u8** v9;
  u8* v10;
  struct S5_class_std____cxx11__basic_string* v11;
  u32 v12;
  u64 v13;
  u8** v14;
  u8* v15;
  struct S8_class_std__vector* v16;
  u32 v17;
  u64 v18;
  u8** v19;
  u8* v20;
  u8** v21;
  u8* v22;
  u64 v23;
  u64 v24;
  u64 v25;
  u1 v26;
  u64 v27;
  u1 v28;
  u8* v29;
  u1 v30;
  u8* v31;
L0: ;
  _ZN14OpenVolumeMesh2IO6detail7Decoder4needEm(a0, ((u64)14ULL));
  if (v_exc) return;
  v0 = (u8*)(&(*a1).f0);
  v1 = _ZN14OpenVolumeMesh2IO6detail7Decoder2u8Ev(a0);
  *v0 = v1;
  v2 = (v1 < ((u8)7ULL));
  if (v2) {
    goto L4;
  } else {
    goto L1;
  }
L1: ;
  v3 = __cxa_allocate_exception(((u64)16ULL));
  v4 = (struct S7_class_OpenVolumeMesh__IO__detail__parse_*)v3;
  _ZN14OpenVolumeMesh2IO6detail11parse_errorCI2St13runtime_errorEPKc(v4, ((u8*)(&(*(&_str_59)).e[(s64)((s64)((u64)0ULL))])));
  if (v_exc) {
    goto L3;
  }
  goto L2;
L2: ;
  __cxa_throw(v3, ((u8*)(&_ZTIN14OpenVolumeMesh2IO6detail11parse_errorE)), ((u8*)((fnptr_t)_ZNSt13runtime_errorD2Ev)));
  if (v_exc) return;
  __CPROVER_assume(0);
L3: ;
  v5.f0 = v_exc_obj;
  v5.f1 = 0;
  v_exc = 0;
  __cxa_free_exception(v3);
  v_exc = 1; return;
L4: ;
  v6 = (struct S5_class_std____cxx11__basic_string*)(&(*a1).f1);
  _ZN14OpenVolumeMesh2IO6detail7Decoder4needEm(a0, ((u64)4ULL));
  if (v_exc) return;
  v7 = _ZN14OpenVolumeMesh2IO6detail7Decoder3u32Ev(a0);
  v8 = ((u64)(v7));
  _ZN14OpenVolumeMesh2IO6detail7Decoder4needEm(a0, v8);
  if (v_exc) return;
  _ZNSt7__cxx1112basic_stringIcSt11char_traitsIcESaIcEE6resizeEmc(v6, v8, ((u8)0ULL));
  if (v_exc) return;
  v9 = (u8**)(&(*v6).f0.f0);
  v10 = *v9;
  _ZN14OpenVolumeMesh2IO6detail7Decoder4readEPcm(a0, v10, v8);
  v11 = (struct S5_class_std____cxx11__basic_string*)(&(*a1).f2);
  _ZN14OpenVolumeMesh2IO6detail7Decoder4needEm(a0, ((u64)4ULL));
  if (v_exc) return;
  v12 = _ZN14OpenVolumeMesh2IO6detail7Decoder3u32Ev(a0);
  v13 = ((u64)(v12));
  _ZN14OpenVolumeMesh2IO6detail7Decoder4needEm(a0, v13);
  if (v_exc) return;
  _ZNSt7__cxx1112basic_stringIcSt11char_traitsIcESaIcEE6resizeEmc(v11, v13, ((u8)0ULL));
  if (v_exc) return;
  v14 = (u8**)(&(*v11).f0.f0);
  v15 = *v14;
  _ZN14OpenVolumeMesh2IO6detail7Decoder4readEPcm(a0, v15, v13);
  v16 = (struct S8_class_std__vector*)(&(*a1).f3);
  _ZN14OpenVolumeMesh2IO6detail7Decoder4needEm(a0, ((u64)4ULL));
  if (v_exc) return;
  v17 = _ZN14OpenVolumeMesh2IO6detail7Decoder3u32Ev(a0);
  v18 = ((u64)(v17));
  _ZN14OpenVolumeMesh2IO6detail7Decoder4needEm(a0, v18);
  if (v_exc) return;
  v19 = (u8**)(&(*a1).f3.f0.f0.f0.f1);
  v20 = *v19;
  v21 = (u8**)(&(*v16).f0.f0.f0.f0);
  v22 = *v21;
  v23 = ((u64)((u64)v20));
  v24 = ((u64)((u64)v22));
  v25 = v_pdiff((u8*)v20, (u8*)v22);
  v26 = (v25 < v18);
  if (v26) {
    goto L5;
  } else {
    goto L6;
  }
L5: ;
  v27 = ((u64)(v18 - v25));
  _ZNSt6vectorIhSaIhEE17_M_default_appendEm(v16, v27);
  if (v_exc) return;
  goto L9;
L6: ;
  v28 = (v25 > v18);
  if (v28) {
    goto L7;
  } else {
    goto L9;
  }
L7: ;
  v29 = (u8*)(v22 + (s64)((s64)v18));
  v30 = ((u8*)v20 == (u8*)v29);
  if (v30) {
    goto L9;
  } else {
    goto L8;
  }
L8: ;
  *v19 = v29;
  goto L9;
L9: ;
  v31 = *v21;
  _ZN14OpenVolumeMesh2IO6detail7Decoder4readEPhm(a0, v31, v18);
  return;
}

void _GLOBAL__sub_I_Encoder_cc(void) {
  u32 v0;
L0: ;
  _ZNSt8ios_base4InitC1Ev((&_ZStL8__ioinit_94));
  if (v_exc) return;
  v0 = __cxa_atexit(((fnptr_t)((fnptr_t)_ZNSt8ios_base4InitD1Ev)), ((u8*)(&(*(&_ZStL8__ioinit_94)).f0)), (&__dso_handle));
  return;
}

void _GLOBAL__sub_I_WriteBuffer_cc(void) {
  u32 v0;
L0: ;
  _ZNSt8ios_base4InitC1Ev((&_ZStL8__ioinit_107));
  if (v_exc) return;
  v0 = __cxa_atexit(((fnptr_t)((fnptr_t)_ZNSt8ios_base4InitD1Ev)), ((u8*)(&(*(&_ZStL8__ioinit_107)).f0)), (&__dso_handle));
  return;
}

void _ZSt20__throw_length_errorPKc(u8* a0) {
L0: ;
  v_throw_std(((u32)1ULL));
  if (v_exc) return;
  __CPROVER_assume(0);
}

void _ZSt17__throw_bad_allocv(void) {
L0: ;
  v_throw_std(((u32)2ULL));
  if (v_exc) return;
  __CPROVER_assume(0);
}

void _ZNSt7__cxx1112basic_stringIcSt11char_traitsIcESaIcEE12_M_constructEmc(struct S5_class_std____cxx11__basic_string* a0, u64 a1, u8 a2) {
  u1 v0;
  u1 v1;
  u64 v2;
  u1 v3;
  u8* v4;
  u8** v5;
  u64* v6;
  u1 v7;
  u8** v8;
  u8* v9;
  u1 v10;
  u64* v11;
  u8** v12;
  u8* v13;
  u8* v14;
L0: ;
  v0 = (a1 > ((u64)15ULL));
  if (v0) {
    goto L1;
  } else {
    goto L6;
  }
L1: ;
  v1 = (a1 > ((u64)4611686018427387903ULL));
  if (v1) {
    goto L2;
  } else {
    goto L3;
  }
L2: ;
  _ZSt20__throw_length_errorPKc(((u8*)0));
  if (v_exc) return;
  __CPROVER_assume(0);
L3: ;
  v2 = ((u64)(a1 + ((u64)1ULL)));
  v3 = (((s64)v2) < ((s64)((u64)0ULL)));
  if (v3) {
    goto L4;
  } else {
    goto L5;
  }
L4: ;
  _ZSt17__throw_bad_allocv();
  if (v_exc) return;
  __CPROVER_assume(0);
L5: ;
  v4 = _Znwm(v2);
  if (v_exc) return;
  v5 = (u8**)(&(*a0).f0.f0);
  *v5 = v4;
  v6 = (u64*)(&(*a0).f2.f0.e[0]);
  *v6 = a1;
  goto L6;
L6: ;
  v7 = (a1 == ((u64)0ULL));
  if (v7) {
    goto L10;
  } else {
    goto L7;
  }
L7: ;
  v8 = (u8**)(&(*a0).f0.f0);
  v9 = *v8;
  v10 = (a1 == ((u64)1ULL));
  if (v10) {
    goto L8;
  } else {
    goto L9;
  }
L8: ;
  *v9 = a2;
  goto L10;
L9: ;
  v_memset((u8*)v9, a2, (u64)a1);
  goto L10;
L10: ;
  v11 = (u64*)(&(*a0).f1);
  *v11 = a1;
  v12 = (u8**)(&(*a0).f0.f0);
  v13 = *v12;
  v14 = (u8*)(v13 + (s64)((s64)a1));
  *v14 = ((u8)0ULL);
  return;
}

void _ZNSt7__cxx1112basic_stringIcSt11char_traitsIcESaIcEE9_M_mutateEmmPKcm(struct S5_class_std____cxx11__basic_string* a0, u64 a1, u64 a2, u8* a3, u64 a4) {
  u64* v0;
  u64 v1;
  u64 v2;
  u64 v3;
  u64 v4;
  u64 v5;
  u8** v6;
  u8* v7;
  struct S18_union_anon* v8;
  u8* v9;
  u1 v10;
  u64* v11;
  u64 v12;
  u64 v13;
  u1 v14;
  u1 v15;
  u64 v16;
  u1 v17;
  u1 v18;
  u64 v19;
  u64 v20; u64 v20_t;
  u64 v21;
  u1 v22;
  u8* v23;
  u8 v24;
  u1 v25;
  u1 v26;
  u1 v27;
  u8* v28;
  u8 v29;
  u1 v30;
  u8* v31;
  u8* v32;
  u8* v33;
  u8* v34;
  u1 v35;
  u8 v36;
L0: ;
  v0 = (u64*)(&(*a0).f1);
  v1 = *v0;
  v2 = ((u64)(a2 + a1));
  v3 = ((u64)(v1 - v2));
  v4 = ((u64)(a4 - a2));
  v5 = ((u64)(v4 + v1));
  v6 = (u8**)(&(*a0).f0.f0);
  v7 = *v6;
  v8 = (struct S18_union_anon*)(&(*a0).f2);
  v9 = (u8*)v8;
  v10 = ((u8*)v7 == (u8*)v9);
  v11 = (u64*)(&(*a0).f2.f0.e[0]);
  v12 = *v11;
  v13 = (v10 ? ((u64)15ULL) : v12);
  v14 = (v5 > ((u64)4611686018427387903ULL));
  if (v14) {
    goto L1;
  } else {
    goto L2;
  }
L1: ;
  _ZSt20__throw_length_errorPKc(((u8*)0));
  if (v_exc) return;
  __CPROVER_assume(0);
L2: ;
  v15 = (v5 > v13);
  if (v15) {
    goto L3;
  } else {
    v20 = v5;
    goto L5;
  }
L3: ;
  v16 = ((u64)(v13 << ((u64)1ULL)));
  v17 = (v5 < v16);
  if (v17) {
    goto L4;
  } else {
    v20 = v5;
    goto L5;
  }
L4: ;
  v18 = (v16 < ((u64)4611686018427387903ULL));
  v19 = (v18 ? v16 : ((u64)4611686018427387903ULL));
  v20 = v19;
  goto L5;
L5: ;
  v21 = ((u64)(v20 + ((u64)1ULL)));
  v22 = (((s64)v21) < ((s64)((u64)0ULL)));
  if (v22) {
    goto L6;
  } else {
    goto L7;
  }
L6: ;
  _ZSt17__throw_bad_allocv();
  if (v_exc) return;
  __CPROVER_assume(0);
L7: ;
  v23 = _Znwm(v21);
  if (v_exc) return;
  switch (a1) {
  case ((u64)0ULL): {
    goto L10;
  }
  case ((u64)1ULL): {
    goto L8;
  }
  default: {
    goto L9;
  }
  }
L8: ;
  v24 = *v7;
  *v23 = v24;
  goto L10;
L9: ;
  v_memcpy((u8*)v23, (u8*)v7, (u64)a1);
  goto L10;
L10: ;
  v25 = ((u8*)a3 != (u8*)((u8*)0));
  v26 = (a4 != ((u64)0ULL));
  v27 = ((u1)((v25 & v26)&1));
  if (v27) {
    goto L11;
  } else {
    goto L14;
  }
L11: ;
  v28 = (u8*)(v23 + (s64)((s64)a1));
  switch (a4) {
  case ((u64)1ULL): {
    goto L12;
  }
  case ((u64)0ULL): {
    goto L14;
  }
  default: {
    goto L13;
  }
  }
L12: ;
  v29 = *a3;
  *v28 = v29;
  goto L14;
L13: ;
  v_memcpy((u8*)v28, (u8*)a3, (u64)a4);
  goto L14;
L14: ;
  v30 = (v3 == ((u64)0ULL));
  if (v30) {
    goto L18;
  } else {
    goto L15;
  }
L15: ;
  v31 = (u8*)(v23 + (s64)((s64)a1));
  v32 = (u8*)(v31 + (s64)((s64)a4));
  v33 = (u8*)(v7 + (s64)((s64)a1));
  v34 = (u8*)(v33 + (s64)((s64)a2));
  v35 = (v3 == ((u64)1ULL));
  if (v35) {
    goto L16;
  } else {
    goto L17;
  }
L16: ;
  v36 = *v34;
  *v32 = v36;
  goto L18;
L17: ;
  v_memcpy((u8*)v32, (u8*)v34, (u64)v3);
  goto L18;
L18: ;
  if (v10) {
    goto L20;
  } else {
    goto L19;
  }
L19: ;
  _ZdlPv(v7);
  goto L20;
L20: ;
  *v6 = v23;
  *v11 = v20;
  return;
}

struct S5_class_std____cxx11__basic_string* _ZNSt7__cxx1112basic_stringIcSt11char_traitsIcESaIcEE10_M_replaceEmmPKcm(struct S5_class_std____cxx11__basic_string* a0, u64 a1, u64 a2, u8* a3, u64 a4) {
  u64* v0;
  u64 v1;
  u64 v2;
  u64 v3;
  u1 v4;
  u64 v5;
  u64 v6;
  u8** v7;
  u8* v8;
  struct S18_union_anon* v9;
  u8* v10;
  u1 v11;
  u64* v12;
  u64 v13;
  u64 v14;
  u1 v15;
  u8* v16;
  u64 v17;
  u64 v18;
  u1 v19;
  u8* v20;
  u1 v21;
  u1 v22;
  u1 v23;
  u1 v24;
  u1 v25;
  u8* v26;
  u8* v27;
  u8 v28;
  u8 v29;
  u1 v30;
  u64 v31;
  u1 v32;
  u8 v33;
  u1 v34;
  u1 v35;
  u1 v36;
  u8* v37;
  u8* v38;
  u8 v39;
  u8* v40;
  u8* v41;
  u1 v42;
  u8 v43;
  u1 v44;
  u64 v45;
  u64 v46;
  u64 v47;
  u64 v48;
  u64 v49;
  u8* v50;
  u8 v51;
  u64 v52;
  u64 v53;
  u64 v54;
  u8 v55;
  u8* v56;
  u8* v57;
  u64 v58;
  u8 v59;
  u8* v60;
  u8* v61;
L0: ;
  v0 = (u64*)(&(*a0).f1);
  v1 = *v0;
  v2 = ((u64)(a2 + ((u64)4611686018427387903ULL)));
  v3 = ((u64)(v2 - v1));
  v4 = (v3 < a4);
  if (v4) {
    goto L1;
  } else {
    goto L2;
  }
L1: ;
  _ZSt20__throw_length_errorPKc(((u8*)0));
  if (v_exc) return (struct S5_class_std____cxx11__basic_string*)0;
  __CPROVER_assume(0);
L2: ;
  v5 = ((u64)(a4 - a2));
  v6 = ((u64)(v5 + v1));
  v7 = (u8**)(&(*a0).f0.f0);
  v8 = *v7;
  v9 = (struct S18_union_anon*)(&(*a0).f2);
  v10 = (u8*)v9;
  v11 = ((u8*)v8 == (u8*)v10);
  v12 = (u64*)(&(*a0).f2.f0.e[0]);
  v13 = *v12;
  v14 = (v11 ? ((u64)15ULL) : v13);
  v15 = (v6 > v14);
  if (v15) {
    goto L34;
  } else {
    goto L3;
  }
L3: ;
  v16 = (u8*)(v8 + (s64)((s64)a1));
  v17 = ((u64)(a2 + a1));
  v18 = ((u64)(v1 - v17));
  v19 = v_plt((u8*)a3, (u8*)v8);
  v20 = (u8*)(v8 + (s64)((s64)v1));
  v21 = v_plt((u8*)v20, (u8*)a3);
  v22 = (v19 ? ((u1)1ULL) : v21);
  if (v22) {
    goto L4;
  } else {
    goto L11;
  }
L4: ;
  v23 = (v18 == ((u64)0ULL));
  v24 = (a4 == a2);
  v25 = ((u1)((v24 | v23)&1));
  if (v25) {
    goto L8;
  } else {
    goto L5;
  }
L5: ;
  v26 = (u8*)(v16 + (s64)((s64)a4));
  v27 = (u8*)(v16 + (s64)((s64)a2));
  switch (v18) {
  case ((u64)1ULL): {
    goto L6;
  }
  case ((u64)0ULL): {
    goto L8;
  }
  default: {
    goto L7;
  }
  }
L6: ;
  v28 = *v27;
  *v26 = v28;
  goto L8;
L7: ;
  v_memmove((u8*)v26, (u8*)v27, (u64)v18);
  goto L8;
L8: ;
  switch (a4) {
  case ((u64)0ULL): {
    goto L35;
  }
  case ((u64)1ULL): {
    goto L9;
  }
  default: {
    goto L10;
  }
  }
L9: ;
  v29 = *a3;
  *v16 = v29;
  goto L35;
L10: ;
  v_memcpy((u8*)v16, (u8*)a3, (u64)a4);
  goto L35;
L11: ;
  v30 = (a4 > a2);
  v31 = ((u64)(a4 + ((u64)18446744073709551615ULL)));
  v32 = (v31 < a2);
  if (v32) {
    goto L12;
  } else {
    goto L15;
  }
L12: ;
  switch (a4) {
  case ((u64)1ULL): {
    goto L13;
  }
  case ((u64)0ULL): {
    goto L15;
  }
  default: {
    goto L14;
  }
  }
L13: ;
  v33 = *a3;
  *v16 = v33;
  goto L15;
L14: ;
  v_memmove((u8*)v16, (u8*)a3, (u64)a4);
  goto L15;
L15: ;
  v34 = (v18 == ((u64)0ULL));
  v35 = (a4 == a2);
  v36 = ((u1)((v35 | v34)&1));
  if (v36) {
    goto L19;
  } else {
    goto L16;
  }
L16: ;
  v37 = (u8*)(v16 + (s64)((s64)a4));
  v38 = (u8*)(v16 + (s64)((s64)a2));
  switch (v18) {
  case ((u64)1ULL): {
    goto L17;
  }
  case ((u64)0ULL): {
    goto L19;
  }
  default: {
    goto L18;
  }
  }
L17: ;
  v39 = *v38;
  *v37 = v39;
  goto L19;
L18: ;
  v_memmove((u8*)v37, (u8*)v38, (u64)v18);
  goto L19;
L19: ;
  if (v30) {
    goto L20;
  } else {
    goto L35;
  }
L20: ;
  v40 = (u8*)(a3 + (s64)((s64)a4));
  v41 = (u8*)(v16 + (s64)((s64)a2));
  v42 = v_plt((u8*)v41, (u8*)v40);
  if (v42) {
    goto L24;
  } else {
    goto L21;
  }
L21: ;
  switch (a4) {
  case ((u64)1ULL): {
    goto L22;
  }
  case ((u64)0ULL): {
    goto L35;
  }
  default: {
    goto L23;
  }
  }
L22: ;
  v43 = *a3;
  *v16 = v43;
  goto L35;
L23: ;
  v_memmove((u8*)v16, (u8*)a3, (u64)a4);
  goto L35;
L24: ;
  v44 = v_plt((u8*)a3, (u8*)v41);
  if (v44) {
    goto L28;
  } else {
    goto L25;
  }
L25: ;
  v45 = ((u64)((u64)a3));
  v46 = ((u64)((u64)v16));
  v47 = ((u64)(v45 + a4));
  v48 = ((u64)(v46 + a2));
  v49 = ((u64)(v47 - v48));
  v50 = (u8*)(v16 + (s64)((s64)v49));
  switch (a4) {
  case ((u64)1ULL): {
    goto L26;
  }
  case ((u64)0ULL): {
    goto L35;
  }
  default: {
    goto L27;
  }
  }
L26: ;
  v51 = *v50;
  *v16 = v51;
  goto L35;
L27: ;
  v_memcpy((u8*)v16, (u8*)v50, (u64)a4);
  goto L35;
L28: ;
  v52 = ((u64)((u64)v41));
  v53 = ((u64)((u64)a3));
  v54 = v_pdiff((u8*)v41, (u8*)a3);
  switch (v54) {
  case ((u64)1ULL): {
    goto L29;
  }
  case ((u64)0ULL): {
    goto L31;
  }
  default: {
    goto L30;
  }
  }
L29: ;
  v55 = *a3;
  *v16 = v55;
  goto L31;
L30: ;
  v_memmove((u8*)v16, (u8*)a3, (u64)v54);
  goto L31;
L31: ;
  v56 = (u8*)(v16 + (s64)((s64)v54));
  v57 = (u8*)(v16 + (s64)((s64)a4));
  v58 = ((u64)(a4 - v54));
  switch (v58) {
  case ((u64)1ULL): {
    goto L32;
  }
  case ((u64)0ULL): {
    goto L35;
  }
  default: {
    goto L33;
  }
  }
L32: ;
  v59 = *v57;
  *v56 = v59;
  goto L35;
L33: ;
  v_memcpy((u8*)v56, (u8*)v57, (u64)v58);
  goto L35;
L34: ;
  _ZNSt7__cxx1112basic_stringIcSt11char_traitsIcESaIcEE9_M_mutateEmmPKcm(a0, a1, a2, a3, a4);
  if (v_exc) return (struct S5_class_std____cxx11__basic_string*)0;
  goto L35;
L35: ;
  *v0 = v6;
  v60 = *v7;
  v61 = (u8*)(v60 + (s64)((s64)v6));
  *v61 = ((u8)0ULL);
  return a0;
}

void _ZNSt7__cxx1112basic_stringIcSt11char_traitsIcESaIcEE6resizeEmc(struct S5_class_std____cxx11__basic_string* a0, u64 a1, u8 a2) {
  u64* v0;
  u64 v1;
  u1 v2;
  u64 v3;
  u64 v4;
  u1 v5;
  u8** v6;
  u8* v7;
  struct S18_union_anon* v8;
  u8* v9;
  u1 v10;
  u64* v11;
  u64 v12;
  u64 v13;
  u1 v14;
  u1 v15;
  u8* v16;
  u8* v17;
  u1 v18;
  u1 v19;
  u8** v20;
  u8* v21;
  u8* v22;
L0: ;
  v0 = (u64*)(&(*a0).f1);
  v1 = *v0;
  v2 = (v1 < a1);
  if (v2) {
    goto L1;
  } else {
    goto L9;
  }
L1: ;
  v3 = ((u64)(a1 - v1));
  v4 = ((u64)(((u64)4611686018427387903ULL) - v1));
  v5 = (v4 < v3);
  if (v5) {
    goto L2;
  } else {
    goto L3;
  }
L2: ;
  _ZSt20__throw_length_errorPKc(((u8*)0));
  if (v_exc) return;
  __CPROVER_assume(0);
L3: ;
  v6 = (u8**)(&(*a0).f0.f0);
  v7 = *v6;
  v8 = (struct S18_union_anon*)(&(*a0).f2);
  v9 = (u8*)v8;
  v10 = ((u8*)v7 == (u8*)v9);
  v11 = (u64*)(&(*a0).f2.f0.e[0]);
  v12 = *v11;
  v13 = (v10 ? ((u64)15ULL) : v12);
  v14 = (v13 < a1);
  if (v14) {
    goto L4;
  } else {
    goto L5;
  }
L4: ;
  _ZNSt7__cxx1112basic_stringIcSt11char_traitsIcESaIcEE9_M_mutateEmmPKcm(a0, v1, ((u64)0ULL), ((u8*)0), v3);
  if (v_exc) return;
  goto L5;
L5: ;
  v15 = (v3 == ((u64)0ULL));
  if (v15) {
    goto L10;
  } else {
    goto L6;
  }
L6: ;
  v16 = *v6;
  v17 = (u8*)(v16 + (s64)((s64)v1));
  v18 = (v3 == ((u64)1ULL));
  if (v18) {
    goto L7;
  } else {
    goto L8;
  }
L7: ;
  *v17 = a2;
  goto L10;
L8: ;
  v_memset((u8*)v17, a2, (u64)v3);
  goto L10;
L9: ;
  v19 = (v1 > a1);
  if (v19) {
    goto L10;
  } else {
    goto L11;
  }
L10: ;
  *v0 = a1;
  v20 = (u8**)(&(*a0).f0.f0);
  v21 = *v20;
  v22 = (u8*)(v21 + (s64)((s64)a1));
  *v22 = ((u8)0ULL);
  goto L11;
L11: ;
  return;
}

void _ZNSt13runtime_errorC2ERKNSt7__cxx1112basic_stringIcSt11char_traitsIcESaIcEEE(struct S6_class_std__runtime_error* a0, struct S5_class_std____cxx11__basic_string* a1) { }
void _ZNSt13runtime_errorD2Ev(struct S6_class_std__runtime_error* a0) { }
u8* _ZNKSt13runtime_error4whatEv(struct S6_class_std__runtime_error* a0) { static u8 empty[1]; return (u8*)empty; }
void _ZNSt13runtime_errorC2EPKc(struct S6_class_std__runtime_error* a0, u8* a1) { }
void v_run_static_init(void) {
  static int done; if (done) return; done = 1;
  _GLOBAL__sub_I_Decoder_cc();
  __cxx_global_var_init();
  __cxx_global_var_init_2();
  __cxx_global_var_init_3();
  __cxx_global_var_init_4();
  __cxx_global_var_init_5();
  _GLOBAL__sub_I_Encoder_cc();
  _GLOBAL__sub_I_WriteBuffer_cc();
}
u1 v_exc_match(u8* want) {
  if (v_exc_ti == (u8*)&_ZTIN14OpenVolumeMesh2IO6detail11parse_errorE) return 0 || want == (u8*)&_ZTIN14OpenVolumeMesh2IO6detail11parse_errorE || want == (u8*)&_ZTIN14OpenVolumeMesh2IO6detail8io_errorE || want == (u8*)&_ZTISt13runtime_error;
  if (v_exc_ti == (u8*)&_ZTISt13runtime_error) return 0 || want == (u8*)&_ZTISt13runtime_error;
  if (v_exc_ti == (u8*)&_ZTIN14OpenVolumeMesh2IO6detail8io_errorE) return 0 || want == (u8*)&_ZTIN14OpenVolumeMesh2IO6detail8io_errorE || want == (u8*)&_ZTISt13runtime_error;
  return 0;
}
