#include "v_rt.h"
struct S0_class_std__ios_base__Init;
struct S1;
struct S2;
struct S3_struct_std__array_13;
struct S4_class_std____cxx11__basic_string;
struct S5_class_std__runtime_error;
struct S6_class_OpenVolumeMesh__IO__detail__parse_;
struct S7_class_OpenVolumeMesh__IO__detail__Decode;
struct S8_struct_OpenVolumeMesh__IO__detail__FileH;
struct S9;
struct S10_union_anon;
struct S11_struct_std__array_9;
struct A0;
struct A1;
struct A2;
struct A3;
struct A4;
struct A5;
struct A6;
struct A7;
struct A8;
struct A9;
struct S0_class_std__ios_base__Init { u8 f0; };
struct S1 { u8* f0; u8* f1; u8* f2; };
struct A10 { u8* e[5]; };
struct S2 { struct A10 f0; };
struct A11 { u8 e[8]; };
struct S3_struct_std__array_13 { struct A11 f0; };
struct S12_struct_std____cxx11__basic_string_char__ { u8* f0; };
struct A12 { u8 e[16]; };
struct S10_union_anon { struct A12 f0; };
struct S4_class_std____cxx11__basic_string { struct S12_struct_std____cxx11__basic_string_char__ f0; u64 f1; struct S10_union_anon f2; };
struct S13_class_std__exception { fnptr_t* f0; };
struct S14_struct_std____cow_string { struct S12_struct_std____cxx11__basic_string_char__ f0; };
struct S5_class_std__runtime_error { struct S13_class_std__exception f0; struct S14_struct_std____cow_string f1; };
struct S15_class_OpenVolumeMesh__IO__detail__io_err { struct S5_class_std__runtime_error f0; };
struct S6_class_OpenVolumeMesh__IO__detail__parse_ { struct S15_class_OpenVolumeMesh__IO__detail__io_err f0; };
struct S16_struct_std___Vector_base_unsigned_char__ { u8* f0; u8* f1; u8* f2; };
struct S17_struct_std___Vector_base_unsigned_char__ { struct S16_struct_std___Vector_base_unsigned_char__ f0; };
struct S18_struct_std___Vector_base { struct S17_struct_std___Vector_base_unsigned_char__ f0; };
struct S19_class_std__vector { struct S18_struct_std___Vector_base f0; };
struct S7_class_OpenVolumeMesh__IO__detail__Decode { struct S19_class_std__vector f0; u8* f1; u8* f2; };
struct S8_struct_OpenVolumeMesh__IO__detail__FileH { u8 f0; u8 f1; u8 f2; u8 f3; u64 f4; u64 f5; u64 f6; u64 f7; };
struct S9 { u8* f0; u32 f1; };
struct A13 { u8 e[4]; };
struct S11_struct_std__array_9 { struct A13 f0; };
struct A0 { u8 e[64]; };
struct A1 { u8 e[48]; };
struct A2 { u8 e[54]; };
struct A3 { u8 e[50]; };
struct A4 { u8 e[41]; };
struct A5 { u8 e[33]; };
struct A6 { u8 e[19]; };
struct A7 { u8 e[42]; };
struct A8 { u8 e[201]; };
struct A9 { u8 e[38]; };
extern struct A0 _ZL5g_raw;
extern struct A1 _str_1;
extern struct A2 _str_2;
extern struct A3 _str_3;
extern struct A4 _str_4;
extern struct A5 _str_58;
extern struct S0_class_std__ios_base__Init _ZStL8__ioinit;
extern struct A6 _str_5;
extern struct A6 _str_59;
extern struct A7 _ZTSN14OpenVolumeMesh2IO6detail11parse_errorE;
extern struct S1 _ZTIN14OpenVolumeMesh2IO6detail11parse_errorE;
extern u64 _ZN14OpenVolumeMesh2IO6detail9ovmb_sizeINS1_10FileHeaderEEE;
extern u64 _ZN14OpenVolumeMesh2IO6detail9ovmb_sizeINS1_9ArraySpanEEE;
extern u64 _ZN14OpenVolumeMesh2IO6detail9ovmb_sizeINS1_11ChunkHeaderEEE;
extern u64 _ZN14OpenVolumeMesh2IO6detail9ovmb_sizeINS1_15PropChunkHeaderEEE;
extern u64 _ZN14OpenVolumeMesh2IO6detail9ovmb_sizeINS1_17VertexChunkHeaderEEE;
extern u64 _ZN14OpenVolumeMesh2IO6detail9ovmb_sizeINS1_15TopoChunkHeaderEEE;
extern struct S2 _ZTVN14OpenVolumeMesh2IO6detail11parse_errorE;
extern u64 _ZGVN14OpenVolumeMesh2IO6detail9ovmb_sizeINS1_10FileHeaderEEE;
extern u64 _ZN14OpenVolumeMesh2IO6detail9ovmb_sizeINS1_8TopoTypeEEE;
extern u64 _ZGVN14OpenVolumeMesh2IO6detail9ovmb_sizeINS1_11ChunkHeaderEEE;
extern u64 _ZN14OpenVolumeMesh2IO6detail9ovmb_sizeINS1_9ChunkTypeEEE;
extern u64 _ZN14OpenVolumeMesh2IO6detail9ovmb_sizeINS1_10ChunkFlagsEEE;
extern u64 _ZGVN14OpenVolumeMesh2IO6detail9ovmb_sizeINS1_15PropChunkHeaderEEE;
extern u64 _ZGVN14OpenVolumeMesh2IO6detail9ovmb_sizeINS1_17VertexChunkHeaderEEE;
extern u64 _ZGVN14OpenVolumeMesh2IO6detail9ovmb_sizeINS1_15TopoChunkHeaderEEE;
extern u64 _ZN14OpenVolumeMesh2IO6detail9ovmb_sizeINS1_10TopoEntityEEE;
extern u64 _ZN14OpenVolumeMesh2IO6detail9ovmb_sizeINS1_11IntEncodingEEE;
extern struct S3_struct_std__array_13 _ZN14OpenVolumeMesh2IO6detail10ovmb_magicE;
extern struct A8 _ZZNSt8__detail18__to_chars_10_implImEEvPcjT_E8__digits;
extern struct S0_class_std__ios_base__Init _ZStL8__ioinit_94;
extern u8* _ZTVN10__cxxabiv120__si_class_type_infoE;
extern struct A9 _ZTSN14OpenVolumeMesh2IO6detail8io_errorE;
extern u8* _ZTISt13runtime_error;
extern struct S1 _ZTIN14OpenVolumeMesh2IO6detail8io_errorE;
extern struct S0_class_std__ios_base__Init _ZStL8__ioinit_107;
extern u8 __dso_handle;
void harness_file_header_short(void);
u32 v_nondet_u32(void);
void v_assume(u1);
u32 v_param(u32);
void _ZN22Case_file_header_shortILj0EE3runEv(void);
void _ZN22Case_file_header_shortILj1EE3runEv(void);
void _ZN22Case_file_header_shortILj2EE3runEv(void);
void _ZN22Case_file_header_shortILj3EE3runEv(void);
void _ZN22Case_file_header_shortILj4EE3runEv(void);
void _ZN22Case_file_header_shortILj5EE3runEv(void);
void _ZN22Case_file_header_shortILj6EE3runEv(void);
void _ZN22Case_file_header_shortILj7EE3runEv(void);
u8 v_nondet_u8(void);
void _ZL22body_file_header_shortj(u32);
u32 __gxx_personality_v0(void);
u8* _Znwm(u64);
u8* __cxa_begin_catch(u8*);
void __cxa_end_catch(void);
void v_assert(u1, u8*);
void v_witness(u8*);
void _ZdlPv(u8*);
u8* __cxa_allocate_exception(u64);
void _ZNSt7__cxx119to_stringEm(struct S4_class_std____cxx11__basic_string*, u64);
void _ZStplIcSt11char_traitsIcESaIcEENSt7__cxx1112basic_stringIT_T0_T1_EEPKS5_OS8_(struct S4_class_std____cxx11__basic_string*, u8*, struct S4_class_std____cxx11__basic_string*);
void _ZNSt13runtime_errorC2ERKNSt7__cxx1112basic_stringIcSt11char_traitsIcESaIcEEE(struct S5_class_std__runtime_error*, struct S4_class_std____cxx11__basic_string*);
void _ZNSt13runtime_errorD2Ev(struct S5_class_std__runtime_error*);
void __cxa_throw(u8*, u8*, u8*);
void __cxa_free_exception(u8*);
void _ZN14OpenVolumeMesh2IO6detail11parse_errorD0Ev(struct S6_class_OpenVolumeMesh__IO__detail__parse_*);
u8* _ZNKSt13runtime_error4whatEv(struct S5_class_std__runtime_error*);
u64 strlen(u8*);
void _ZN14OpenVolumeMesh2IO6detail7Decoder8reservedILh4EEEvv(struct S7_class_OpenVolumeMesh__IO__detail__Decode*);
void _GLOBAL__sub_I_Decoder_cc(void);
void _ZNSt8ios_base4InitC1Ev(struct S0_class_std__ios_base__Init*);
void _ZNSt8ios_base4InitD1Ev(struct S0_class_std__ios_base__Init*);
u32 __cxa_atexit(fnptr_t, u8*, u8*);
u8 _ZN14OpenVolumeMesh2IO6detail7Decoder2u8Ev(struct S7_class_OpenVolumeMesh__IO__detail__Decode*);
u64 _ZN14OpenVolumeMesh2IO6detail7Decoder3u64Ev(struct S7_class_OpenVolumeMesh__IO__detail__Decode*);
void _ZN14OpenVolumeMesh2IO6detail11parse_errorCI2St13runtime_errorEPKc(struct S6_class_OpenVolumeMesh__IO__detail__parse_*, u8*);
void _ZNSt13runtime_errorC2EPKc(struct S5_class_std__runtime_error*, u8*);
void _ZN14OpenVolumeMesh2IO6detail7Decoder4needEm(struct S7_class_OpenVolumeMesh__IO__detail__Decode*, u64);
void _ZN14OpenVolumeMesh2IO6detail7Decoder4readEPhm(struct S7_class_OpenVolumeMesh__IO__detail__Decode*, u8*, u64);
void __cxx_global_var_init(void);
void __cxx_global_var_init_2(void);
void __cxx_global_var_init_3(void);
void __cxx_global_var_init_4(void);
void __cxx_global_var_init_5(void);
u32 __cxa_guard_acquire(u64*);
void __cxa_guard_release(u64*);
u1 _ZN14OpenVolumeMesh2IO6detail4readERNS1_7DecoderERNS1_10FileHeaderE(struct S7_class_OpenVolumeMesh__IO__detail__Decode*, struct S8_struct_OpenVolumeMesh__IO__detail__FileH*);
u32 bcmp(u8*, u8*, u64);
void _GLOBAL__sub_I_Encoder_cc(void);
void _GLOBAL__sub_I_WriteBuffer_cc(void);
void _ZSt20__throw_length_errorPKc(u8*);
void v_throw_std(u32);
void _ZSt17__throw_bad_allocv(void);
void _ZNSt7__cxx1112basic_stringIcSt11char_traitsIcESaIcEE12_M_constructEmc(struct S4_class_std____cxx11__basic_string*, u64, u8);
void _ZNSt7__cxx1112basic_stringIcSt11char_traitsIcESaIcEE9_M_mutateEmmPKcm(struct S4_class_std____cxx11__basic_string*, u64, u64, u8*, u64);
struct S4_class_std____cxx11__basic_string* _ZNSt7__cxx1112basic_stringIcSt11char_traitsIcESaIcEE10_M_replaceEmmPKcm(struct S4_class_std____cxx11__basic_string*, u64, u64, u8*, u64);
void v_run_static_init(void);
struct A0 _ZL5g_raw = {0};
struct A1 _str_1 = {{((u8)111ULL), ((u8)117ULL), ((u8)116ULL), ((u8)32ULL), ((u8)33ULL), ((u8)61ULL), ((u8)32ULL), ((u8)79ULL), ((u8)84ULL), ((u8)72ULL), ((u8)69ULL), ((u8)82ULL), ((u8)32ULL), ((u8)64ULL), ((u8)47ULL), ((u8)118ULL), ((u8)101ULL), ((u8)114ULL), ((u8)105ULL), ((u8)102ULL), ((u8)47ULL), ((u8)104ULL), ((u8)97ULL), ((u8)114ULL), ((u8)110ULL), ((u8)101ULL), ((u8)115ULL), ((u8)115ULL), ((u8)47ULL), ((u8)67ULL), ((u8)48ULL), ((u8)55ULL), ((u8)95ULL), ((u8)100ULL), ((u8)101ULL), ((u8)99ULL), ((u8)111ULL), ((u8)100ULL), ((u8)101ULL), ((u8)114ULL), ((u8)46ULL), ((u8)99ULL), ((u8)112ULL), ((u8)112ULL), ((u8)58ULL), ((u8)53ULL), ((u8)54ULL), ((u8)0ULL)}};
struct A2 _str_2 = {{((u8)111ULL), ((u8)117ULL), ((u8)116ULL), ((u8)32ULL), ((u8)61ULL), ((u8)61ULL), ((u8)32ULL), ((u8)80ULL), ((u8)65ULL), ((u8)82ULL), ((u8)83ULL), ((u8)69ULL), ((u8)95ULL), ((u8)69ULL), ((u8)82ULL), ((u8)82ULL), ((u8)79ULL), ((u8)82ULL), ((u8)32ULL), ((u8)64ULL), ((u8)47ULL), ((u8)118ULL), ((u8)101ULL), ((u8)114ULL), ((u8)105ULL), ((u8)102ULL), ((u8)47ULL), ((u8)104ULL), ((u8)97ULL), ((u8)114ULL), ((u8)110ULL), ((u8)101ULL), ((u8)115ULL), ((u8)115ULL), ((u8)47ULL), ((u8)67ULL), ((u8)48ULL), ((u8)55ULL), ((u8)95ULL), ((u8)100ULL), ((u8)101ULL), ((u8)99ULL), ((u8)111ULL), ((u8)100ULL), ((u8)101ULL), ((u8)114ULL), ((u8)46ULL), ((u8)99ULL), ((u8)112ULL), ((u8)112ULL), ((u8)58ULL), ((u8)53ULL), ((u8)55ULL), ((u8)0ULL)}};
struct A3 _str_3 = {{((u8)100ULL), ((u8)101ULL), ((u8)99ULL), ((u8)46ULL), ((u8)112ULL), ((u8)111ULL), ((u8)115ULL), ((u8)40ULL), ((u8)41ULL), ((u8)32ULL), ((u8)61ULL), ((u8)61ULL), ((u8)32ULL), ((u8)48ULL), ((u8)32ULL), ((u8)64ULL), ((u8)47ULL), ((u8)118ULL), ((u8)101ULL), ((u8)114ULL), ((u8)105ULL), ((u8)102ULL), ((u8)47ULL), ((u8)104ULL), ((u8)97ULL), ((u8)114ULL), ((u8)110ULL), ((u8)101ULL), ((u8)115ULL), ((u8)115ULL), ((u8)47ULL), ((u8)67ULL), ((u8)48ULL), ((u8)55ULL), ((u8)95ULL), ((u8)100ULL), ((u8)101ULL), ((u8)99ULL), ((u8)111ULL), ((u8)100ULL), ((u8)101ULL), ((u8)114ULL), ((u8)46ULL), ((u8)99ULL), ((u8)112ULL), ((u8)112ULL), ((u8)58ULL), ((u8)53ULL), ((u8)55ULL), ((u8)0ULL)}};
struct A4 _str_4 = {{((u8)102ULL), ((u8)105ULL), ((u8)108ULL), ((u8)101ULL), ((u8)32ULL), ((u8)104ULL), ((u8)101ULL), ((u8)97ULL), ((u8)100ULL), ((u8)101ULL), ((u8)114ULL), ((u8)58ULL), ((u8)32ULL), ((u8)115ULL), ((u8)104ULL), ((u8)111ULL), ((u8)114ULL), ((u8)116ULL), ((u8)32ULL), ((u8)98ULL), ((u8)117ULL), ((u8)102ULL), ((u8)102ULL), ((u8)101ULL), ((u8)114ULL), ((u8)32ULL), ((u8)45ULL), ((u8)62ULL), ((u8)32ULL), ((u8)112ULL), ((u8)97ULL), ((u8)114ULL), ((u8)115ULL), ((u8)101ULL), ((u8)95ULL), ((u8)101ULL), ((u8)114ULL), ((u8)114ULL), ((u8)111ULL), ((u8)114ULL), ((u8)0ULL)}};
struct A5 _str_58 = {{((u8)114ULL), ((u8)101ULL), ((u8)115ULL), ((u8)101ULL), ((u8)114ULL), ((u8)118ULL), ((u8)101ULL), ((u8)100ULL), ((u8)32ULL), ((u8)101ULL), ((u8)110ULL), ((u8)116ULL), ((u8)114ULL), ((u8)121ULL), ((u8)32ULL), ((u8)33ULL), ((u8)61ULL), ((u8)32ULL), ((u8)48ULL), ((u8)32ULL), ((u8)97ULL), ((u8)116ULL), ((u8)32ULL), ((u8)112ULL), ((u8)111ULL), ((u8)115ULL), ((u8)105ULL), ((u8)116ULL), ((u8)105ULL), ((u8)111ULL), ((u8)110ULL), ((u8)32ULL), ((u8)0ULL)}};
struct S0_class_std__ios_base__Init _ZStL8__ioinit = {0};
struct A6 _str_5 = {{((u8)114ULL), ((u8)101ULL), ((u8)97ULL), ((u8)100ULL), ((u8)32ULL), ((u8)98ULL), ((u8)101ULL), ((u8)121ULL), ((u8)111ULL), ((u8)110ULL), ((u8)100ULL), ((u8)32ULL), ((u8)98ULL), ((u8)117ULL), ((u8)102ULL), ((u8)102ULL), ((u8)101ULL), ((u8)114ULL), ((u8)0ULL)}};
struct A6 _str_59 = {{((u8)73ULL), ((u8)110ULL), ((u8)118ULL), ((u8)97ULL), ((u8)108ULL), ((u8)105ULL), ((u8)100ULL), ((u8)32ULL), ((u8)101ULL), ((u8)110ULL), ((u8)117ULL), ((u8)109ULL), ((u8)32ULL), ((u8)118ULL), ((u8)97ULL), ((u8)108ULL), ((u8)117ULL), ((u8)101ULL), ((u8)0ULL)}};
struct A7 _ZTSN14OpenVolumeMesh2IO6detail11parse_errorE = {{((u8)78ULL), ((u8)49ULL), ((u8)52ULL), ((u8)79ULL), ((u8)112ULL), ((u8)101ULL), ((u8)110ULL), ((u8)86ULL), ((u8)111ULL), ((u8)108ULL), ((u8)117ULL), ((u8)109ULL), ((u8)101ULL), ((u8)77ULL), ((u8)101ULL), ((u8)115ULL), ((u8)104ULL), ((u8)50ULL), ((u8)73ULL), ((u8)79ULL), ((u8)54ULL), ((u8)100ULL), ((u8)101ULL), ((u8)116ULL), ((u8)97ULL), ((u8)105ULL), ((u8)108ULL), ((u8)49ULL), ((u8)49ULL), ((u8)112ULL), ((u8)97ULL), ((u8)114ULL), ((u8)115ULL), ((u8)101ULL), ((u8)95ULL), ((u8)101ULL), ((u8)114ULL), ((u8)114ULL), ((u8)111ULL), ((u8)114ULL), ((u8)69ULL), ((u8)0ULL)}};
struct S1 _ZTIN14OpenVolumeMesh2IO6detail11parse_errorE = {((u8*)((u8**)((&_ZTVN10__cxxabiv120__si_class_type_infoE) + (s64)((s64)((u64)2ULL))))), ((u8*)(&(*(&_ZTSN14OpenVolumeMesh2IO6detail11parse_errorE)).e[(s64)((s32)((u32)0ULL))])), ((u8*)(&_ZTIN14OpenVolumeMesh2IO6detail8io_errorE))};
u64 _ZN14OpenVolumeMesh2IO6detail9ovmb_sizeINS1_10FileHeaderEEE = ((u64)0ULL);
u64 _ZN14OpenVolumeMesh2IO6detail9ovmb_sizeINS1_9ArraySpanEEE = ((u64)12ULL);
u64 _ZN14OpenVolumeMesh2IO6detail9ovmb_sizeINS1_11ChunkHeaderEEE = ((u64)0ULL);
u64 _ZN14OpenVolumeMesh2IO6detail9ovmb_sizeINS1_15PropChunkHeaderEEE = ((u64)0ULL);
u64 _ZN14OpenVolumeMesh2IO6detail9ovmb_sizeINS1_17VertexChunkHeaderEEE = ((u64)0ULL);
u64 _ZN14OpenVolumeMesh2IO6detail9ovmb_sizeINS1_15TopoChunkHeaderEEE = ((u64)0ULL);
struct S2 _ZTVN14OpenVolumeMesh2IO6detail11parse_errorE = {{{((u8*)0), ((u8*)(&_ZTIN14OpenVolumeMesh2IO6detail11parse_errorE)), ((u8*)((fnptr_t)_ZNSt13runtime_errorD2Ev)), ((u8*)((fnptr_t)_ZN14OpenVolumeMesh2IO6detail11parse_errorD0Ev)), ((u8*)((fnptr_t)_ZNKSt13runtime_error4whatEv))}}};
u64 _ZGVN14OpenVolumeMesh2IO6detail9ovmb_sizeINS1_10FileHeaderEEE = ((u64)0ULL);
u64 _ZN14OpenVolumeMesh2IO6detail9ovmb_sizeINS1_8TopoTypeEEE = ((u64)1ULL);
u64 _ZGVN14OpenVolumeMesh2IO6detail9ovmb_sizeINS1_11ChunkHeaderEEE = ((u64)0ULL);
u64 _ZN14OpenVolumeMesh2IO6detail9ovmb_sizeINS1_9ChunkTypeEEE = ((u64)4ULL);
u64 _ZN14OpenVolumeMesh2IO6detail9ovmb_sizeINS1_10ChunkFlagsEEE = ((u64)1ULL);
u64 _ZGVN14OpenVolumeMesh2IO6detail9ovmb_sizeINS1_15PropChunkHeaderEEE = ((u64)0ULL);
u64 _ZGVN14OpenVolumeMesh2IO6detail9ovmb_sizeINS1_17VertexChunkHeaderEEE = ((u64)0ULL);
u64 _ZGVN14OpenVolumeMesh2IO6detail9ovmb_sizeINS1_15TopoChunkHeaderEEE = ((u64)0ULL);
u64 _ZN14OpenVolumeMesh2IO6detail9ovmb_sizeINS1_10TopoEntityEEE = ((u64)1ULL);
u64 _ZN14OpenVolumeMesh2IO6detail9ovmb_sizeINS1_11IntEncodingEEE = ((u64)1ULL);
struct S3_struct_std__array_13 _ZN14OpenVolumeMesh2IO6detail10ovmb_magicE = {{{((u8)79ULL), ((u8)86ULL), ((u8)77ULL), ((u8)66ULL), ((u8)10ULL), ((u8)13ULL), ((u8)10ULL), ((u8)255ULL)}}};
struct A8 _ZZNSt8__detail18__to_chars_10_implImEEvPcjT_E8__digits = {{((u8)48ULL), ((u8)48ULL), ((u8)48ULL), ((u8)49ULL), ((u8)48ULL), ((u8)50ULL), ((u8)48ULL), ((u8)51ULL), ((u8)48ULL), ((u8)52ULL), ((u8)48ULL), ((u8)53ULL), ((u8)48ULL), ((u8)54ULL), ((u8)48ULL), ((u8)55ULL), ((u8)48ULL), ((u8)56ULL), ((u8)48ULL), ((u8)57ULL), ((u8)49ULL), ((u8)48ULL), ((u8)49ULL), ((u8)49ULL), ((u8)49ULL), ((u8)50ULL), ((u8)49ULL), ((u8)51ULL), ((u8)49ULL), ((u8)52ULL), ((u8)49ULL), ((u8)53ULL), ((u8)49ULL), ((u8)54ULL), ((u8)49ULL), ((u8)55ULL), ((u8)49ULL), ((u8)56ULL), ((u8)49ULL), ((u8)57ULL), ((u8)50ULL), ((u8)48ULL), ((u8)50ULL), ((u8)49ULL), ((u8)50ULL), ((u8)50ULL), ((u8)50ULL), ((u8)51ULL), ((u8)50ULL), ((u8)52ULL), ((u8)50ULL), ((u8)53ULL), ((u8)50ULL), ((u8)54ULL), ((u8)50ULL), ((u8)55ULL), ((u8)50ULL), ((u8)56ULL), ((u8)50ULL), ((u8)57ULL), ((u8)51ULL), ((u8)48ULL), ((u8)51ULL), ((u8)49ULL), ((u8)51ULL), ((u8)50ULL), ((u8)51ULL), ((u8)51ULL), ((u8)51ULL), ((u8)52ULL), ((u8)51ULL), ((u8)53ULL), ((u8)51ULL), ((u8)54ULL), ((u8)51ULL), ((u8)55ULL), ((u8)51ULL), ((u8)56ULL), ((u8)51ULL), ((u8)57ULL), ((u8)52ULL), ((u8)48ULL), ((u8)52ULL), ((u8)49ULL), ((u8)52ULL), ((u8)50ULL), ((u8)52ULL), ((u8)51ULL), ((u8)52ULL), ((u8)52ULL), ((u8)52ULL), ((u8)53ULL), ((u8)52ULL), ((u8)54ULL), ((u8)52ULL), ((u8)55ULL), ((u8)52ULL), ((u8)56ULL), ((u8)52ULL), ((u8)57ULL), ((u8)53ULL), ((u8)48ULL), ((u8)53ULL), ((u8)49ULL), ((u8)53ULL), ((u8)50ULL), ((u8)53ULL), ((u8)51ULL), ((u8)53ULL), ((u8)52ULL), ((u8)53ULL), ((u8)53ULL), ((u8)53ULL), ((u8)54ULL), ((u8)53ULL), ((u8)55ULL), ((u8)53ULL), ((u8)56ULL), ((u8)53ULL), ((u8)57ULL), ((u8)54ULL), ((u8)48ULL), ((u8)54ULL), ((u8)49ULL), ((u8)54ULL), ((u8)50ULL), ((u8)54ULL), ((u8)51ULL), ((u8)54ULL), ((u8)52ULL), ((u8)54ULL), ((u8)53ULL), ((u8)54ULL), ((u8)54ULL), ((u8)54ULL), ((u8)55ULL), ((u8)54ULL), ((u8)56ULL), ((u8)54ULL), ((u8)57ULL), ((u8)55ULL), ((u8)48ULL), ((u8)55ULL), ((u8)49ULL), ((u8)55ULL), ((u8)50ULL), ((u8)55ULL), ((u8)51ULL), ((u8)55ULL), ((u8)52ULL), ((u8)55ULL), ((u8)53ULL), ((u8)55ULL), ((u8)54ULL), ((u8)55ULL), ((u8)55ULL), ((u8)55ULL), ((u8)56ULL), ((u8)55ULL), ((u8)57ULL), ((u8)56ULL), ((u8)48ULL), ((u8)56ULL), ((u8)49ULL), ((u8)56ULL), ((u8)50ULL), ((u8)56ULL), ((u8)51ULL), ((u8)56ULL), ((u8)52ULL), ((u8)56ULL), ((u8)53ULL), ((u8)56ULL), ((u8)54ULL), ((u8)56ULL), ((u8)55ULL), ((u8)56ULL), ((u8)56ULL), ((u8)56ULL), ((u8)57ULL), ((u8)57ULL), ((u8)48ULL), ((u8)57ULL), ((u8)49ULL), ((u8)57ULL), ((u8)50ULL), ((u8)57ULL), ((u8)51ULL), ((u8)57ULL), ((u8)52ULL), ((u8)57ULL), ((u8)53ULL), ((u8)57ULL), ((u8)54ULL), ((u8)57ULL), ((u8)55ULL), ((u8)57ULL), ((u8)56ULL), ((u8)57ULL), ((u8)57ULL), ((u8)0ULL)}};
struct S0_class_std__ios_base__Init _ZStL8__ioinit_94 = {0};
struct A9 _ZTSN14OpenVolumeMesh2IO6detail8io_errorE = {{((u8)78ULL), ((u8)49ULL), ((u8)52ULL), ((u8)79ULL), ((u8)112ULL), ((u8)101ULL), ((u8)110ULL), ((u8)86ULL), ((u8)111ULL), ((u8)108ULL), ((u8)117ULL), ((u8)109ULL), ((u8)101ULL), ((u8)77ULL), ((u8)101ULL), ((u8)115ULL), ((u8)104ULL), ((u8)50ULL), ((u8)73ULL), ((u8)79ULL), ((u8)54ULL), ((u8)100ULL), ((u8)101ULL), ((u8)116ULL), ((u8)97ULL), ((u8)105ULL), ((u8)108ULL), ((u8)56ULL), ((u8)105ULL), ((u8)111ULL), ((u8)95ULL), ((u8)101ULL), ((u8)114ULL), ((u8)114ULL), ((u8)111ULL), ((u8)114ULL), ((u8)69ULL), ((u8)0ULL)}};
struct S1 _ZTIN14OpenVolumeMesh2IO6detail8io_errorE = {((u8*)((u8**)((&_ZTVN10__cxxabiv120__si_class_type_infoE) + (s64)((s64)((u64)2ULL))))), ((u8*)(&(*(&_ZTSN14OpenVolumeMesh2IO6detail8io_errorE)).e[(s64)((s32)((u32)0ULL))])), ((u8*)(&_ZTISt13runtime_error))};
struct S0_class_std__ios_base__Init _ZStL8__ioinit_107 = {0};
void harness_file_header_short(void) {
  v_run_static_init();
  u32 v0;
  u1 v1;
  u32 v2;
  u32 v3;
  u32 v4;
  u1 v5;
  u64 v6; u64 v6_t;
  u8 v7;
  u8* v8;
  u64 v9;
  u1 v10;
L0: ;
  v6 = ((u64)0ULL);
  goto L11;
L1: ;
  v0 = v_nondet_u32();
  if (v_exc) return;
  v1 = (v0 < ((u32)8ULL));
  __CPROVER_assume(v1);
  v2 = v_param(((u32)0ULL));
  if (v_exc) return;
  v3 = ((u32)(v2 << ((u32)3ULL)));
  v4 = ((u32)(v3 + v0));
  v5 = (v4 < ((u32)48ULL));
  __CPROVER_assume(v5);
  switch (v0) {
  case ((u32)0ULL): {
    goto L2;
  }
  case ((u32)1ULL): {
    goto L3;
  }
  case ((u32)2ULL): {
    goto L4;
  }
  case ((u32)3ULL): {
    goto L5;
  }
  case ((u32)4ULL): {
    goto L6;
  }
  case ((u32)5ULL): {
    goto L7;
  }
  case ((u32)6ULL): {
    goto L8;
  }
  case ((u32)7ULL): {
    goto L9;
  }
  default: {
    goto L10;
  }
  }
L2: ;
  _ZN22Case_file_header_shortILj0EE3runEv();
  if (v_exc) return;
  goto L10;
L3: ;
  _ZN22Case_file_header_shortILj1EE3runEv();
  if (v_exc) return;
  goto L10;
L4: ;
  _ZN22Case_file_header_shortILj2EE3runEv();
  if (v_exc) return;
  goto L10;
L5: ;
  _ZN22Case_file_header_shortILj3EE3runEv();
  if (v_exc) return;
  goto L10;
L6: ;
  _ZN22Case_file_header_shortILj4EE3runEv();
  if (v_exc) return;
  goto L10;
L7: ;
  _ZN22Case_file_header_shortILj5EE3runEv();
  if (v_exc) return;
  goto L10;
L8: ;
  _ZN22Case_file_header_shortILj6EE3runEv();
  if (v_exc) return;
  goto L10;
L9: ;
  _ZN22Case_file_header_shortILj7EE3runEv();
  if (v_exc) return;
  goto L10;
L10: ;
  return;
L11: ;
  v7 = v_nondet_u8();
  if (v_exc) return;
  v8 = (u8*)(&(*(&_ZL5g_raw)).e[(s64)((s64)v6)]);
  (*(&_ZL5g_raw)).e[(s64)((s64)v6)] = v7;
  v9 = ((u64)(v6 + ((u64)1ULL)));
  v10 = (v9 == ((u64)47ULL));
  if (v10) {
    goto L1;
  } else {
    v6 = v9;
    goto L11;
  }
}

void _ZN22Case_file_header_shortILj0EE3runEv(void) {
  u32 v0;
  u32 v1;
  u1 v2;
L0: ;
  v0 = v_param(((u32)0ULL));
  if (v_exc) return;
  v1 = ((u32)(v0 << ((u32)3ULL)));
  v2 = (v1 < ((u32)48ULL));
  if (v2) {
    goto L1;
  } else {
    goto L2;
  }
L1: ;
  _ZL22body_file_header_shortj(v1);
  if (v_exc) return;
  goto L2;
L2: ;
  return;
}

void _ZN22Case_file_header_shortILj1EE3runEv(void) {
  u32 v0;
  u32 v1;
  u32 v2;
  u1 v3;
L0: ;
  v0 = v_param(((u32)0ULL));
  if (v_exc) return;
  v1 = ((u32)(v0 << ((u32)3ULL)));
  v2 = ((u32)(v1 | ((u32)1ULL)));
  v3 = (v2 < ((u32)48ULL));
  if (v3) {
    goto L1;
  } else {
    goto L2;
  }
L1: ;
  _ZL22body_file_header_shortj(v2);
  if (v_exc) return;
  goto L2;
L2: ;
  return;
}

void _ZN22Case_file_header_shortILj2EE3runEv(void) {
  u32 v0;
  u32 v1;
  u32 v2;
  u1 v3;
L0: ;
  v0 = v_param(((u32)0ULL));
  if (v_exc) return;
  v1 = ((u32)(v0 << ((u32)3ULL)));
  v2 = ((u32)(v1 | ((u32)2ULL)));
  v3 = (v2 < ((u32)48ULL));
  if (v3) {
    goto L1;
  } else {
    goto L2;
  }
L1: ;
  _ZL22body_file_header_shortj(v2);
  if (v_exc) return;
  goto L2;
L2: ;
  return;
}

void _ZN22Case_file_header_shortILj3EE3runEv(void) {
  u32 v0;
  u32 v1;
  u32 v2;
  u1 v3;
L0: ;
  v0 = v_param(((u32)0ULL));
  if (v_exc) return;
  v1 = ((u32)(v0 << ((u32)3ULL)));
  v2 = ((u32)(v1 | ((u32)3ULL)));
  v3 = (v2 < ((u32)48ULL));
  if (v3) {
    goto L1;
  } else {
    goto L2;
  }
L1: ;
  _ZL22body_file_header_shortj(v2);
  if (v_exc) return;
  goto L2;
L2: ;
  return;
}

void _ZN22Case_file_header_shortILj4EE3runEv(void) {
  u32 v0;
  u32 v1;
  u32 v2;
  u1 v3;
L0: ;
  v0 = v_param(((u32)0ULL));
  if (v_exc) return;
  v1 = ((u32)(v0 << ((u32)3ULL)));
  v2 = ((u32)(v1 | ((u32)4ULL)));
  v3 = (v2 < ((u32)48ULL));
  if (v3) {
    goto L1;
  } else {
    goto L2;
  }
L1: ;
  _ZL22body_file_header_shortj(v2);
  if (v_exc) return;
  goto L2;
L2: ;
  return;
}

void _ZN22Case_file_header_shortILj5EE3runEv(void) {
  u32 v0;
  u32 v1;
  u32 v2;
  u1 v3;
L0: ;
  v0 = v_param(((u32)0ULL));
  if (v_exc) return;
  v1 = ((u32)(v0 << ((u32)3ULL)));
  v2 = ((u32)(v1 | ((u32)5ULL)));
  v3 = (v2 < ((u32)48ULL));
  if (v3) {
    goto L1;
  } else {
    goto L2;
  }
L1: ;
  _ZL22body_file_header_shortj(v2);
  if (v_exc) return;
  goto L2;
L2: ;
  return;
}

void _ZN22Case_file_header_shortILj6EE3runEv(void) {
  u32 v0;
  u32 v1;
  u32 v2;
  u1 v3;
L0: ;
  v0 = v_param(((u32)0ULL));
  if (v_exc) return;
  v1 = ((u32)(v0 << ((u32)3ULL)));
  v2 = ((u32)(v1 | ((u32)6ULL)));
  v3 = (v2 < ((u32)48ULL));
  if (v3) {
    goto L1;
  } else {
    goto L2;
  }
L1: ;
  _ZL22body_file_header_shortj(v2);
  if (v_exc) return;
  goto L2;
L2: ;
  return;
}

void _ZN22Case_file_header_shortILj7EE3runEv(void) {
  u32 v0;
  u32 v1;
  u32 v2;
  u1 v3;
L0: ;
  v0 = v_param(((u32)0ULL));
  if (v_exc) return;
  v1 = ((u32)(v0 << ((u32)3ULL)));
  v2 = ((u32)(v1 | ((u32)7ULL)));
  v3 = (v2 < ((u32)48ULL));
  if (v3) {
    goto L1;
  } else {
    goto L2;
  }
L1: ;
  _ZL22body_file_header_shortj(v2);
  if (v_exc) return;
  goto L2;
L2: ;
  return;
}

void _ZL22body_file_header_shortj(u32 a0) {
  struct S7_class_OpenVolumeMesh__IO__detail__Decode* v0; struct S7_class_OpenVolumeMesh__IO__detail__Decode v0_m;
  struct S8_struct_OpenVolumeMesh__IO__detail__FileH* v1; struct S8_struct_OpenVolumeMesh__IO__detail__FileH v1_m;
  u64 v2;
  u1 v3;
  u8* v4;
  u8* v5; u8* v5_t;
  u8* v6;
  u8* v7;
  u8** v8;
  u8** v9;
  u8** v10;
  u8** v11;
  u8** v12;
  u8* v13;
  u64* v14;
  u32* v15;
  u8* v16;
  u1 v17;
  struct S9 v18;
  u8* v19;
  u32 v20;
  u32 v21;
  u1 v22;
  u8* v23;
  u1 v24; u1 v24_t;
  u1 v25; u1 v25_t;
  u8* v26;
  u8* v27;
  u1 v28;
  u8* v29;
  u1 v30;
  struct S9 v31;
  struct S9 v32;
  struct S9 v33; struct S9 v33_t;
  u8* v34;
  u1 v35;
L0: ;
  v0 = &v0_m;
  v1 = &v1_m;
  v2 = ((u64)(a0));
  v3 = (a0 == ((u32)0ULL));
  if (v3) {
    v5 = ((u8*)0);
    goto L2;
  } else {
    goto L1;
  }
L1: ;
  v4 = _Znwm(v2);
  if (v_exc) return;
  v5 = v4;
  goto L2;
L2: ;
  v6 = (u8*)(v5 + (s64)((s64)v2));
  if (v3) {
    goto L4;
  } else {
    goto L3;
  }
L3: ;
  v_memcpy((u8*)v5, (u8*)((u8*)(&(*(&_ZL5g_raw)).e[(s64)((s64)((u64)0ULL))])), (u64)v2);
  goto L4;
L4: ;
  v7 = (u8*)v0;
  v8 = (u8**)(&(*v0).f0.f0.f0.f0.f0);
  *v8 = v5;
  v9 = (u8**)(&(*v0).f0.f0.f0.f0.f1);
  *v9 = v6;
  v10 = (u8**)(&(*v0).f0.f0.f0.f0.f2);
  *v10 = v6;
  v11 = (u8**)(&(*v0).f1);
  *v11 = v5;
  v12 = (u8**)(&(*v0).f2);
  *v12 = v6;
  v13 = (u8*)(&(*v1).f0);
  v14 = (u64*)(&(*v1).f4);
  v15 = (u32*)v1;
  (*v1).f0 = (u8)(((u32)0ULL) >> 0);
  (*v1).f1 = (u8)(((u32)0ULL) >> 8);
  (*v1).f2 = (u8)(((u32)0ULL) >> 16);
  (*v1).f3 = (u8)(((u32)0ULL) >> 24);
  v16 = (u8*)v14;
  (*v1).f4 = ((u64)0ULL);
  (*v1).f5 = ((u64)0ULL);
  (*v1).f6 = ((u64)0ULL);
  (*v1).f7 = ((u64)0ULL);
  v17 = _ZN14OpenVolumeMesh2IO6detail4readERNS1_7DecoderERNS1_10FileHeaderE(v0, v1);
  if (v_exc) {
    goto L5;
  }
  v24_t = ((u1)1ULL);
  v25_t = ((u1)0ULL);
  v24 = v24_t;
  v25 = v25_t;
  goto L7;
L5: ;
  v18.f0 = v_exc_obj;
  v18.f1 = 0;
  if (v18.f1 == 0 && v_exc_match((u8*)((u8*)(&_ZTIN14OpenVolumeMesh2IO6detail11parse_errorE)))) v18.f1 = 1;
  if (v18.f1 == 0) v18.f1 = 9999;
  if (v18.f1 == 0) return;
  v_exc = 0;
  v19 = v18.f0;
  v20 = v18.f1;
  v21 = 1;
  v22 = (v20 == v21);
  v23 = __cxa_begin_catch(v19);
  if (v22) {
    goto L6;
  } else {
    goto L13;
  }
L6: ;
  __cxa_end_catch();
  if (v_exc) {
    goto L15;
  }
  v24_t = ((u1)1ULL);
  v25_t = ((u1)1ULL);
  v24 = v24_t;
  v25 = v25_t;
  goto L7;
L7: ;
  __CPROVER_assert(v24, "out != OTHER @/verif/harness/C07_decoder.cpp:56 [_ZL22body_file_header_shortj]");
  if (v_exc) {
    goto L14;
  }
  goto L8;
L8: ;
  __CPROVER_assert(v25, "out == PARSE_ERROR @/verif/harness/C07_decoder.cpp:57 [_ZL22body_file_header_shortj]");
  if (v_exc) {
    goto L14;
  }
  goto L9;
L9: ;
  v26 = *v11;
  v27 = *v8;
  v28 = ((u8*)v26 == (u8*)v27);
  __CPROVER_assert(v28, "dec.pos() == 0 @/verif/harness/C07_decoder.cpp:57 [_ZL22body_file_header_shortj]");
  if (v_exc) {
    goto L14;
  }
  goto L10;
L10: ;
  __CPROVER_assert(0, "WITNESS:file header: short buffer -> parse_error [_ZL22body_file_header_shortj]");
  if (v_exc) {
    goto L14;
  }
  goto L11;
L11: ;
  v29 = *v8;
  v30 = ((u8*)v29 == (u8*)((u8*)0));
  if (v30) {
    goto L19;
  } else {
    goto L12;
  }
L12: ;
  _ZdlPv(v29);
  goto L19;
L13: ;
  __cxa_end_catch();
  if (v_exc) {
    goto L14;
  }
  v24_t = ((u1)0ULL);
  v25_t = ((u1)0ULL);
  v24 = v24_t;
  v25 = v25_t;
  goto L7;
L14: ;
  v31.f0 = v_exc_obj;
  v31.f1 = 0;
  v_exc = 0;
  v33 = v31;
  goto L16;
L15: ;
  v32.f0 = v_exc_obj;
  v32.f1 = 0;
  v_exc = 0;
  v33 = v32;
  goto L16;
L16: ;
  v34 = *v8;
  v35 = ((u8*)v34 == (u8*)((u8*)0));
  if (v35) {
    goto L18;
  } else {
    goto L17;
  }
L17: ;
  _ZdlPv(v34);
  goto L18;
L18: ;
  v_exc = 1; return;
L19: ;
  return;
}

void _ZNSt7__cxx119to_stringEm(struct S4_class_std____cxx11__basic_string* a0, u64 a1) {
  u1 v0;
  u64 v1; u64 v1_t;
  u32 v2; u32 v2_t;
  u1 v3;
  u32 v4;
  u1 v5;
  u32 v6;
  u1 v7;
  u32 v8;
  u64 v9;
  u32 v10;
  u1 v11;
  u32 v12; u32 v12_t;
  u64 v13;
  struct S10_union_anon* v14;
  struct S10_union_anon** v15;
  u8** v16;
  u8* v17;
  u1 v18;
  u64* v19;
  u64 v20;
  u32 v21;
  u32 v22;
  u64 v23; u64 v23_t;
  u32 v24; u32 v24_t;
  u64 v25;
  u64 v26;
  u64 v27;
  u64 v28;
  u8* v29;
  u8 v30;
  u64 v31;
  u8* v32;
  u8* v33;
  u8 v34;
  u32 v35;
  u64 v36;
  u8* v37;
  u32 v38;
  u1 v39;
  u64 v40; u64 v40_t;
  u1 v41;
  u64 v42;
  u64 v43;
  u8* v44;
  u8 v45;
  u8* v46;
  u8* v47;
  u8 v48;
  u8 v49;
  u8 v50;
  u8 v51; u8 v51_t;
L0: ;
  v0 = (a1 < ((u64)10ULL));
  if (v0) {
    v12 = ((u32)1ULL);
    goto L8;
  } else {
    v1_t = a1;
    v2_t = ((u32)1ULL);
    v1 = v1_t;
    v2 = v2_t;
    goto L1;
  }
L1: ;
  v3 = (v1 < ((u64)100ULL));
  if (v3) {
    goto L2;
  } else {
    goto L3;
  }
L2: ;
  v4 = ((u32)(v2 + ((u32)1ULL)));
  v12 = v4;
  goto L8;
L3: ;
  v5 = (v1 < ((u64)1000ULL));
  if (v5) {
    goto L4;
  } else {
    goto L5;
  }
L4: ;
  v6 = ((u32)(v2 + ((u32)2ULL)));
  v12 = v6;
  goto L8;
L5: ;
  v7 = (v1 < ((u64)10000ULL));
  if (v7) {
    goto L6;
  } else {
    goto L7;
  }
L6: ;
  v8 = ((u32)(v2 + ((u32)3ULL)));
  v12 = v8;
  goto L8;
L7: ;
  v9 = ((u64)(v1 / ((u64)10000ULL)));
  v10 = ((u32)(v2 + ((u32)4ULL)));
  v11 = (v1 < ((u64)100000ULL));
  if (v11) {
    v12 = v10;
    goto L8;
  } else {
    v1_t = v9;
    v2_t = v10;
    v1 = v1_t;
    v2 = v2_t;
    goto L1;
  }
L8: ;
  v13 = ((u64)(v12));
  v14 = (struct S10_union_anon*)(&(*a0).f2);
  v15 = (struct S10_union_anon**)&(*a0).f0.f0;
  *v15 = v14;
  _ZNSt7__cxx1112basic_stringIcSt11char_traitsIcESaIcEE12_M_constructEmc(a0, v13, ((u8)0ULL));
  if (v_exc) return;
  v16 = (u8**)(&(*a0).f0.f0);
  v17 = *v16;
  v18 = (a1 > ((u64)99ULL));
  if (v18) {
    goto L9;
  } else {
    v40 = a1;
    goto L11;
  }
L9: ;
  v19 = (u64*)(&(*a0).f1);
  v20 = *v19;
  v21 = ((u32)(v20));
  v22 = ((u32)(v21 + ((u32)4294967295ULL)));
  v23_t = a1;
  v24_t = v22;
  v23 = v23_t;
  v24 = v24_t;
  goto L10;
L10: ;
  v25 = ((u64)(v23 % ((u64)100ULL)));
  v26 = ((u64)(v25 << ((u64)1ULL)));
  v27 = ((u64)(v23 / ((u64)100ULL)));
  v28 = ((u64)(v26 | ((u64)1ULL)));
  v29 = (u8*)(&(*(&_ZZNSt8__detail18__to_chars_10_implImEEvPcjT_E8__digits)).e[(s64)((s64)v28)]);
  v30 = (*(&_ZZNSt8__detail18__to_chars_10_implImEEvPcjT_E8__digits)).e[(s64)((s64)v28)];
  v31 = ((u64)(v24));
  v32 = (u8*)(v17 + (s64)((s64)v31));
  *v32 = v30;
  v33 = (u8*)(&(*(&_ZZNSt8__detail18__to_chars_10_implImEEvPcjT_E8__digits)).e[(s64)((s64)v26)]);
  v34 = (*(&_ZZNSt8__detail18__to_chars_10_implImEEvPcjT_E8__digits)).e[(s64)((s64)v26)];
  v35 = ((u32)(v24 + ((u32)4294967295ULL)));
  v36 = ((u64)(v35));
  v37 = (u8*)(v17 + (s64)((s64)v36));
  *v37 = v34;
  v38 = ((u32)(v24 + ((u32)4294967294ULL)));
  v39 = (v23 > ((u64)9999ULL));
  if (v39) {
    v23_t = v27;
    v24_t = v38;
    v23 = v23_t;
    v24 = v24_t;
    goto L10;
  } else {
    v40 = v27;
    goto L11;
  }
L11: ;
  v41 = (v40 > ((u64)9ULL));
  if (v41) {
    goto L12;
  } else {
    goto L13;
  }
L12: ;
  v42 = ((u64)(v40 << ((u64)1ULL)));
  v43 = ((u64)(v42 | ((u64)1ULL)));
  v44 = (u8*)(&(*(&_ZZNSt8__detail18__to_chars_10_implImEEvPcjT_E8__digits)).e[(s64)((s64)v43)]);
  v45 = (*(&_ZZNSt8__detail18__to_chars_10_implImEEvPcjT_E8__digits)).e[(s64)((s64)v43)];
  v46 = (u8*)(v17 + (s64)((s64)((u64)1ULL)));
  *v46 = v45;
  v47 = (u8*)(&(*(&_ZZNSt8__detail18__to_chars_10_implImEEvPcjT_E8__digits)).e[(s64)((s64)v42)]);
  v48 = (*(&_ZZNSt8__detail18__to_chars_10_implImEEvPcjT_E8__digits)).e[(s64)((s64)v42)];
  v51 = v48;
  goto L14;
L13: ;
  v49 = ((u8)(v40));
  v50 = ((u8)(v49 + ((u8)48ULL)));
  v51 = v50;
  goto L14;
L14: ;
  *v17 = v51;
  return;
}

void _ZStplIcSt11char_traitsIcESaIcEENSt7__cxx1112basic_stringIT_T0_T1_EEPKS5_OS8_(struct S4_class_std____cxx11__basic_string* a0, u8* a1, struct S4_class_std____cxx11__basic_string* a2) {
  u64 v0;
  struct S4_class_std____cxx11__basic_string* v1;
  struct S10_union_anon* v2;
  u8* v3;
  struct S10_union_anon** v4;
  u8** v5;
  u8* v6;
  struct S10_union_anon* v7;
  u8* v8;
  u1 v9;
  u64* v10;
  u64 v11;
  u64 v12;
  u1 v13;
  u8** v14;
  u64* v15;
  u64 v16;
  u64* v17;
  u64* v18;
  u64 v19;
  u64* v20;
  struct S10_union_anon** v21;
L0: ;
  v0 = strlen(a1);
  v1 = _ZNSt7__cxx1112basic_stringIcSt11char_traitsIcESaIcEE10_M_replaceEmmPKcm(a2, ((u64)0ULL), ((u64)0ULL), a1, v0);
  if (v_exc) return;
  v2 = (struct S10_union_anon*)(&(*a0).f2);
  v3 = (u8*)v2;
  v4 = (struct S10_union_anon**)&(*a0).f0.f0;
  *v4 = v2;
  v5 = (u8**)(&(*v1).f0.f0);
  v6 = *v5;
  v7 = (struct S10_union_anon*)(&(*v1).f2);
  v8 = (u8*)v7;
  v9 = ((u8*)v6 == (u8*)v8);
  if (v9) {
    goto L1;
  } else {
    goto L3;
  }
L1: ;
  v10 = (u64*)(&(*v1).f1);
  v11 = *v10;
  v12 = ((u64)(v11 + ((u64)1ULL)));
  v13 = (v12 == ((u64)0ULL));
  if (v13) {
    goto L4;
  } else {
    goto L2;
  }
L2: ;
  { struct S10_union_anon* _d = v2; struct S10_union_anon* _s = v7; u64 _len = (u64)v12; u64 _n = _len / 16;
    if (_len % 16 == 0) { if (_n) { if (__CPROVER_same_object(_d, _s) && __CPROVER_POINTER_OFFSET(_d) > __CPROVER_POINTER_OFFSET(_s)) { for (u64 _i = _n; _i > 0; --_i) _d[_i-1] = _s[_i-1]; } else { for (u64 _i = 0; _i < _n; ++_i) _d[_i] = _s[_i]; } } }
    else { u8* _bd = (u8*)_d; u8* _bs = (u8*)_s; if (__CPROVER_same_object(_bd, _bs) && __CPROVER_POINTER_OFFSET(_bd) > __CPROVER_POINTER_OFFSET(_bs)) { for (u64 _i = _len; _i > 0; --_i) _bd[_i-1] = _bs[_i-1]; } else { for (u64 _i = 0; _i < _len; ++_i) _bd[_i] = _bs[_i]; } } }
  goto L4;
L3: ;
  v14 = (u8**)(&(*a0).f0.f0);
  *v14 = v6;
  v15 = (u64*)(&(*v1).f2.f0.e[0]);
  v16 = *v15;
  v17 = (u64*)(&(*a0).f2.f0.e[0]);
  *v17 = v16;
  goto L4;
L4: ;
  v18 = (u64*)(&(*v1).f1);
  v19 = *v18;
  v20 = (u64*)(&(*a0).f1);
  *v20 = v19;
  v21 = (struct S10_union_anon**)&(*v1).f0.f0;
  *v21 = v7;
  *v18 = ((u64)0ULL);
  *v8 = ((u8)0ULL);
  return;
}

void _ZN14OpenVolumeMesh2IO6detail11parse_errorD0Ev(struct S6_class_OpenVolumeMesh__IO__detail__parse_* a0) {
  struct S5_class_std__runtime_error* v0;
  u8* v1;
L0: ;
  v0 = (struct S5_class_std__runtime_error*)(&(*a0).f0.f0);
  _ZNSt13runtime_errorD2Ev(v0);
  v1 = (u8*)a0;
  _ZdlPv(v1);
  return;
}

void _ZN14OpenVolumeMesh2IO6detail7Decoder8reservedILh4EEEvv(struct S7_class_OpenVolumeMesh__IO__detail__Decode* a0) {
  struct S11_struct_std__array_9* v0; struct S11_struct_std__array_9 v0_m;
  struct S4_class_std____cxx11__basic_string* v1; struct S4_class_std____cxx11__basic_string v1_m;
  struct S4_class_std____cxx11__basic_string* v2; struct S4_class_std____cxx11__basic_string v2_m;
  u8* v3;
  u8* v4;
  u1 v5;
  u8* v6; u8* v6_t;
  u8 v7;
  u1 v8;
  u8* v9;
  u8* v10;
  u8* v11;
  u8* v12;
  u8** v13;
  u8* v14;
  u8** v15;
  u8* v16;
  u64 v17;
  u64 v18;
  u64 v19;
  struct S5_class_std__runtime_error* v20;
  fnptr_t** v21;
  struct S9 v22;
  struct S9 v23;
  u1 v24; u1 v24_t;
  struct S9 v25;
  u8** v26;
  u8* v27;
  struct S10_union_anon* v28;
  u8* v29;
  u1 v30;
  struct S9 v31; struct S9 v31_t;
  u1 v32; u1 v32_t;
  u8** v33;
  u8* v34;
  struct S10_union_anon* v35;
  u8* v36;
  u1 v37;
  struct S9 v38; struct S9 v38_t;
  u1 v39; u1 v39_t;
L0: ;
  v0 = &v0_m;
  v1 = &v1_m;
  v2 = &v2_m;
  v3 = (u8*)(&(*v0).f0.e[(s64)((s64)((u64)0ULL))]);
  _ZN14OpenVolumeMesh2IO6detail7Decoder4readEPhm(a0, v3, ((u64)4ULL));
  v4 = (u8*)(&(*v0).f0.e[(s64)((s64)((u64)4ULL))]);
  v6 = v3;
  goto L3;
L1: ;
  v5 = ((u8*)v9 == (u8*)v4);
  if (v5) {
    goto L2;
  } else {
    v6 = v9;
    goto L3;
  }
L2: ;
  return;
L3: ;
  v7 = *v6;
  v8 = (v7 == ((u8)0ULL));
  v9 = (u8*)(v6 + (s64)((s64)((u64)1ULL)));
  if (v8) {
    goto L1;
  } else {
    goto L4;
  }
L4: ;
  v10 = __cxa_allocate_exception(((u64)16ULL));
  v11 = (u8*)v1;
  v12 = (u8*)v2;
  v13 = (u8**)(&(*a0).f1);
  v14 = *v13;
  v15 = (u8**)(&(*a0).f0.f0.f0.f0.f0);
  v16 = *v15;
  v17 = ((u64)((u64)v14));
  v18 = ((u64)((u64)v16));
  v19 = v_pdiff((u8*)v14, (u8*)v16);
  _ZNSt7__cxx119to_stringEm(v2, v19);
  if (v_exc) {
    goto L8;
  }
  goto L5;
L5: ;
  _ZStplIcSt11char_traitsIcESaIcEENSt7__cxx1112basic_stringIT_T0_T1_EEPKS5_OS8_(v1, ((u8*)(&(*(&_str_58)).e[(s64)((s64)((u64)0ULL))])), v2);
  if (v_exc) {
    goto L9;
  }
  goto L6;
L6: ;
  v20 = (struct S5_class_std__runtime_error*)v10;
  _ZNSt13runtime_errorC2ERKNSt7__cxx1112basic_stringIcSt11char_traitsIcESaIcEEE(v20, v1);
  if (v_exc) {
    v24 = ((u1)1ULL);
    goto L10;
  }
  goto L7;
L7: ;
  v21 = (fnptr_t**)v10;
  *v21 = ((fnptr_t*)((u8**)(&(*(&_ZTVN14OpenVolumeMesh2IO6detail11parse_errorE)).f0.e[(s64)((s64)((u64)2ULL))])));
  __cxa_throw(v10, ((u8*)(&_ZTIN14OpenVolumeMesh2IO6detail11parse_errorE)), ((u8*)((fnptr_t)_ZNSt13runtime_errorD2Ev)));
  if (v_exc) {
    v24 = ((u1)0ULL);
    goto L10;
  }
  goto L17;
L8: ;
  v22.f0 = v_exc_obj;
  v22.f1 = 0;
  v_exc = 0;
  v38_t = v22;
  v39_t = ((u1)1ULL);
  v38 = v38_t;
  v39 = v39_t;
  goto L14;
L9: ;
  v23.f0 = v_exc_obj;
  v23.f1 = 0;
  v_exc = 0;
  v31_t = v23;
  v32_t = ((u1)1ULL);
  v31 = v31_t;
  v32 = v32_t;
  goto L12;
L10: ;
  v25.f0 = v_exc_obj;
  v25.f1 = 0;
  v_exc = 0;
  v26 = (u8**)(&(*v1).f0.f0);
  v27 = *v26;
  v28 = (struct S10_union_anon*)(&(*v1).f2);
  v29 = (u8*)v28;
  v30 = ((u8*)v27 == (u8*)v29);
  if (v30) {
    v31_t = v25;
    v32_t = v24;
    v31 = v31_t;
    v32 = v32_t;
    goto L12;
  } else {
    goto L11;
  }
L11: ;
  _ZdlPv(v27);
  v31_t = v25;
  v32_t = v24;
  v31 = v31_t;
  v32 = v32_t;
  goto L12;
L12: ;
  v33 = (u8**)(&(*v2).f0.f0);
  v34 = *v33;
  v35 = (struct S10_union_anon*)(&(*v2).f2);
  v36 = (u8*)v35;
  v37 = ((u8*)v34 == (u8*)v36);
  if (v37) {
    v38_t = v31;
    v39_t = v32;
    v38 = v38_t;
    v39 = v39_t;
    goto L14;
  } else {
    goto L13;
  }
L13: ;
  _ZdlPv(v34);
  v38_t = v31;
  v39_t = v32;
  v38 = v38_t;
  v39 = v39_t;
  goto L14;
L14: ;
  if (v39) {
    goto L15;
  } else {
    goto L16;
  }
L15: ;
  __cxa_free_exception(v10);
  goto L16;
L16: ;
  v_exc = 1; return;
L17: ;
  __CPROVER_assume(0);
}

void _GLOBAL__sub_I_Decoder_cc(void) {
  u32 v0;
L0: ;
  _ZNSt8ios_base4InitC1Ev((&_ZStL8__ioinit));
  if (v_exc) return;
  v0 = __cxa_atexit(((fnptr_t)((fnptr_t)_ZNSt8ios_base4InitD1Ev)), ((u8*)(&(*(&_ZStL8__ioinit)).f0)), (&__dso_handle));
  return;
}

u8 _ZN14OpenVolumeMesh2IO6detail7Decoder2u8Ev(struct S7_class_OpenVolumeMesh__IO__detail__Decode* a0) {
  u8** v0;
  u8* v1;
  u8* v2;
  u8 v3;
L0: ;
  v0 = (u8**)(&(*a0).f1);
  v1 = *v0;
  v2 = (u8*)(v1 + (s64)((s64)((u64)1ULL)));
  *v0 = v2;
  v3 = *v1;
  return v3;
}

u64 _ZN14OpenVolumeMesh2IO6detail7Decoder3u64Ev(struct S7_class_OpenVolumeMesh__IO__detail__Decode* a0) {
  u8** v0;
  u8* v1;
  u8 v2;
  u64 v3;
  u8* v4;
  u8 v5;
  u64 v6;
  u64 v7;
  u64 v8;
  u8* v9;
  u8 v10;
  u64 v11;
  u64 v12;
  u64 v13;
  u8* v14;
  u8 v15;
  u64 v16;
  u64 v17;
  u64 v18;
  u8* v19;
  u8 v20;
  u64 v21;
  u64 v22;
  u64 v23;
  u8* v24;
  u8 v25;
  u64 v26;
  u64 v27;
  u64 v28;
  u8* v29;
  u8 v30;
  u64 v31;
  u64 v32;
  u64 v33;
  u8* v34;
  u8 v35;
  u64 v36;
  u64 v37;
  u64 v38;
  u8* v39;
L0: ;
  v0 = (u8**)(&(*a0).f1);
  v1 = *v0;
  v2 = *v1;
  v3 = ((u64)(v2));
  v4 = (u8*)(v1 + (s64)((s64)((u64)1ULL)));
  v5 = *v4;
  v6 = ((u64)(v5));
  v7 = ((u64)(v6 << ((u64)8ULL)));
  v8 = ((u64)(v7 | v3));
  v9 = (u8*)(v1 + (s64)((s64)((u64)2ULL)));
  v10 = *v9;
  v11 = ((u64)(v10));
  v12 = ((u64)(v11 << ((u64)16ULL)));
  v13 = ((u64)(v8 | v12));
  v14 = (u8*)(v1 + (s64)((s64)((u64)3ULL)));
  v15 = *v14;
  v16 = ((u64)(v15));
  v17 = ((u64)(v16 << ((u64)24ULL)));
  v18 = ((u64)(v13 | v17));
  v19 = (u8*)(v1 + (s64)((s64)((u64)4ULL)));
  v20 = *v19;
  v21 = ((u64)(v20));
  v22 = ((u64)(v21 << ((u64)32ULL)));
  v23 = ((u64)(v18 | v22));
  v24 = (u8*)(v1 + (s64)((s64)((u64)5ULL)));
  v25 = *v24;
  v26 = ((u64)(v25));
  v27 = ((u64)(v26 << ((u64)40ULL)));
  v28 = ((u64)(v23 | v27));
  v29 = (u8*)(v1 + (s64)((s64)((u64)6ULL)));
  v30 = *v29;
  v31 = ((u64)(v30));
  v32 = ((u64)(v31 << ((u64)48ULL)));
  v33 = ((u64)(v28 + v32));
  v34 = (u8*)(v1 + (s64)((s64)((u64)7ULL)));
  v35 = *v34;
  v36 = ((u64)(v35));
  v37 = ((u64)(v36 << ((u64)56ULL)));
  v38 = ((u64)(v33 + v37));
  v39 = (u8*)(v1 + (s64)((s64)((u64)8ULL)));
  *v0 = v39;
  return v38;
}

void _ZN14OpenVolumeMesh2IO6detail11parse_errorCI2St13runtime_errorEPKc(struct S6_class_OpenVolumeMesh__IO__detail__parse_* a0, u8* a1) {
  struct S5_class_std__runtime_error* v0;
  fnptr_t** v1;
L0: ;
  v0 = (struct S5_class_std__runtime_error*)(&(*a0).f0.f0);
  _ZNSt13runtime_errorC2EPKc(v0, a1);
  if (v_exc) return;
  v1 = (fnptr_t**)(&(*a0).f0.f0.f0.f0);
  *v1 = ((fnptr_t*)((u8**)(&(*(&_ZTVN14OpenVolumeMesh2IO6detail11parse_errorE)).f0.e[(s64)((s64)((u64)2ULL))])));
  return;
}

void _ZN14OpenVolumeMesh2IO6detail7Decoder4needEm(struct S7_class_OpenVolumeMesh__IO__detail__Decode* a0, u64 a1) {
  u8** v0;
  u8* v1;
  u8** v2;
  u8* v3;
  u64 v4;
  u64 v5;
  u64 v6;
  u1 v7;
  u8* v8;
  struct S6_class_OpenVolumeMesh__IO__detail__parse_* v9;
  struct S9 v10;
L0: ;
  v0 = (u8**)(&(*a0).f2);
  v1 = *v0;
  v2 = (u8**)(&(*a0).f1);
  v3 = *v2;
  v4 = ((u64)((u64)v1));
  v5 = ((u64)((u64)v3));
  v6 = v_pdiff((u8*)v1, (u8*)v3);
  v7 = (v6 < a1);
  if (v7) {
    goto L1;
  } else {
    goto L4;
  }
L1: ;
  v8 = __cxa_allocate_exception(((u64)16ULL));
  v9 = (struct S6_class_OpenVolumeMesh__IO__detail__parse_*)v8;
  _ZN14OpenVolumeMesh2IO6detail11parse_errorCI2St13runtime_errorEPKc(v9, ((u8*)(&(*(&_str_5)).e[(s64)((s64)((u64)0ULL))])));
  if (v_exc) {
    goto L3;
  }
  goto L2;
L2: ;
  __cxa_throw(v8, ((u8*)(&_ZTIN14OpenVolumeMesh2IO6detail11parse_errorE)), ((u8*)((fnptr_t)_ZNSt13runtime_errorD2Ev)));
  if (v_exc) return;
  __CPROVER_assume(0);
L3: ;
  v10.f0 = v_exc_obj;
  v10.f1 = 0;
  v_exc = 0;
  __cxa_free_exception(v8);
  v_exc = 1; return;
L4: ;
  return;
}

void _ZN14OpenVolumeMesh2IO6detail7Decoder4readEPhm(struct S7_class_OpenVolumeMesh__IO__detail__Decode* a0, u8* a1, u64 a2) {
  u8** v0;
  u8* v1;
  u8* v2;
  u8* v3;
L0: ;
  v0 = (u8**)(&(*a0).f1);
  v1 = *v0;
  v_memcpy((u8*)a1, (u8*)v1, (u64)a2);
  v2 = *v0;
  v3 = (u8*)(v2 + (s64)((s64)a2));
  *v0 = v3;
  return;
}

void __cxx_global_var_init(void) {
  u8 v0;
  u1 v1;
  u32 v2;
  u1 v3;
  u64 v4;
  u64 v5;
L0: ;
  v0 = *((u8*)(&_ZGVN14OpenVolumeMesh2IO6detail9ovmb_sizeINS1_10FileHeaderEEE));
  v1 = (v0 == ((u8)0ULL));
  if (v1) {
    goto L1;
  } else {
    goto L3;
  }
L1: ;
  v2 = __cxa_guard_acquire((&_ZGVN14OpenVolumeMesh2IO6detail9ovmb_sizeINS1_10FileHeaderEEE));
  v3 = (v2 == ((u32)0ULL));
  if (v3) {
    goto L3;
  } else {
    goto L2;
  }
L2: ;
  v4 = *(&_ZN14OpenVolumeMesh2IO6detail9ovmb_sizeINS1_8TopoTypeEEE);
  v5 = ((u64)(v4 + ((u64)47ULL)));
  *(&_ZN14OpenVolumeMesh2IO6detail9ovmb_sizeINS1_10FileHeaderEEE) = v5;
  __cxa_guard_release((&_ZGVN14OpenVolumeMesh2IO6detail9ovmb_sizeINS1_10FileHeaderEEE));
  goto L3;
L3: ;
  return;
}

void __cxx_global_var_init_2(void) {
  u8 v0;
  u1 v1;
  u32 v2;
  u1 v3;
  u64 v4;
  u64 v5;
  u64 v6;
  u64 v7;
L0: ;
  v0 = *((u8*)(&_ZGVN14OpenVolumeMesh2IO6detail9ovmb_sizeINS1_11ChunkHeaderEEE));
  v1 = (v0 == ((u8)0ULL));
  if (v1) {
    goto L1;
  } else {
    goto L3;
  }
L1: ;
  v2 = __cxa_guard_acquire((&_ZGVN14OpenVolumeMesh2IO6detail9ovmb_sizeINS1_11ChunkHeaderEEE));
  v3 = (v2 == ((u32)0ULL));
  if (v3) {
    goto L3;
  } else {
    goto L2;
  }
L2: ;
  v4 = *(&_ZN14OpenVolumeMesh2IO6detail9ovmb_sizeINS1_9ChunkTypeEEE);
  v5 = *(&_ZN14OpenVolumeMesh2IO6detail9ovmb_sizeINS1_10ChunkFlagsEEE);
  v6 = ((u64)(v4 + ((u64)11ULL)));
  v7 = ((u64)(v6 + v5));
  *(&_ZN14OpenVolumeMesh2IO6detail9ovmb_sizeINS1_11ChunkHeaderEEE) = v7;
  __cxa_guard_release((&_ZGVN14OpenVolumeMesh2IO6detail9ovmb_sizeINS1_11ChunkHeaderEEE));
  goto L3;
L3: ;
  return;
}

void __cxx_global_var_init_3(void) {
  u8 v0;
  u1 v1;
  u32 v2;
  u1 v3;
  u64 v4;
  u64 v5;
L0: ;
  v0 = *((u8*)(&_ZGVN14OpenVolumeMesh2IO6detail9ovmb_sizeINS1_15PropChunkHeaderEEE));
  v1 = (v0 == ((u8)0ULL));
  if (v1) {
    goto L1;
  } else {
    goto L3;
  }
L1: ;
  v2 = __cxa_guard_acquire((&_ZGVN14OpenVolumeMesh2IO6detail9ovmb_sizeINS1_15PropChunkHeaderEEE));
  v3 = (v2 == ((u32)0ULL));
  if (v3) {
    goto L3;
  } else {
    goto L2;
  }
L2: ;
  v4 = *(&_ZN14OpenVolumeMesh2IO6detail9ovmb_sizeINS1_9ArraySpanEEE);
  v5 = ((u64)(v4 + ((u64)4ULL)));
  *(&_ZN14OpenVolumeMesh2IO6detail9ovmb_sizeINS1_15PropChunkHeaderEEE) = v5;
  __cxa_guard_release((&_ZGVN14OpenVolumeMesh2IO6detail9ovmb_sizeINS1_15PropChunkHeaderEEE));
  goto L3;
L3: ;
  return;
}

void __cxx_global_var_init_4(void) {
  u8 v0;
  u1 v1;
  u32 v2;
  u1 v3;
  u64 v4;
  u64 v5;
L0: ;
  v0 = *((u8*)(&_ZGVN14OpenVolumeMesh2IO6detail9ovmb_sizeINS1_17VertexChunkHeaderEEE));
  v1 = (v0 == ((u8)0ULL));
  if (v1) {
    goto L1;
  } else {
    goto L3;
  }
L1: ;
  v2 = __cxa_guard_acquire((&_ZGVN14OpenVolumeMesh2IO6detail9ovmb_sizeINS1_17VertexChunkHeaderEEE));
  v3 = (v2 == ((u32)0ULL));
  if (v3) {
    goto L3;
  } else {
    goto L2;
  }
L2: ;
  v4 = *(&_ZN14OpenVolumeMesh2IO6detail9ovmb_sizeINS1_9ArraySpanEEE);
  v5 = ((u64)(v4 + ((u64)4ULL)));
  *(&_ZN14OpenVolumeMesh2IO6detail9ovmb_sizeINS1_17VertexChunkHeaderEEE) = v5;
  __cxa_guard_release((&_ZGVN14OpenVolumeMesh2IO6detail9ovmb_sizeINS1_17VertexChunkHeaderEEE));
  goto L3;
L3: ;
  return;
}

void __cxx_global_var_init_5(void) {
  u8 v0;
  u1 v1;
  u32 v2;
  u1 v3;
  u64 v4;
  u64 v5;
  u64 v6;
  u64 v7;
  u64 v8;
  u64 v9;
  u64 v10;
L0: ;
  v0 = *((u8*)(&_ZGVN14OpenVolumeMesh2IO6detail9ovmb_sizeINS1_15TopoChunkHeaderEEE));
  v1 = (v0 == ((u8)0ULL));
  if (v1) {
    goto L1;
  } else {
    goto L3;
  }
L1: ;
  v2 = __cxa_guard_acquire((&_ZGVN14OpenVolumeMesh2IO6detail9ovmb_sizeINS1_15TopoChunkHeaderEEE));
  v3 = (v2 == ((u32)0ULL));
  if (v3) {
    goto L3;
  } else {
    goto L2;
  }
L2: ;
  v4 = *(&_ZN14OpenVolumeMesh2IO6detail9ovmb_sizeINS1_9ArraySpanEEE);
  v5 = *(&_ZN14OpenVolumeMesh2IO6detail9ovmb_sizeINS1_10TopoEntityEEE);
  v6 = *(&_ZN14OpenVolumeMesh2IO6detail9ovmb_sizeINS1_11IntEncodingEEE);
  v7 = ((u64)(v6 << ((u64)1ULL)));
  v8 = ((u64)(v4 + ((u64)9ULL)));
  v9 = ((u64)(v8 + v5));
  v10 = ((u64)(v9 + v7));
  *(&_ZN14OpenVolumeMesh2IO6detail9ovmb_sizeINS1_15TopoChunkHeaderEEE) = v10;
  __cxa_guard_release((&_ZGVN14OpenVolumeMesh2IO6detail9ovmb_sizeINS1_15TopoChunkHeaderEEE));
  goto L3;
L3: ;
  return;
}

u1 _ZN14OpenVolumeMesh2IO6detail4readERNS1_7DecoderERNS1_10FileHeaderE(struct S7_class_OpenVolumeMesh__IO__detail__Decode* a0, struct S8_struct_OpenVolumeMesh__IO__detail__FileH* a1) {
  struct S3_struct_std__array_13* v0; struct S3_struct_std__array_13 v0_m;
  u64 v1;
  u8* v2;
  u32 v3;
  u1 v4;
  u8 v5;
  u8* v6;
  u8 v7;
  u8* v8;
  u1 v9;
  u8 v10;
  u8* v11;
  u8* v12;
  u8 v13;
  u1 v14;
  u8* v15;
  struct S6_class_OpenVolumeMesh__IO__detail__parse_* v16;
  struct S9 v17;
  u64 v18;
  u64* v19;
  u64 v20;
  u64* v21;
  u64 v22;
  u64* v23;
  u64 v24;
  u64* v25;
  u1 v26; u1 v26_t;
L0: ;
  v0 = &v0_m;
  v1 = *(&_ZN14OpenVolumeMesh2IO6detail9ovmb_sizeINS1_10FileHeaderEEE);
  _ZN14OpenVolumeMesh2IO6detail7Decoder4needEm(a0, v1);
  if (v_exc) return (u1)0;
  v2 = (u8*)(&(*v0).f0.e[(s64)((s64)((u64)0ULL))]);
  _ZN14OpenVolumeMesh2IO6detail7Decoder4readEPhm(a0, v2, ((u64)8ULL));
  v3 = bcmp(v2, ((u8*)(&(*(&_ZN14OpenVolumeMesh2IO6detail10ovmb_magicE)).f0.e[(s64)((s64)((u64)0ULL))])), ((u64)8ULL));
  v4 = (v3 == ((u32)0ULL));
  if (v4) {
    goto L1;
  } else {
    v26 = ((u1)0ULL);
    goto L7;
  }
L1: ;
  v5 = _ZN14OpenVolumeMesh2IO6detail7Decoder2u8Ev(a0);
  v6 = (u8*)(&(*a1).f0);
  *v6 = v5;
  v7 = _ZN14OpenVolumeMesh2IO6detail7Decoder2u8Ev(a0);
  v8 = (u8*)(&(*a1).f1);
  *v8 = v7;
  v9 = (v7 == ((u8)1ULL));
  if (v9) {
    goto L2;
  } else {
    v26 = ((u1)0ULL);
    goto L7;
  }
L2: ;
  v10 = _ZN14OpenVolumeMesh2IO6detail7Decoder2u8Ev(a0);
  v11 = (u8*)(&(*a1).f2);
  *v11 = v10;
  v12 = (u8*)(&(*a1).f3);
  v13 = _ZN14OpenVolumeMesh2IO6detail7Decoder2u8Ev(a0);
  *v12 = v13;
  v14 = (v13 < ((u8)3ULL));
  if (v14) {
    goto L6;
  } else {
    goto L3;
  }
L3: ;
  v15 = __cxa_allocate_exception(((u64)16ULL));
  v16 = (struct S6_class_OpenVolumeMesh__IO__detail__parse_*)v15;
  _ZN14OpenVolumeMesh2IO6detail11parse_errorCI2St13runtime_errorEPKc(v16, ((u8*)(&(*(&_str_59)).e[(s64)((s64)((u64)0ULL))])));
  if (v_exc) {
    goto L5;
  }
  goto L4;
L4: ;
  __cxa_throw(v15, ((u8*)(&_ZTIN14OpenVolumeMesh2IO6detail11parse_errorE)), ((u8*)((fnptr_t)_ZNSt13runtime_errorD2Ev)));
  if (v_exc) return (u1)0;
  __CPROVER_assume(0);
L5: ;
  v17.f0 = v_exc_obj;
  v17.f1 = 0;
  v_exc = 0;
  __cxa_free_exception(v15);
  v_exc = 1; return (u1)0;
L6: ;
  _ZN14OpenVolumeMesh2IO6detail7Decoder8reservedILh4EEEvv(a0);
  if (v_exc) return (u1)0;
  v18 = _ZN14OpenVolumeMesh2IO6detail7Decoder3u64Ev(a0);
  v19 = (u64*)(&(*a1).f4);
  *v19 = v18;
  v20 = _ZN14OpenVolumeMesh2IO6detail7Decoder3u64Ev(a0);
  v21 = (u64*)(&(*a1).f5);
  *v21 = v20;
  v22 = _ZN14OpenVolumeMesh2IO6detail7Decoder3u64Ev(a0);
  v23 = (u64*)(&(*a1).f6);
  *v23 = v22;
  v24 = _ZN14OpenVolumeMesh2IO6detail7Decoder3u64Ev(a0);
  v25 = (u64*)(&(*a1).f7);
  *v25 = v24;
  v26 = ((u1)1ULL);
  goto L7;
L7: ;
  return v26;
}

void _GLOBAL__sub_I_Encoder_cc(void) {
  u32 v0;
L0: ;
  _ZNSt8ios_base4InitC1Ev((&_ZStL8__ioinit_94));
  if (v_exc) return;
  v0 = __cxa_atexit(((fnptr_t)((fnptr_t)_ZNSt8ios_base4InitD1Ev)), ((u8*)(&(*(&_ZStL8__ioinit_94)).f0)), (&__dso_handle));
  return;
}

void _GLOBAL__sub_I_WriteBuffer_cc(void) {
  u32 v0;
L0: ;
  _ZNSt8ios_base4InitC1Ev((&_ZStL8__ioinit_107));
  if (v_exc) return;
  v0 = __cxa_atexit(((fnptr_t)((fnptr_t)_ZNSt8ios_base4InitD1Ev)), ((u8*)(&(*(&_ZStL8__ioinit_107)).f0)), (&__dso_handle));
  return;
}

void _ZSt20__throw_length_errorPKc(u8* a0) {
L0: ;
  v_throw_std(((u32)1ULL));
  if (v_exc) return;
  __CPROVER_assume(0);
}

void _ZSt17__throw_bad_allocv(void) {
L0: ;
  v_throw_std(((u32)2ULL));
  if (v_exc) return;
  __CPROVER_assume(0);
}

void _ZNSt7__cxx1112basic_stringIcSt11char_traitsIcESaIcEE12_M_constructEmc(struct S4_class_std____cxx11__basic_string* a0, u64 a1, u8 a2) {
  u1 v0;
  u1 v1;
  u64 v2;
  u1 v3;
  u8* v4;
  u8** v5;
  u64* v6;
  u1 v7;
  u8** v8;
  u8* v9;
  u1 v10;
  u64* v11;
  u8** v12;
  u8* v13;
  u8* v14;
L0: ;
  v0 = (a1 > ((u64)15ULL));
  if (v0) {
    goto L1;
  } else {
    goto L6;
  }
L1: ;
  v1 = (a1 > ((u64)4611686018427387903ULL));
  if (v1) {
    goto L2;
  } else {
    goto L3;
  }
L2: ;
  _ZSt20__throw_length_errorPKc(((u8*)0));
  if (v_exc) return;
  __CPROVER_assume(0);
L3: ;
  v2 = ((u64)(a1 + ((u64)1ULL)));
  v3 = (((s64)v2) < ((s64)((u64)0ULL)));
  if (v3) {
    goto L4;
  } else {
    goto L5;
  }
L4: ;
  _ZSt17__throw_bad_allocv();
  if (v_exc) return;
  __CPROVER_assume(0);
L5: ;
  v4 = _Znwm(v2);
  if (v_exc) return;
  v5 = (u8**)(&(*a0).f0.f0);
  *v5 = v4;
  v6 = (u64*)(&(*a0).f2.f0.e[0]);
  *v6 = a1;
  goto L6;
L6: ;
  v7 = (a1 == ((u64)0ULL));
  if (v7) {
    goto L10;
  } else {
    goto L7;
  }
L7: ;
  v8 = (u8**)(&(*a0).f0.f0);
  v9 = *v8;
  v10 = (a1 == ((u64)1ULL));
  if (v10) {
    goto L8;
  } else {
    goto L9;
  }
L8: ;
  *v9 = a2;
  goto L10;
L9: ;
  v_memset((u8*)v9, a2, (u64)a1);
  goto L10;
L10: ;
  v11 = (u64*)(&(*a0).f1);
  *v11 = a1;
  v12 = (u8**)(&(*a0).f0.f0);
  v13 = *v12;
  v14 = (u8*)(v13 + (s64)((s64)a1));
  *v14 = ((u8)0ULL);
  return;
}

void _ZNSt7__cxx1112basic_stringIcSt11char_traitsIcESaIcEE9_M_mutateEmmPKcm(struct S4_class_std____cxx11__basic_string* a0, u64 a1, u64 a2, u8* a3, u64 a4) {
  u64* v0;
  u64 v1;
  u64 v2;
  u64 v3;
  u64 v4;
  u64 v5;
  u8** v6;
  u8* v7;
  struct S10_union_anon* v8;
  u8* v9;
  u1 v10;
  u64* v11;
  u64 v12;
  u64 v13;
  u1 v14;
  u1 v15;
  u64 v16;
  u1 v17;
  u1 v18;
  u64 v19;
  u64 v20; u64 v20_t;
  u64 v21;
  u1 v22;
  u8* v23;
  u8 v24;
  u1 v25;
  u1 v26;
  u1 v27;
  u8* v28;
  u8 v29;
  u1 v30;
  u8* v31;
  u8* v32;
  u8* v33;
  u8* v34;
  u1 v35;
  u8 v36;
L0: ;
  v0 = (u64*)(&(*a0).f1);
  v1 = *v0;
  v2 = ((u64)(a2 + a1));
  v3 = ((u64)(v1 - v2));
  v4 = ((u64)(a4 - a2));
  v5 = ((u64)(v4 + v1));
  v6 = (u8**)(&(*a0).f0.f0);
  v7 = *v6;
  v8 = (struct S10_union_anon*)(&(*a0).f2);
  v9 = (u8*)v8;
  v10 = ((u8*)v7 == (u8*)v9);
  v11 = (u64*)(&(*a0).f2.f0.e[0]);
  v12 = *v11;
  v13 = (v10 ? ((u64)15ULL) : v12);
  v14 = (v5 > ((u64)4611686018427387903ULL));
  if (v14) {
    goto L1;
  } else {
    goto L2;
  }
L1: ;
  _ZSt20__throw_length_errorPKc(((u8*)0));
  if (v_exc) return;
  __CPROVER_assume(0);
L2: ;
  v15 = (v5 > v13);
  if (v15) {
    goto L3;
  } else {
    v20 = v5;
    goto L5;
  }
L3: ;
  v16 = ((u64)(v13 << ((u64)1ULL)));
  v17 = (v5 < v16);
  if (v17) {
    goto L4;
  } else {
    v20 = v5;
    goto L5;
  }
L4: ;
  v18 = (v16 < ((u64)4611686018427387903ULL));
  v19 = (v18 ? v16 : ((u64)4611686018427387903ULL));
  v20 = v19;
  goto L5;
L5: ;
  v21 = ((u64)(v20 + ((u64)1ULL)));
  v22 = (((s64)v21) < ((s64)((u64)0ULL)));
  if (v22) {
    goto L6;
  } else {
    goto L7;
  }
L6: ;
  _ZSt17__throw_bad_allocv();
  if (v_exc) return;
  __CPROVER_assume(0);
L7: ;
  v23 = _Znwm(v21);
  if (v_exc) return;
  switch (a1) {
  case ((u64)0ULL): {
    goto L10;
  }
  case ((u64)1ULL): {
    goto L8;
  }
  default: {
    goto L9;
  }
  }
L8: ;
  v24 = *v7;
  *v23 = v24;
  goto L10;
L9: ;
  v_memcpy((u8*)v23, (u8*)v7, (u64)a1);
  goto L10;
L10: ;
  v25 = ((u8*)a3 != (u8*)((u8*)0));
  v26 = (a4 != ((u64)0ULL));
  v27 = ((u1)((v25 & v26)&1));
  if (v27) {
    goto L11;
  } else {
    goto L14;
  }
L11: ;
  v28 = (u8*)(v23 + (s64)((s64)a1));
  switch (a4) {
  case ((u64)1ULL): {
    goto L12;
  }
  case ((u64)0ULL): {
    goto L14;
  }
  default: {
    goto L13;
  }
  }
L12: ;
  v29 = *a3;
  *v28 = v29;
  goto L14;
L13: ;
  v_memcpy((u8*)v28, (u8*)a3, (u64)a4);
  goto L14;
L14: ;
  v30 = (v3 == ((u64)0ULL));
  if (v30) {
    goto L18;
  } else {
    goto L15;
  }
L15: ;
  v31 = (u8*)(v23 + (s64)((s64)a1));
  v32 = (u8*)(v31 + (s64)((s64)a4));
  v33 = (u8*)(v7 + (s64)((s64)a1));
  v34 = (u8*)(v33 + (s64)((s64)a2));
  v35 = (v3 == ((u64)1ULL));
  if (v35) {
    goto L16;
  } else {
    goto L17;
  }
L16: ;
  v36 = *v34;
  *v32 = v36;
  goto L18;
L17: ;
  v_memcpy((u8*)v32, (u8*)v34, (u64)v3);
  goto L18;
L18: ;
  if (v10) {
    goto L20;
  } else {
    goto L19;
  }
L19: ;
  _ZdlPv(v7);
  goto L20;
L20: ;
  *v6 = v23;
  *v11 = v20;
  return;
}

struct S4_class_std____cxx11__basic_string* _ZNSt7__cxx1112basic_stringIcSt11char_traitsIcESaIcEE10_M_replaceEmmPKcm(struct S4_class_std____cxx11__basic_string* a0, u64 a1, u64 a2, u8* a3, u64 a4) {
  u64* v0;
  u64 v1;
  u64 v2;
  u64 v3;
  u1 v4;
  u64 v5;
  u64 v6;
  u8** v7;
  u8* v8;
  struct S10_union_anon* v9;
  u8* v10;
  u1 v11;
  u64* v12;
  u64 v13;
  u64 v14;
  u1 v15;
  u8* v16;
  u64 v17;
  u64 v18;
  u1 v19;
  u8* v20;
  u1 v21;
  u1 v22;
  u1 v23;
  u1 v24;
  u1 v25;
  u8* v26;
  u8* v27;
  u8 v28;
  u8 v29;
  u1 v30;
  u64 v31;
  u1 v32;
  u8 v33;
  u1 v34;
  u1 v35;
  u1 v36;
  u8* v37;
  u8* v38;
  u8 v39;
  u8* v40;
  u8* v41;
  u1 v42;
  u8 v43;
  u1 v44;
  u64 v45;
  u64 v46;
  u64 v47;
  u64 v48;
  u64 v49;
  u8* v50;
  u8 v51;
  u64 v52;
  u64 v53;
  u64 v54;
  u8 v55;
  u8* v56;
  u8* v57;
  u64 v58;
  u8 v59;
  u8* v60;
  u8* v61;
L0: ;
  v0 = (u64*)(&(*a0).f1);
  v1 = *v0;
  v2 = ((u64)(a2 + ((u64)4611686018427387903ULL)));
  v3 = ((u64)(v2 - v1));
  v4 = (v3 < a4);
  if (v4) {
    goto L1;
  } else {
    goto L2;
  }
L1: ;
  _ZSt20__throw_length_errorPKc(((u8*)0));
  if (v_exc) return (struct S4_class_std____cxx11__basic_string*)0;
  __CPROVER_assume(0);
L2: ;
  v5 = ((u64)(a4 - a2));
  v6 = ((u64)(v5 + v1));
  v7 = (u8**)(&(*a0).f0.f0);
  v8 = *v7;
  v9 = (struct S10_union_anon*)(&(*a0).f2);
  v10 = (u8*)v9;
  v11 = ((u8*)v8 == (u8*)v10);
  v12 = (u64*)(&(*a0).f2.f0.e[0]);
  v13 = *v12;
  v14 = (v11 ? ((u64)15ULL) : v13);
  v15 = (v6 > v14);
  if (v15) {
    goto L34;
  } else {
    goto L3;
  }
L3: ;
  v16 = (u8*)(v8 + (s64)((s64)a1));
  v17 = ((u64)(a2 + a1));
  v18 = ((u64)(v1 - v17));
  v19 = v_plt((u8*)a3, (u8*)v8);
  v20 = (u8*)(v8 + (s64)((s64)v1));
  v21 = v_plt((u8*)v20, (u8*)a3);
  v22 = (v19 ? ((u1)1ULL) : v21);
  if (v22) {
    goto L4;
  } else {
    goto L11;
  }
L4: ;
  v23 = (v18 == ((u64)0ULL));
  v24 = (a4 == a2);
  v25 = ((u1)((v24 | v23)&1));
  if (v25) {
    goto L8;
  } else {
    goto L5;
  }
L5: ;
  v26 = (u8*)(v16 + (s64)((s64)a4));
  v27 = (u8*)(v16 + (s64)((s64)a2));
  switch (v18) {
  case ((u64)1ULL): {
    goto L6;
  }
  case ((u64)0ULL): {
    goto L8;
  }
  default: {
    goto L7;
  }
  }
L6: ;
  v28 = *v27;
  *v26 = v28;
  goto L8;
L7: ;
  v_memmove((u8*)v26, (u8*)v27, (u64)v18);
  goto L8;
L8: ;
  switch (a4) {
  case ((u64)0ULL): {
    goto L35;
  }
  case ((u64)1ULL): {
    goto L9;
  }
  default: {
    goto L10;
  }
  }
L9: ;
  v29 = *a3;
  *v16 = v29;
  goto L35;
L10: ;
  v_memcpy((u8*)v16, (u8*)a3, (u64)a4);
  goto L35;
L11: ;
  v30 = (a4 > a2);
  v31 = ((u64)(a4 + ((u64)18446744073709551615ULL)));
  v32 = (v31 < a2);
  if (v32) {
    goto L12;
  } else {
    goto L15;
  }
L12: ;
  switch (a4) {
  case ((u64)1ULL): {
    goto L13;
  }
  case ((u64)0ULL): {
    goto L15;
  }
  default: {
    goto L14;
  }
  }
L13: ;
  v33 = *a3;
  *v16 = v33;
  goto L15;
L14: ;
  v_memmove((u8*)v16, (u8*)a3, (u64)a4);
  goto L15;
L15: ;
  v34 = (v18 == ((u64)0ULL));
  v35 = (a4 == a2);
  v36 = ((u1)((v35 | v34)&1));
  if (v36) {
    goto L19;
  } else {
    goto L16;
  }
L16: ;
  v37 = (u8*)(v16 + (s64)((s64)a4));
  v38 = (u8*)(v16 + (s64)((s64)a2));
  switch (v18) {
  case ((u64)1ULL): {
    goto L17;
  }
  case ((u64)0ULL): {
    goto L19;
  }
  default: {
    goto L18;
  }
  }
L17: ;
  v39 = *v38;
  *v37 = v39;
  goto L19;
L18: ;
  v_memmove((u8*)v37, (u8*)v38, (u64)v18);
  goto L19;
L19: ;
  if (v30) {
    goto L20;
  } else {
    goto L35;
  }
L20: ;
  v40 = (u8*)(a3 + (s64)((s64)a4));
  v41 = (u8*)(v16 + (s64)((s64)a2));
  v42 = v_plt((u8*)v41, (u8*)v40);
  if (v42) {
    goto L24;
  } else {
    goto L21;
  }
L21: ;
  switch (a4) {
  case ((u64)1ULL): {
    goto L22;
  }
  case ((u64)0ULL): {
    goto L35;
  }
  default: {
    goto L23;
  }
  }
L22: ;
  v43 = *a3;
  *v16 = v43;
  goto L35;
L23: ;
  v_memmove((u8*)v16, (u8*)a3, (u64)a4);
  goto L35;
L24: ;
  v44 = v_plt((u8*)a3, (u8*)v41);
  if (v44) {
    goto L28;
  } else {
    goto L25;
  }
L25: ;
  v45 = ((u64)((u64)a3));
  v46 = ((u64)((u64)v16));
  v47 = ((u64)(v45 + a4));
  v48 = ((u64)(v46 + a2));
  v49 = ((u64)(v47 - v48));
  v50 = (u8*)(v16 + (s64)((s64)v49));
  switch (a4) {
  case ((u64)1ULL): {
    goto L26;
  }
  case ((u64)0ULL): {
    goto L35;
  }
  default: {
    goto L27;
  }
  }
L26: ;
  v51 = *v50;
  *v16 = v51;
  goto L35;
L27: ;
  v_memcpy((u8*)v16, (u8*)v50, (u64)a4);
  goto L35;
L28: ;
  v52 = ((u64)((u64)v41));
  v53 = ((u64)((u64)a3));
  v54 = v_pdiff((u8*)v41, (u8*)a3);
  switch (v54) {
  case ((u64)1ULL): {
    goto L29;
  }
  case ((u64)0ULL): {
    goto L31;
  }
  default: {
    goto L30;
  }
  }
L29: ;
  v55 = *a3;
  *v16 = v55;
  goto L31;
L30: ;
  v_memmove((u8*)v16, (u8*)a3, (u64)v54);
  goto L31;
L31: ;
  v56 = (u8*)(v16 + (s64)((s64)v54));
  v57 = (u8*)(v16 + (s64)((s64)a4));
  v58 = ((u64)(a4 - v54));
  switch (v58) {
  case ((u64)1ULL): {
    goto L32;
  }
  case ((u64)0ULL): {
    goto L35;
  }
  default: {
    goto L33;
  }
  }
L32: ;
  v59 = *v57;
  *v56 = v59;
  goto L35;
L33: ;
  v_memcpy((u8*)v56, (u8*)v57, (u64)v58);
  goto L35;
L34: ;
  _ZNSt7__cxx1112basic_stringIcSt11char_traitsIcESaIcEE9_M_mutateEmmPKcm(a0, a1, a2, a3, a4);
  if (v_exc) return (struct S4_class_std____cxx11__basic_string*)0;
  goto L35;
L35: ;
  *v0 = v6;
  v60 = *v7;
  v61 = (u8*)(v60 + (s64)((s64)v6));
  *v61 = ((u8)0ULL);
  return a0;
}

void _ZNSt13runtime_errorC2ERKNSt7__cxx1112basic_stringIcSt11char_traitsIcESaIcEEE(struct S5_class_std__runtime_error* a0, struct S4_class_std____cxx11__basic_string* a1) { }
void _ZNSt13runtime_errorD2Ev(struct S5_class_std__runtime_error* a0) { }
u8* _ZNKSt13runtime_error4whatEv(struct S5_class_std__runtime_error* a0) { static u8 empty[1]; return (u8*)empty; }
void _ZNSt13runtime_errorC2EPKc(struct S5_class_std__runtime_error* a0, u8* a1) { }
void v_run_static_init(void) {
  static int done; if (done) return; done = 1;
  _GLOBAL__sub_I_Decoder_cc();
  __cxx_global_var_init();
  __cxx_global_var_init_2();
  __cxx_global_var_init_3();
  __cxx_global_var_init_4();
  __cxx_global_var_init_5();
  _GLOBAL__sub_I_Encoder_cc();
  _GLOBAL__sub_I_WriteBuffer_cc();
}
u1 v_exc_match(u8* want) {
  if (v_exc_ti == (u8*)&_ZTIN14OpenVolumeMesh2IO6detail11parse_errorE) return 0 || want == (u8*)&_ZTIN14OpenVolumeMesh2IO6detail11parse_errorE || want == (u8*)&_ZTIN14OpenVolumeMesh2IO6detail8io_errorE || want == (u8*)&_ZTISt13runtime_error;
  if (v_exc_ti == (u8*)&_ZTISt13runtime_error) return 0 || want == (u8*)&_ZTISt13runtime_error;
  if (v_exc_ti == (u8*)&_ZTIN14OpenVolumeMesh2IO6detail8io_errorE) return 0 || want == (u8*)&_ZTIN14OpenVolumeMesh2IO6detail8io_errorE || want == (u8*)&_ZTISt13runtime_error;
  return 0;
}
